"""K-level check of the server runtime's agent management (part of C18: which agent instance an envelope reaches).

Specifications: specs/ServerPlane.tla (mechanism M of server/swimos_server_app/src/server/runtime/mod.rs - accept,
FindRoute / Agents::resolve_agent / Routes::find_route / attach_agent / AgentStopped / remove_agent / shutdown - plus the
part of swimos_remote's incoming task that decides where an envelope goes, with P1-P5 as invariants and action
properties), specs/MC_ServerPlane.tla (route tables, settled exploration, graph dump), specs/Trace_ServerPlane.tla (P
only, over recorded executions).

B3  TLC checks P1 (one live instance per node URI), P2 (right instance: first matching route, unapply's parameters,
    nothing travels to another node), P3 (no route -> node-not-found once, nothing started), P4 (nothing lost but what was
    in flight to a stopping instance; a dead instance receives nothing; a remote is closed only by its peer / the
    shutdown), P5 (shutdown stops every instance and closes every remote) on every interleaving of the environment
    (connect, send, disconnect, inactivity, agent failure, held termination, shutdown) with the server's steps at small
    scopes, for route tables with / without overlap.  Negative controls: the "start if none is registered" check split
    from the registration must break P1; without the excuse for the open finding KS1 the model must break P4.
B1  the settled state graph of M (the environment moves when the system is quiet, or writes a burst of envelopes back to
    back) is dumped for focused scopes; a transition cover + seeded random walks become scripts that run on the REAL
    server task (harness/h_remote/src/bin/server.rs: SwimServer::run over in-memory duplex sockets, test agents that log
    which instance got what).  Every execution must be a behaviour of M: the set of model states compatible with what was
    observed so far is tracked through the graph (per group of environment moves the multiset of observable events must
    be producible by some interleaving of M's steps).
B2  executions that are not behaviours of M, and the directed scenarios (slow subscriber, agent initialisation failure,
    exact-instant sends), are judged by Trace_ServerPlane.tla (P only): accepted -> MODEL-DRIFT note, rejected -> VIOLATION
    unless the rejection has exactly the shape of an open finding of known_findings/KSERVER.json.
"""
import collections, concurrent.futures as cf, json, os, random, re, shutil, subprocess, time
from vlib import core

PROP = "C18"
ENV_KINDS = {"connect", "send", "disconnect", "timeout", "fail", "release", "shutdown"}
URI_TEXT = {"ax": "/a/x", "ay": "/a/y", "b": "/b", "c": "/c", "a": "/a", "axz": "/a/x/z"}
URI_NAME = {v: k for k, v in URI_TEXT.items()}
TABLES = {"T1": ["/a/:id", "/b"], "T2": ["/b", "/a/:id"], "T3": ["/:p/:q", "/b"]}
INVS = ["TypeOK", "P1_OneLive", "P2_RightInstance", "P4_DeadGetsNothing", "P3_Unrouted", "P4_NoLoss", "ClosedOnlyWhen", "P5_Shutdown"]
PROPS = ["P1_StartOnlyIfNone", "P3_NotFound", "P3_OnlyUnrouted"]
INACTIVE_MS = 60000


def tset(xs):
    return "{" + ", ".join(('"%s"' % x) if isinstance(x, str) else str(x) for x in xs) + "}"


def mc_cfg(table="T1", uris=("ax", "ay", "c"), remotes=(1, 2), ops=("link", "command"), maxinst=2, maxsend=3, maxburst=2,
           persist=True, hold=False, atomic=True, findings=("KS1",), invs=(), props=(), constraints=("Bound",), actcons=(),
           view=None, spec=None):
    b = lambda x: "TRUE" if x else "FALSE"
    t = ("SPECIFICATION %s\n" % spec) if spec else "INIT Init\nNEXT Next\n"
    t += "CONSTANTS\n  Remotes = %s\n  URIs = %s\n  Ops = %s\n  MaxInst = %d\n  MaxSend = %d\n  MaxBurst = %d\n" % (
        tset(remotes), tset(uris), tset(ops), maxinst, maxsend, maxburst)
    t += "  Persist = %s\n  Hold = %s\n  AtomicResolve = %s\n  Findings = %s\n  Table = \"%s\"\n" % (
        b(persist), b(hold), b(atomic), tset(findings), table)
    t += "  Routes <- MCRoutes\n  Segs <- MCSegs\n"
    for i in invs:
        t += "INVARIANT %s\n" % i
    for p in props:
        t += "PROPERTY %s\n" % p
    for c in constraints:
        t += "CONSTRAINT %s\n" % c
    for c in actcons:
        t += "ACTION_CONSTRAINT %s\n" % c
    if view:
        t += "VIEW %s\n" % view
    t += "CHECK_DEADLOCK FALSE\n"
    return t


# ----------------------------------------------------------------------------- plans

def b3_plan(tier, findings):
    f = tuple(findings)
    if tier == "quick":
        return [
            ("race-1node", dict(uris=("ax",), remotes=(1, 2), ops=("link", "command"), maxsend=2, findings=f)),
            ("route-1remote", dict(uris=("ax", "ay", "c"), remotes=(1,), ops=("sync", "command"), maxsend=2, findings=f)),
            ("hold-unrouted", dict(uris=("ax", "c"), remotes=(1, 2), ops=("link", "command"), maxsend=2, hold=True, persist=False, findings=f)),
            ("overlap", dict(table="OV1", uris=("ax", "ay"), remotes=(1,), ops=("command",), maxsend=2, findings=f)),
        ]
    return [
        ("race-1node", dict(uris=("ax",), remotes=(1, 2), ops=("link", "command"), maxsend=3, findings=f)),
        ("route-1remote", dict(uris=("ax", "ay", "c"), remotes=(1,), ops=("link", "command"), maxsend=3, findings=f)),
        ("two-remotes", dict(uris=("ax", "ay", "c"), remotes=(1, 2), ops=("link", "command"), maxsend=2, findings=f)),
        ("hold-allops", dict(uris=("ax", "c"), remotes=(1, 2), ops=("sync", "unlink", "command"), maxsend=2, hold=True, findings=f)),
        ("overlap-1", dict(table="OV1", uris=("ax", "ay"), remotes=(1, 2), ops=("command", "link"), maxsend=2, findings=f)),
        ("overlap-2", dict(table="OV2", uris=("ax", "ay"), remotes=(1, 2), ops=("command", "link"), maxsend=2, findings=f)),
        ("order-T2", dict(table="T2", uris=("ax", "b", "a"), remotes=(1,), ops=("command", "sync"), maxsend=3, findings=f)),
        ("params-T3", dict(table="T3", uris=("ax", "ay", "axz"), remotes=(1,), ops=("command", "sync"), maxsend=3, findings=f)),
        ("three-remotes", dict(uris=("ax",), remotes=(1, 2, 3), ops=("command",), maxsend=3, persist=False, findings=f)),
    ]


def control_plan():
    small = dict(uris=("ax",), remotes=(1, 2), ops=("command",), maxsend=2)
    return [
        ("nonatomic-resolve", dict(small, atomic=False, invs=["P1_OneLive"]), "P1_OneLive"),
        ("nonatomic-resolve-action", dict(small, atomic=False, props=["P1_StartOnlyIfNone"]), "P1_StartOnlyIfNone"),
        ("without-KS1-closed", dict(small, findings=(), invs=["ClosedOnlyWhen"]), "ClosedOnlyWhen"),
        ("without-KS1-loss", dict(small, findings=(), invs=["P4_NoLoss"]), "P4_NoLoss"),
    ]


def dump_plan(tier):
    """(name, cfg keywords, harness table, random walks, walk depth)"""
    if tier == "quick":
        return [
            ("g-race", dict(uris=("ax",), remotes=(1, 2), ops=("link", "command"), maxburst=2), 60, 30),
            ("g-race-hold", dict(uris=("ax",), remotes=(1, 2), ops=("sync", "command"), maxburst=2, hold=True, persist=False), 60, 30),
            ("g-route", dict(uris=("ax", "ay", "c"), remotes=(1,), ops=("command", "link"), maxburst=2, maxinst=1), 40, 30),
        ]
    return [
        ("g-race", dict(uris=("ax",), remotes=(1, 2), ops=("link", "command"), maxburst=2), 400, 40),
        ("g-race-hold", dict(uris=("ax",), remotes=(1, 2), ops=("link", "command"), maxburst=2, hold=True), 400, 40),
        ("g-race-sync", dict(uris=("ax",), remotes=(1, 2), ops=("sync", "unlink", "command"), maxburst=2, persist=False), 400, 40),
        ("g-route", dict(uris=("ax", "ay", "c"), remotes=(1,), ops=("command", "sync"), maxburst=2), 400, 40),
        ("g-two-unrouted", dict(uris=("ax", "c"), remotes=(1, 2), ops=("link", "unlink", "command", "sync"), maxburst=1), 300, 40),
        ("g-two-nodes-hold", dict(uris=("ax", "ay"), remotes=(1, 2), ops=("command",), maxburst=2, hold=True, maxinst=1), 400, 40),
        ("g-order-T2", dict(table="T2", uris=("ax", "b", "a"), remotes=(1,), ops=("command", "link"), maxburst=2, maxinst=1), 200, 30),
        ("g-params-T3", dict(table="T3", uris=("ax", "ay", "axz"), remotes=(1,), ops=("command", "link"), maxburst=2, maxinst=1), 200, 30),
    ]


# ----------------------------------------------------------------------------- the dumped graph

class SGraph:
    """Settled state graph of M: environment edges (keyed by the move) and system edges (with what they make observable)."""

    def __init__(self, edges, inits):
        self.ids = {}
        self.env = collections.defaultdict(dict)      # s -> {canon(env act): t}
        self.sys = collections.defaultdict(list)      # s -> [(edge id, outputs (tuple of canonical strings), kf, t)]
        self.can = {}                                 # state -> the system can still move there
        self.all = collections.defaultdict(list)      # s -> [(act, t)] for path generation
        self.n_edges = 0
        self.edge_kind = []
        seen = set()
        for e in edges:
            s, t, a = self.sid(e["s"]), self.sid(e["t"]), e["a"]
            self.can[t] = bool(e["c"])
            key = (s, core.canon(a), t)
            if key in seen:
                continue
            seen.add(key)
            eid = self.n_edges
            self.n_edges += 1
            self.edge_kind.append(a["k"])
            self.all[s].append((eid, a, t))
            if a["k"] in ENV_KINDS:
                self.env[s][core.canon(env_key(a))] = (eid, t)
            else:
                outs = tuple(sorted(core.canon(norm_model_out(o)) for o in a.get("o", []) if not o.get("opt")))
                opts = tuple(sorted(core.canon(norm_model_out(o)) for o in a.get("o", []) if o.get("opt")))
                self.sys[s].append((eid, outs, a.get("kf") or "", t, opts))
        self.inits = [self.sid(i["s"]) for i in inits]
        for i in self.inits:
            self.can.setdefault(i, False)

    def sid(self, text):
        i = self.ids.get(text)
        if i is None:
            i = len(self.ids)
            self.ids[text] = i
        return i

    def paths(self, rng, walks, depth):
        """transition cover (every edge on some path from the initial state) + seeded random walks; as lists of acts"""
        parent = {}
        dq = collections.deque()
        for i in self.inits:
            parent[i] = None
            dq.append(i)
        while dq:
            s = dq.popleft()
            for (eid, a, t) in self.all.get(s, ()):
                if t not in parent:
                    parent[t] = (s, a)
                    dq.append(t)

        def path_to(n):
            acts = []
            while parent[n] is not None:
                n, a = parent[n]
                acts.append(a)
            acts.reverse()
            return acts
        uncovered = {s: list(range(len(self.all[s]))) for s in self.all if s in parent}
        order = sorted(uncovered, key=lambda s: len(path_to(s)))
        out = []
        for start in order:
            while uncovered[start]:
                acts = path_to(start)
                cur = start
                steps = 0
                while uncovered.get(cur) and steps < 80:
                    i = uncovered[cur].pop()
                    eid, a, t = self.all[cur][i]
                    acts.append(a)
                    cur = t
                    steps += 1
                # look behind the last edge: a few seeded steps
                for _ in range(6):
                    nxt = self.all.get(cur)
                    if not nxt:
                        break
                    eid, a, cur = nxt[rng.randrange(len(nxt))]
                    acts.append(a)
                out.append(acts)
        for _ in range(walks):
            cur = self.inits[0]
            acts = []
            for _ in range(depth * 4):
                nxt = self.all.get(cur)
                if not nxt:
                    break
                eid, a, cur = nxt[rng.randrange(len(nxt))]
                acts.append(a)
                if sum(1 for x in acts if x["k"] in ENV_KINDS) >= depth:
                    break
            out.append(acts)
        return out


def env_key(a):
    return {k: a[k] for k in ("k", "r", "u", "op") if k in a}


def norm_model_out(o):
    o = dict(o)
    o.pop("opt", None)
    if o.get("k") == "agent_run" and isinstance(o.get("params"), list):
        o["params"] = {}
    return o


def groups_of(acts):
    """project a path of M onto the environment's moves; consecutive sends with no step of the system between them are a burst"""
    groups = []
    prev_env_send = False
    for a in acts:
        if a["k"] in ENV_KINDS:
            if a["k"] == "send" and prev_env_send:
                groups[-1].append(env_key(a))
            else:
                groups.append([env_key(a)])
            prev_env_send = a["k"] == "send"
        else:
            prev_env_send = False
    return groups


# ----------------------------------------------------------------------------- scripts for the harness

def harness_cfg(kw):
    return {"routes": TABLES[kw.get("table", "T1")], "persist": bool(kw.get("persist", True)), "hold": bool(kw.get("hold", False)),
            "inactive_ms": INACTIVE_MS, "attach_ms": 24 * 3600 * 1000, "table": kw.get("table", "T1")}


def concretise(groups):
    """model moves -> harness acts (node URIs as text, a unique body per command)"""
    out = []
    e = 0
    for g in groups:
        hg = []
        for a in g:
            h = dict(a)
            if "u" in h:
                h["u"] = URI_TEXT[h["u"]]
            if h["k"] == "send" and h["op"] == "command":
                e += 1
                h["e"] = e
            hg.append(h)
        out.append(hg)
    return out


_TAG = re.compile(r'^"(.*)#(\d+):.*"$')


def writer_of(body, uri_text):
    """the instance named in a lane state `"<uri>#<n>:<command body>"`; "0" for the initial state"""
    if body in (None, '""'):
        return "0"
    m = _TAG.match(body)
    if m and m.group(1) == uri_text:
        return m.group(2)
    return "?" + str(body)


def norm_real(ev):
    """one logged event of the harness in the vocabulary of M's outputs; None: not an observation M speaks about"""
    k = ev["k"]
    name = lambda u: URI_NAME.get(u, u)
    if k in ENV_KINDS or k in ("rt_open", "rt_end", "settle", "sent_at", "send_at", "advance", "pause", "resume", "hold", "finish", "start_agent"):
        return None
    if k == "agent_run":
        return {"k": k, "u": name(ev["u"]), "route": ev["route"], "params": ev["params"], "n": ev["n"]}
    if k == "started":
        w = writer_of(ev.get("restored"), ev["u"])
        return {"k": k, "u": name(ev["u"]), "n": ev["n"], "restored": int(w) if w.isdigit() else w}
    if k == "deliver":
        return {"k": k, "u": name(ev["u"]), "n": ev["n"], "op": ev["op"]}
    if k in ("stopping", "stopped", "failed"):
        return {"k": k, "u": name(ev["u"]), "n": ev["n"]}
    if k == "recv":
        m = ev["msg"]
        kind, body = m.get("kind"), m.get("body", "")
        if m.get("lane") != "lane":
            return dict(ev)
        if kind == "event":
            b = writer_of(body, m.get("node"))
        elif kind == "unlinked":
            b = {"@nodeNotFound": "nf", '"Link closed."': "closed", "": "stop"}.get(body, "?" + body)
        else:
            b = body
        return {"k": "recv", "r": ev["r"], "kind": kind, "u": name(m.get("node")), "b": b}
    if k == "closed":
        return {"k": k, "r": ev["r"], "code": ev["code"]}
    if k == "eof":
        return {"k": k, "r": ev["r"]}
    if k == "server_end":
        return {"k": k} if ev.get("ok") else dict(ev)
    return dict(ev)     # anything else (skip, peer_write_failed, lane_error, ...) is no behaviour of M


def observed_groups(res):
    return [[x for x in (norm_real(e) for e in g["ev"]) if x is not None] for g in res.get("obs", [])], \
           [x for x in (norm_real(e) for e in res.get("end", [])) if x is not None]


# ----------------------------------------------------------------------------- is the execution a behaviour of M?

def closure(G, starts, observed, final=False):
    """states of M, settled, reachable from `starts` by steps of the system that together make exactly `observed` observable.
    starts: {state: (kf set, edge set)}.  final: the end of the script - shutdown and releases are silent moves of the harness.
    Returns ({state: (kf, edges)}, beyond_bound)."""
    want = collections.Counter(core.canon(o) for o in observed)
    out = {}
    beyond = False
    seen = set()
    stack = [(s, tuple(sorted(want.items())), kf, ed) for s, (kf, ed) in starts.items()]
    while stack:
        s, rem_t, kf, ed = stack.pop()
        key = (s, rem_t, kf)
        if key in seen:
            continue
        seen.add(key)
        rem = dict(rem_t)
        moves = G.sys.get(s, [])
        if not moves:
            if G.can.get(s):
                beyond = True            # the model's bound (MaxInst) stops it here: nothing can be said beyond
                continue
            silent = []
            if final:
                for ck, (eid, t) in G.env.get(s, {}).items():
                    if json.loads(ck)["k"] in ("shutdown", "release"):
                        silent.append((eid, t))
            if silent:
                for eid, t in silent:
                    stack.append((t, rem_t, kf, ed | {eid}))
                continue
            if not rem:
                old = out.get(s)
                out[s] = (kf, ed) if old is None else (old[0] & kf, old[1] | ed)
            continue
        for eid, outs, k, t, opts in moves:
            r2 = dict(rem)
            ok = True
            for o in outs:
                c = r2.get(o, 0)
                if c <= 0:
                    ok = False
                    break
                if c == 1:
                    del r2[o]
                else:
                    r2[o] = c - 1
            if not ok:
                continue
            # optional observations (may or may not reach the peer): each is taken if it was observed
            for o in opts:
                c = r2.get(o, 0)
                if c == 1:
                    del r2[o]
                elif c > 1:
                    r2[o] = c - 1
            stack.append((t, tuple(sorted(r2.items())), kf | ({k} if k else frozenset()), ed | {eid}))
    return out, beyond


def include(G, groups, obs_groups, obs_end, script_done=True):
    """track the model states compatible with the observations.  Returns dict(status, at, kf, edges):
       status: "behaviour" | "diverges" (not a behaviour of M from group `at`) | "bound" (left the modelled scope at `at`)
               | "disabled" (a move of the script was not possible in the model state(s) reached: script artefact)"""
    S = {i: (frozenset(), frozenset()) for i in G.inits}
    for gi, g in enumerate(groups):
        S1 = {}
        for s, (kf, ed) in S.items():
            cur, ok, e2 = s, True, set(ed)
            for a in g:
                nxt = G.env.get(cur, {}).get(core.canon(a))
                if nxt is None:
                    ok = False
                    break
                e2.add(nxt[0])
                cur = nxt[1]
            if ok:
                S1[cur] = (kf, frozenset(e2))
        if not S1:
            return {"status": "disabled", "at": gi, "kf": merge_kf(S), "edges": merge_edges(S)}
        if gi >= len(obs_groups):
            return {"status": "diverges", "at": gi, "kf": merge_kf(S), "edges": merge_edges(S)}
        S2, beyond = closure(G, S1, obs_groups[gi])
        if not S2:
            return {"status": "bound" if beyond else "diverges", "at": gi, "kf": merge_kf(S), "edges": merge_edges(S)}
        S = S2
    if script_done:
        S2, beyond = closure(G, S, obs_end, final=True)
        if not S2:
            return {"status": "bound" if beyond else "diverges", "at": len(groups), "kf": merge_kf(S), "edges": merge_edges(S)}
        S = S2
    return {"status": "behaviour", "at": len(groups), "kf": merge_kf(S), "edges": merge_edges(S)}


def merge_kf(S):
    """findings hit for sure: on every compatible path"""
    sets = [kf for (kf, ed) in S.values()]
    return sorted(frozenset.intersection(*sets)) if sets else []


def merge_edges(S):
    out = set()
    for (kf, ed) in S.values():
        out |= ed
    return out


# ----------------------------------------------------------------------------- harness

HB = {"bin": None}


def build_server_harness(wd):
    """h_remote/server needs the optional dependency on swimos_server_app (feature of the same name, as h_core/route)."""
    core.ensure_lockfile()
    t0 = time.time()
    p = subprocess.run(["cargo", "build", "--offline", "-p", "h_remote", "--bin", "server", "--features", "swimos_server_app"],
                       cwd=core.HARNESS, env=core.cargo_env(), stdout=subprocess.PIPE, stderr=subprocess.STDOUT, text=True, timeout=3600)
    if p.returncode != 0:
        raise core.ToolError("cargo build -p h_remote --bin server --features swimos_server_app failed:\n%s" % "\n".join(p.stdout.splitlines()[-60:]))
    dst = os.path.join(wd, "server_bin")
    shutil.copy2(core.harness_bin("server"), dst)
    HB["bin"] = dst
    core.log("[build] h_remote server --features swimos_server_app ok in %.1fs" % (time.time() - t0))


def run_cases(cases, wd, tag, jobs=4):
    """run harness cases (in `jobs` parallel processes); results in case order"""
    if not cases:
        return []
    chunks = [cases[i::jobs] for i in range(jobs)]

    def one(ix):
        ch = chunks[ix]
        if not ch:
            return []
        inp, outp = os.path.join(wd, "%s.%d.in.ndjson" % (tag, ix)), os.path.join(wd, "%s.%d.out.ndjson" % (tag, ix))
        core.write_ndjson(inp, ch)
        with open(inp) as fin, open(outp, "w") as fout:
            p = subprocess.run([HB["bin"]], stdin=fin, stdout=fout, stderr=subprocess.PIPE, text=True, timeout=3000,
                               env=core.coverage_env(dict(os.environ, RUST_BACKTRACE="0"), "server"))
        if p.returncode != 0:
            raise core.ToolError("harness server exited %s:\n%s" % (p.returncode, p.stderr[-3000:]))
        res = core.read_ndjson(outp)
        if len(res) != len(ch):
            raise core.ToolError("harness server answered %d of %d cases" % (len(res), len(ch)))
        return res
    with cf.ThreadPoolExecutor(jobs) as ex:
        parts = list(ex.map(one, range(jobs)))
    out = [None] * len(cases)
    for ix, part in enumerate(parts):
        for j, r in enumerate(part):
            out[ix + j * jobs] = r
    return out


# ----------------------------------------------------------------------------- P: trace validation (batched)

def first_match(patterns, uri):
    """C18's reading of a route table: the first pattern (registration order) whose segments match; parameters by name"""
    segs = uri.strip("/").split("/")
    for i, p in enumerate(patterns):
        ps = p.strip("/").split("/")
        if len(ps) != len(segs):
            continue
        if all(a.startswith(":") or a == b for a, b in zip(ps, segs)):
            return {"route": i + 1, "params": sorted([a[1:], b] for a, b in zip(ps, segs) if a.startswith(":"))}
    return {"route": 0, "params": []}


def trace_of(cid, case, res, open_ids):
    """the recorded execution of one harness case as events of Trace_ServerPlane (concrete node URIs, envelope numbers)"""
    pats = case["cfg"]["routes"]
    uris = set()
    for g in case["groups"]:
        for a in g:
            if "u" in a:
                uris.add(a["u"])
    evs = []

    def conv(e):
        k = e["k"]
        if isinstance(e.get("u"), str):
            uris.add(e["u"])
        if k == "send":
            return {"k": k, "r": e["r"], "u": e["u"], "op": e["op"], "e": int(e.get("e", 0))}
        if k == "agent_run":
            uris.add(e["u"])
            return {"k": k, "u": e["u"], "route": e["route"], "params": sorted([a, b] for a, b in e["params"].items()), "n": e["n"]}
        if k == "deliver":
            body = e.get("body", "0")
            return {"k": k, "u": e["u"], "n": e["n"], "op": e["op"], "e": int(body) if str(body).lstrip("-").isdigit() else -1}
        if k == "recv":
            m = e["msg"]
            kind, body = m.get("kind"), m.get("body", "")
            uris.add(m.get("node"))
            b = {"@nodeNotFound": "nf", '"Link closed."': "closed", "": "stop"}.get(body, body) if kind == "unlinked" else ""
            return {"k": k, "r": e["r"], "kind": kind if m.get("lane") == "lane" else "other-lane", "u": m.get("node"), "b": b}
        if k in ("started", "init_failed", "stopping", "stopped", "failed", "finished"):
            uris.add(e["u"])
            return {"k": k, "u": e["u"], "n": e["n"]}
        if k in ("rt_end", "rt_open"):
            uris.add(e["u"])
            return {"k": k, "u": e["u"]}
        if k in ("closed",):
            return {"k": k, "r": e["r"], "code": e["code"]}
        if k in ("eof", "connect", "disconnect", "peer_write_failed", "pause", "resume"):
            return {"k": k, "r": e["r"]}
        if k == "server_end":
            return {"k": k, "ok": bool(e.get("ok"))}
        return {"k": k}
    shut = False
    for g in res.get("obs", []):
        for e in g["ev"]:
            if e["k"] == "shutdown":
                shut = True
            evs.append(conv(e))
        evs.append({"k": "settle"})
    if not shut:
        evs.append({"k": "shutdown"})
    for e in res.get("end", []):
        evs.append(conv(e))
    evs.append({"k": "end"})
    if res.get("panic") is not None:
        evs.append({"k": "panic"})
    head = {"k": "reset", "id": str(cid), "exp": {u: first_match(pats, u) for u in sorted(x for x in uris if x)}, "kf": sorted(open_ids)}
    return [head] + evs


def p_validate(items, wd, tag, open_ids):
    """items: [(id, case, result)].  One TLC run of Trace_ServerPlane over all of them.
    Returns {id: {"accepted": bool, "at": index within the execution, "ev": rejected event, "kf": [findings excusing it]}}"""
    if not items:
        return {}
    events, start = [], {}
    for cid, case, res in items:
        start[str(cid)] = len(events)
        events += trace_of(cid, case, res, open_ids)
    d = os.path.join(wd, "trace_" + tag)
    os.makedirs(d, exist_ok=True)
    tp = os.path.join(d, "trace.ndjson")
    core.write_ndjson(tp, events)
    c = core.cfg(spec="TraceSpec", postcondition="TraceAccepted")
    r = core.run_tlc("Trace_ServerPlane", c, d, workers=1, timeout=1800, depth_first=True, env={"TRACE": tp}, xmx="3g", coverage=False)
    tr = r.tagged.get("TRACE_RESULT")
    if not tr or not tr[-1].get("accepted"):
        raise core.ToolError("Trace_ServerPlane did not run over the whole trace: %s\n%s" % (tr, r.stdout[-2000:]))
    out = {str(cid): {"accepted": True, "kf": [], "events": None} for cid, _, _ in items}
    for x in r.tagged.get("REJECT", []):
        o = out[x["id"]]
        if o["accepted"]:
            o.update(accepted=False, at=x["at"] - start[x["id"]] - 1, ev=x["ev"])
    for x in r.tagged.get("KF", []):
        if x["f"] not in out[x["id"]]["kf"]:
            out[x["id"]]["kf"].append(x["f"])
    return out


# ----------------------------------------------------------------------------- directed scenarios (judged by P only)

def directed_cases(seed):
    """hand-written executions outside M's alphabet: exact-instant sends, a slow subscriber, agent initialisation failure,
    an agent that ends on its own, explicit start requests, an abrupt disconnect and reconnect, other route tables"""
    cfg = {"routes": TABLES["T1"], "persist": True, "inactive_ms": INACTIVE_MS, "attach_ms": 24 * 3600 * 1000}
    n = [0]

    def S(r, u, op, **kw):
        n[0] += 1
        return dict({"k": "send", "r": r, "u": u, "op": op, "e": n[0]}, **kw)
    C = lambda r: [{"k": "connect", "r": r}]
    cases = []
    # the envelope arrives at the very instant the agent gives up (and around it)
    for who in (1, 2):
        for off in (-2, -1, 0, 1):
            n[0] = 0
            cases.append({"id": "instant-%d-%d" % (who, off), "cfg": cfg, "groups": [
                C(1), C(2), [S(1, "/a/x", "link")],
                [dict(S(who, "/a/x", "command"), k="send_at", ns=(INACTIVE_MS + off) * 1000000)],
                [{"k": "timeout"}], [S(who, "/a/x", "command")], [S(3 - who, "/a/x", "sync")]]})
    # a linked subscriber that does not read: the stopping instance lingers until shutdown_timeout (KS1 without any help)
    n[0] = 0
    slow = dict(cfg, persist=False, agent_buf=64, duplex=64)
    g = [C(1), C(2), C(3), [S(2, "/a/x", "link")], [{"k": "pause", "r": 2}]]
    g += [[S(1, "/a/x", "command")] for _ in range(12)]
    g += [[{"k": "timeout"}], [S(3, "/a/x", "command")], [S(1, "/b", "command")], [{"k": "advance", "ms": 31000}], [{"k": "resume", "r": 2}],
          [S(1, "/a/x", "command")]]
    cases.append({"id": "slow-subscriber", "cfg": slow, "groups": g, "expect_kf": "KS1"})
    n[0] = 0
    cases.append({"id": "fail-init", "cfg": dict(cfg, fail_init=1), "expect_kf": "KS1", "groups": [
        C(1), C(2), [S(1, "/b", "link")], [S(2, "/a/x", "command")], [S(2, "/a/x", "command")]]})
    n[0] = 0
    cases.append({"id": "finish", "cfg": cfg, "groups": [
        C(1), [S(1, "/a/x", "link")], [S(1, "/a/x", "command")], [{"k": "finish", "u": "/a/x"}], [S(1, "/a/x", "command")], [{"k": "timeout"}],
        [S(1, "/a/x", "sync")]]})
    n[0] = 0
    cases.append({"id": "start-agent", "cfg": cfg, "groups": [
        C(1), [{"k": "start_agent", "u": "/a/z"}], [{"k": "start_agent", "u": "/c"}], [S(1, "/a/z", "command")], [{"k": "start_agent", "u": "/a/z"}],
        [{"k": "timeout"}], [{"k": "start_agent", "u": "/a/z"}], [S(1, "/a/z", "sync")]]})
    n[0] = 0
    cases.append({"id": "drop-reconnect", "cfg": cfg, "groups": [
        C(1), C(2), [S(1, "/a/x", "link")], [S(2, "/a/x", "link")], [{"k": "disconnect", "r": 1, "how": "drop"}], [S(2, "/a/x", "command")],
        C(1), [S(1, "/a/x", "sync")], [S(1, "/c", "unlink")], [{"k": "shutdown"}], [S(2, "/a/y", "command")]]})
    for t in ("T1", "T2", "T3"):
        n[0] = 0
        cases.append({"id": "calm-" + t, "cfg": dict(cfg, routes=TABLES[t]), "groups": [
            C(1), C(2), [S(1, "/a/x", "link")], [S(2, "/a/x", "command")], [S(2, "/a/y", "sync")], [S(1, "/c/d/e", "link")], [S(1, "/c/d/e", "command")],
            [S(1, "/b", "command"), S(2, "/b", "command")], [S(1, "/a/x", "unlink")], [S(2, "/c/d/e", "sync")], [S(2, "/a/y", "command")],
            [{"k": "shutdown"}]]})
    # the only table with two matching routes the real server can be given: a plane route shaped like the node meta route of
    # the introspection layer, whose routes are appended AFTER the plane's (SwimServer::new does not run
    # check_meta_collisions, ServerBuilder::build would).  Registration order decides: the plane's agent gets the envelopes.
    n[0] = 0
    cases.append({"id": "overlap-meta", "cfg": dict(cfg, routes=["swimos:meta:node/:who", "/b"], introspection=True), "groups": [
        C(1), [S(1, "swimos:meta:node/zz", "command")], [S(1, "swimos:meta:node/zz", "sync")], [S(1, "/b", "command")],
        [S(1, "swimos:meta:node/yy", "link"), S(1, "swimos:meta:node/yy", "command")], [{"k": "shutdown"}]]})
    n[0] = 0
    cases.append({"id": "introspection-on", "cfg": dict(cfg, introspection=True), "expect_meta_collision": False, "groups": [
        C(1), C(2), [S(1, "/a/x", "link")], [S(2, "/a/x", "command")], [S(2, "/c", "sync")], [{"k": "timeout"}], [S(2, "/a/x", "sync")],
        [S(1, "/a/y", "command"), S(2, "/a/y", "command")], [{"k": "shutdown"}]]})
    cases[-2]["expect_meta_collision"] = True
    for t, uris in (("T2", ["/a/x", "/b", "/a", "/b/x"]), ("T3", ["/a/x", "/x/a", "/b", "/a/x/z", "/c"])):
        n[0] = 0
        g = [C(1)]
        for u in uris:
            g += [[S(1, u, "sync")], [S(1, u, "command")]]
        g += [[{"k": "timeout"}]] + [[S(1, u, "command"), S(1, u, "link")] for u in uris]
        cases.append({"id": "table-" + t, "cfg": dict(cfg, routes=TABLES[t]), "groups": g})
    return cases


def tampered(trace_items):
    """P's own negative control: executions P accepted, falsified in one place each; P must reject every one"""
    out = []
    for cid, case, res in trace_items:
        evs = [e for g in res["obs"] for e in g["ev"]]
        kinds = [e["k"] for e in evs]

        def clone():
            return json.loads(json.dumps(res))
        if "deliver" in kinds and "agent_run" in kinds:
            r = clone()        # P1: a second instance while the first lives
            for g in r["obs"]:
                for i, e in enumerate(g["ev"]):
                    if e["k"] == "deliver":
                        g["ev"].insert(i, {"k": "agent_run", "u": e["u"], "route": 1, "params": {"id": e["u"].split("/")[-1]}, "n": e["n"] + 1})
                        break
                else:
                    continue
                break
            out.append(("%s/second-instance" % cid, case, r))
            r = clone()        # P2: delivered to an instance of another node
            done = False
            for g in r["obs"]:
                for e in g["ev"]:
                    if e["k"] == "deliver" and not done:
                        e["u"] = "/a/y" if e["u"] != "/a/y" else "/a/x"
                        done = True
            out.append(("%s/other-node" % cid, case, r))
            r = clone()        # P4: an envelope vanishes
            done = False
            for g in r["obs"]:
                for i, e in enumerate(g["ev"]):
                    if e["k"] == "deliver" and e["op"] == "command" and not done:
                        del g["ev"][i]
                        done = True
                        break
            if done:
                out.append(("%s/lost" % cid, case, r))
            r = clone()        # P2: delivered twice
            done = False
            for g in r["obs"]:
                for i, e in enumerate(g["ev"]):
                    if e["k"] == "deliver" and e["op"] == "command" and not done:
                        g["ev"].insert(i, dict(e))
                        done = True
                        break
            if done:
                out.append(("%s/twice" % cid, case, r))
            r = clone()        # P2: wrong route parameters
            for g in r["obs"]:
                for e in g["ev"]:
                    if e["k"] == "agent_run":
                        e["params"] = {"id": "other"}
            out.append(("%s/params" % cid, case, r))
        nf = [(gi, i) for gi, g in enumerate(res["obs"]) for i, e in enumerate(g["ev"]) if e["k"] == "recv" and e["msg"].get("body") == "@nodeNotFound"]
        if nf:
            gi, i = nf[0]
            r = clone()        # P3: not answered
            del r["obs"][gi]["ev"][i]
            out.append(("%s/nf-missing" % cid, case, r))
            r = clone()        # P3: answered twice
            r["obs"][gi]["ev"].insert(i, dict(r["obs"][gi]["ev"][i]))
            out.append(("%s/nf-twice" % cid, case, r))
        if "server_end" in [e["k"] for e in res.get("end", [])] + kinds:
            r = clone()        # P5: an instance survives the shutdown
            for part in [g["ev"] for g in r["obs"]] + [r["end"]]:
                for i, e in enumerate(part):
                    if e["k"] == "stopped":
                        del part[i]
                        break
            if r != res:
                out.append(("%s/survivor" % cid, case, r))
    return out


# ----------------------------------------------------------------------------- run

def kf_text(fid):
    for f in core.known_findings():
        if f["id"] == fid:
            return "%s %s" % (fid, f["what"])
    return fid


def run_k(tier, out, wd=None, prop=PROP):
    t_all = time.time()
    wd = wd or core.workdir("KSERVER")
    os.makedirs(wd, exist_ok=True)
    open_ids = sorted(f["id"] for f in core.open_findings(prop) if f["id"].startswith("KS"))
    rng = random.Random(core.seed())
    heavy = tier != "quick"
    stats = {"b3": [], "controls": [], "graphs": []}

    def tlc(name, module, cfgtext, workers, timeout=3000, coverage=False, xmx="4g"):
        return core.run_tlc(module, cfgtext, os.path.join(wd, "tlc_" + name), workers=workers, timeout=timeout, coverage=coverage, xmx=xmx)

    with cf.ThreadPoolExecutor(max_workers=6 if heavy else 12) as ex:
        f_build = ex.submit(build_server_harness, wd)
        f_dump = [(d, ex.submit(tlc, d[0], "MC_ServerPlane", mc_cfg(constraints=(), actcons=("Settled", "AfterShutdown", "NoOverflow", "EdgeDump"),
                                                               invs=("InitDump",), view="View", findings=tuple(open_ids), **d[1]), 1, 3000, False, "8g"))
                  for d in dump_plan(tier)]
        f_ctl = [(c, ex.submit(tlc, "ctl_" + c[0], "MC_ServerPlane", mc_cfg(**c[1]), 1)) for c in control_plan()]
        f_b3 = [(b, ex.submit(tlc, "b3_" + b[0], "MC_ServerPlane", mc_cfg(invs=INVS, props=PROPS, **b[1]), 4 if heavy else 2, 3000, not heavy))
                for b in b3_plan(tier, open_ids)]
        if heavy:
            live = dict(uris=("ax", "c"), remotes=(1, 2), ops=("link", "command"), maxsend=2, findings=tuple(open_ids))
            f_live = ex.submit(tlc, "b3_live", "MC_ServerPlane", mc_cfg(spec="LiveSpec", props=["ShutdownCompletes"], **live), 4)
        else:
            f_live = None

        # ---- B1: replay the settled graphs on the real server task
        f_build.result()
        totals = collections.Counter()
        kf_hits = collections.Counter()
        not_m = []          # executions that are no behaviour of M: (id, case, result, info)
        sample_ok = []
        cid = 0
        for d, fu in f_dump:
            name, kw, walks, depth = d
            r = fu.result()
            if not r.ok:
                raise core.ToolError("graph dump %s failed: %s" % (name, r.status))
            t0 = time.time()
            G = SGraph(r.tagged["EDGE"], r.tagged["INIT"])
            r.tagged.clear()
            scripts = {}
            for p in G.paths(rng, walks, depth):
                g = groups_of(p)
                if g:
                    scripts.setdefault(core.canon(g), g)
            scripts = list(scripts.values())
            cases = []
            for g in scripts:
                cid += 1
                cases.append({"id": "%s.%d" % (name, cid), "cfg": harness_cfg(kw), "groups": concretise(g)})
            results = run_cases(cases, wd, name, jobs=8)
            covered = set()
            st = collections.Counter()
            for g, c, res in zip(scripts, cases, results):
                st["groups"] += len(g)
                if res.get("panic") is not None:
                    st["panic"] += 1
                    not_m.append((c["id"], c, res, {"graph": name, "status": "panic", "model_groups": g}))
                    continue
                og, oe = observed_groups(res)
                v = include(G, g, og, oe)
                st[v["status"]] += 1
                covered |= v["edges"]
                for k in v["kf"]:
                    kf_hits[k] += 1
                if v["status"] == "diverges":
                    not_m.append((c["id"], c, res, {"graph": name, "status": "diverges", "at": v["at"], "model_groups": g}))
                elif len(sample_ok) < 2 and len(g) >= 5:
                    sample_ok.append({"graph": name, "script": g, "observed_first_groups": og[:6]})
            env_edges = [e for e in range(G.n_edges) if G.edge_kind[e] in ENV_KINDS]
            info = {"graph": name, "states": len(G.ids), "edges": G.n_edges, "tlc_wall_s": round(r.wall, 1), "scripts": len(scripts),
                    "groups": st["groups"], "behaviours_of_M": st["behaviour"], "left_scope": st["bound"], "script_artefact": st["disabled"],
                    "not_behaviours_of_M": st["diverges"] + st["panic"], "edges_confirmed_by_real_runs": len(covered),
                    "env_edges": len(env_edges), "env_edges_confirmed": sum(1 for e in env_edges if e in covered),
                    "replay_wall_s": round(time.time() - t0, 1)}
            stats["graphs"].append(info)
            totals.update(st)
            core.log("[KSERVER] %-16s %d states %d edges (TLC %.0fs): %d scripts / %d groups -> behaviours of M %d, left scope %d, NOT of M %d; "
                     "edges confirmed %d/%d (env %d/%d) %.0fs" % (name, len(G.ids), G.n_edges, r.wall, len(scripts), st["groups"], st["behaviour"],
                                                                  st["bound"], st["diverges"] + st["panic"], len(covered), G.n_edges,
                                                                  info["env_edges_confirmed"], len(env_edges), time.time() - t0))
            del G

        # ---- B2: P decides what is not a behaviour of M, and the directed scenarios
        directed = directed_cases(core.seed())
        dres = run_cases(directed, wd, "directed", jobs=4)
        items = [(i, c, r) for (i, c, r, _) in not_m[:400]] + [("directed." + c["id"], c, r) for c, r in zip(directed, dres)]
        verdicts = p_validate(items, wd, "p", open_ids)
        info_of = {i: inf for (i, _, _, inf) in not_m}
        n_rej = n_drift = 0
        accepted_items = []
        for cid_, case, res in items:
            v = verdicts[str(cid_)]
            for k in v["kf"]:
                kf_hits[k] += 1
            if v["accepted"] and res.get("panic") is None:
                accepted_items.append((cid_, case, res))
                if cid_ in info_of:
                    n_drift += 1
                    if n_drift <= 3:
                        out.notes.append("MODEL-DRIFT ServerPlane: case %s is no behaviour of M from group %s on, P accepts it" % (cid_, info_of[cid_].get("at")))
                if "expect_meta_collision" in case and res.get("meta_collision") != case["expect_meta_collision"]:
                    n_rej += 1
                    out.violation("ServerPlane: PlaneModel::check_meta_collisions says %s for the routes %s (a route shaped like the node meta "
                                  "route must be reported, others must not)" % (res.get("meta_collision"), case["cfg"]["routes"]),
                                  {"component": "ServerPlane", "case": case, "observed": res, "info": None})
                want = case.get("expect_kf")
                if want and want in open_ids and want not in v["kf"]:
                    out.notes.append("directed scenario %s did not reproduce %s" % (cid_, want))
            else:
                n_rej += 1
                what = "ServerPlane: case %s: P rejects the execution of the real server task at event %s: %s%s" % (
                    cid_, v.get("at"), json.dumps(v.get("ev")), (" PANIC " + str(res.get("panic"))) if res.get("panic") else "")
                out.violation(what, {"component": "ServerPlane", "case": case, "observed": res, "info": info_of.get(cid_)})
        # P's own negative control
        # (bases: executions in which no instance stops before the falsified event could be excused by it)
        calm = lambda case: not any(a["k"] in ("timeout", "fail", "finish", "release", "send_at", "advance") for g in case["groups"] for a in g)
        tam = tampered([x for x in accepted_items if calm(x[1])][:12])
        if len(tam) < 10 and not n_rej:
            raise core.ToolError("too few executions to falsify (%d)" % len(tam))
        tv = p_validate(tam, wd, "tamper", open_ids)
        missed = [i for i, _, _ in tam if tv[str(i)]["accepted"]]
        if missed:
            raise core.ToolError("Trace_ServerPlane accepts falsified executions: %s" % missed[:10])
        for k, n in sorted(kf_hits.items()):
            if k in open_ids:
                out.known_finding("%s; reproduced on the real server task in %d executions" % (kf_text(k), n))
            else:
                raise core.ToolError("finding %s was used as an excuse although it is not open" % k)

        # ---- B3 results
        tot_states = tot_trans = 0
        cov = {}
        for b, fu in f_b3:
            r = fu.result()
            if not r.ok:
                raise core.ToolError("the mechanism model breaks P in run '%s' (%s %s):\n%s" % (b[0], r.status, r.violated, r.counterexample[:3000]))
            tot_states += r.distinct
            tot_trans += r.generated
            for a, (dd, tt) in r.coverage.items():
                o = cov.get(a, (0, 0))
                cov[a] = (o[0] + dd, o[1] + tt)
            stats["b3"].append({"run": b[0], "states": r.distinct, "transitions": r.generated, "depth": r.depth, "tlc_wall_s": round(r.wall, 1),
                                "scope": {k: v for k, v in b[1].items() if k != "findings"}})
            core.log("[KSERVER] B3 %-14s %d states, %d transitions, depth %d (TLC %.0fs)" % (b[0], r.distinct, r.generated, r.depth, r.wall))
        if f_live is not None:
            r = f_live.result()
            if not r.ok:
                raise core.ToolError("liveness ShutdownCompletes fails on the model: %s\n%s" % (r.status, r.counterexample[:2000]))
            stats["b3"].append({"run": "liveness ShutdownCompletes", "states": r.distinct, "transitions": r.generated, "tlc_wall_s": round(r.wall, 1)})
        for c, fu in f_ctl:
            r = fu.result()
            if r.ok or r.violated != c[2]:
                raise core.ToolError("negative control '%s' on the model found %s instead of a violation of %s" % (c[0], r.violated, c[2]))
            stats["controls"].append({"control": c[0], "breaks": r.violated, "states_to_counterexample": r.distinct})
    never = sorted(a for a, (dd, tt) in cov.items() if tt == 0)
    out.add(states=tot_states, transitions=tot_trans,
            traces_validated_against_impl=totals["behaviour"] + totals["bound"] + len(accepted_items))
    out.add(kserver={
        "b3_runs": stats["b3"], "negative_controls_on_model": stats["controls"], "graphs": stats["graphs"],
        "executions_behaviours_of_M": totals["behaviour"], "executions_left_modelled_scope": totals["bound"],
        "executions_not_of_M": len(not_m), "of_those_accepted_by_P": n_drift, "directed_scenarios": len(directed),
        "p_rejections": n_rej, "falsified_executions_rejected_by_P": len(tam),
        "known_findings_hit": dict(kf_hits), "actions_never_taken": never,
        "action_coverage": {a: {"distinct": dd, "taken": tt} for a, (dd, tt) in cov.items()},
        "wall_s": round(time.time() - t_all, 1)})
    for s_ in sample_ok:
        out.sample(s_)
    out.assumptions += [
        "ServerPlane: the network is in memory (tokio duplex streams behind the ExternalConnections / Websockets traits, no HTTP "
        "upgrade), one thread, paused clock; envelopes are written when the system is quiet or in bursts of up to MaxBurst",
        "ServerPlane: downlinks opened by agents (client connections, LocalClient / RemoteClientRequest events) and HTTP lanes are not exercised",
    ]
    core.log("[KSERVER] %d executions: behaviours of M %d, left scope %d, not of M %d (P accepts %d), directed %d, P rejections %d, findings %s, wall %.0fs" % (
        totals["behaviour"] + totals["bound"] + len(not_m), totals["behaviour"], totals["bound"], len(not_m), n_drift, len(directed), n_rej,
        dict(kf_hits), time.time() - t_all))


def replay(path, out):
    wd = core.workdir("KSERVER_replay")
    obj = json.load(open(path))["replay"]
    case = obj["case"]
    build_server_harness(wd)
    res = run_cases([case], wd, "replay", jobs=1)[0]
    open_ids = sorted(f["id"] for f in core.open_findings(PROP) if f["id"].startswith("KS"))
    for gi, g in enumerate(res.get("obs", [])):
        print("group %d" % gi)
        for e in g["ev"]:
            print("    " + json.dumps(e))
    print("end")
    for e in res.get("end", []):
        print("    " + json.dumps(e))
    if res.get("panic") is not None:
        print("PANIC", res["panic"])
    v = p_validate([("replay", case, res)], wd, "replay", open_ids)["replay"]
    bad = (not v["accepted"]) or res.get("panic") is not None
    print("P verdict: %s%s; known findings used: %s" % ("rejected" if bad else "accepted",
                                                         (" at event %s %s" % (v.get("at"), json.dumps(v.get("ev")))) if not v["accepted"] else "", v["kf"]))
    if bad:
        print("VIOLATION property=%s replay=%s" % (PROP, path))
        return 1
    return 0

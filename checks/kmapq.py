"""./check KMAPQ - the component-level (configuration K) part of C02 on its own: the coalescing
queues of map lanes (swimos_runtime MapOperationQueue, swimos_agent EventQueue + WriteQueues, their
composition) and the take / drop key order.  See checks/k_mapqueue.py (the C02 check calls run_k
from there).

Verdict lines carry the property id C02; the evidence of a stand-alone run goes to
evidence/KMAPQ.json so that it does not overwrite the evidence of the full C02 check."""
import os, shutil
from vlib import core
from checks import k_mapqueue

PROP = "C02"


def run(tier, out):
    wd = core.workdir("KMAPQ")
    out.prop = PROP                      # VIOLATION / KNOWN-FINDING lines and replays/ directory
    k_mapqueue.run_k(tier, out, wd)
    orig_finish = out.finish

    def finish():
        real = core.EVIDENCE
        tmp = os.path.join(wd, "evidence")
        core.EVIDENCE = tmp
        try:
            rc = orig_finish()
        finally:
            core.EVIDENCE = real
        os.makedirs(real, exist_ok=True)
        ev = os.path.join(tmp, "%s.json" % PROP)
        shutil.copy(ev, os.path.join(real, "KMAPQ.json"))
        return rc
    out.finish = finish


def replay(path, out):
    return k_mapqueue.replay(path, out)

"""C05 - persisted state is never older than what was published; restart restores it.

B2 (configuration E with a recording NodePersistence): TLC-generated environment scripts (AgentEnv.tla) over
persistent and transient value/map lanes and stores, with clean stops and kills (task abort) at arbitrary
points followed by a restart against the same store; the recorded log (store calls, frames received by remotes,
the state observed by on_start) is validated against Trace_Persistence.tla (P).
"""
import json, os
from vlib import core
from checks import e2e

CONSTS = {"PVals": set(e2e.P_VALS), "PMaps": set(e2e.P_MAPS), "TVals": set(e2e.T_VALS), "TMaps": set(e2e.T_MAPS), "Keys": {1, 2, 3}}


def profiles(tier):
    q = tier == "quick"
    return [
        dict(n=60 if q else 800, maxlen=22, nremotes=2, caps=(16, 64, 4096), vlanes=["val", "tval"], mlanes=["map", "tmap"], usecmd=True, keys=(1, 2, 3), faults=("restart", "kill"), burst=True),
        dict(n=50 if q else 800, maxlen=26, nremotes=2, caps=(24, 4096), vlanes=["val", "val2"], mlanes=["omap", "map"], usecmd=False, keys=(1, 2), faults=("restart", "kill", "drop"), burst=False),
        dict(n=40 if q else 600, maxlen=22, nremotes=2, caps=(24, 4096), vlanes=["val"], mlanes=["map"], usecmd=True, keys=(1, 2, 3), faults=("restart", "kill", "rich"), advances=(25, 60), burst=True),
    ]


def store_scripts(tier):
    """agent-side writes to the value / map stores and lanes, then a kill at every cut of the history"""
    hist = [
        [{"i": "set", "lane": "vstore", "v": 5}], [{"i": "upd", "lane": "mstore", "key": 1, "v": 6}],
        [{"i": "set", "lane": "val", "v": 7}, {"i": "upd", "lane": "mstore", "key": 2, "v": 8}],
        [{"i": "rem", "lane": "mstore", "key": 1}], [{"i": "set", "lane": "tval", "v": 9}, {"i": "upd", "lane": "tmap", "key": 1, "v": 10}],
        [{"i": "clr", "lane": "mstore"}, {"i": "upd", "lane": "map", "key": 3, "v": 11}], [{"i": "set", "lane": "vstore", "v": 12}],
    ]
    out = []
    for cut in range(len(hist) + 1):
        for how in ("kill", "stop"):
            acts = [{"k": "attach", "r": 1, "cap": 4096}, {"k": "send", "r": 1, "lane": "val", "op": "link"},
                    {"k": "send", "r": 1, "lane": "map", "op": "sync"}]
            for j, prog in enumerate(hist[:cut]):
                acts.append({"k": "send", "r": 1, "lane": "cmd", "op": "cmd", "m": "prog", "prog": prog, "tag": j})
            acts += [{"k": "read", "r": 1, "n": 0}]
            acts += ([{"k": "kill"}] if how == "kill" else [{"k": "quiesce"}]) + [{"k": "restart"}]
            acts += [{"k": "attach", "r": 1, "cap": 4096}, {"k": "send", "r": 1, "lane": "map", "op": "sync"}, {"k": "send", "r": 1, "lane": "val", "op": "sync"}]
            out.append(acts)
    return out


def burst_sync_scripts(tier):
    """changes and sync requests sent back to back, so that a lane answers a sync while it still has a change
    that has not gone out as a standard event (the sync event then carries state no standard event has carried)"""
    out = []
    v = [1]

    def nxt():
        v[0] += 1
        return v[0]
    for lane, kind in (("val", "v"), ("val2", "v"), ("map", "m"), ("omap", "m")):
        for nsets in (2, 3, 5):
            for readers in (1, 2):
                for how in ("kill", "quiesce"):
                    acts = [{"k": "attach", "r": 1, "cap": 4096}, {"k": "attach", "r": 2, "cap": 4096},
                            {"k": "send", "r": 1, "lane": lane, "op": "link"}]
                    for rep in range(3):
                        for j in range(nsets):
                            if kind == "v":
                                acts.append({"k": "send", "r": 1, "lane": lane, "op": "cmd", "m": "set", "v": nxt(), "nosettle": True})
                            else:
                                acts.append({"k": "send", "r": 1, "lane": lane, "op": "cmd", "m": "upd", "key": 1 + (j % 3), "v": nxt(), "nosettle": True})
                        for r in range(1, readers + 1):
                            acts.append({"k": "send", "r": 3 - r if readers == 1 else r, "lane": lane, "op": "sync", "nosettle": True})
                    acts.append({"k": "settle"})
                    acts += ([{"k": "kill"}] if how == "kill" else [{"k": "quiesce"}]) + [{"k": "restart"}]
                    out.append(acts)
    # one handler queues several map operations at once; a sync arrives while they are still being emitted
    for lane in ("map", "omap"):
        for nops in (2, 3):
            for pre in (0, 1):
                for how in ("kill", "quiesce"):
                    acts = [{"k": "attach", "r": 1, "cap": 4096}, {"k": "attach", "r": 2, "cap": 4096},
                            {"k": "send", "r": 1, "lane": lane, "op": "link"}]
                    if pre:
                        acts.append({"k": "send", "r": 1, "lane": "cmd", "op": "cmd", "m": "prog", "tag": nxt(),
                                     "prog": [{"i": "upd", "lane": lane, "key": kk, "v": nxt()} for kk in (1, 2, 3)]})
                    for rep in range(3):
                        acts.append({"k": "send", "r": 1, "lane": "cmd", "op": "cmd", "m": "prog", "tag": nxt(), "nosettle": True,
                                     "prog": [{"i": "upd", "lane": lane, "key": 1 + ((rep + j) % 3), "v": nxt()} for j in range(nops)]})
                        acts.append({"k": "send", "r": 2, "lane": lane, "op": "sync", "nosettle": True})
                    acts.append({"k": "settle"})
                    acts += ([{"k": "kill"}] if how == "kill" else [{"k": "quiesce"}]) + [{"k": "restart"}]
                    out.append(acts)
    return out


def stop_mid_cycle(tier):
    """the stop request reaches the runtime while a handler of the agent is running (instruction `trigstop` fires the
    stop trigger from inside the handler): the responses the lanes write at the end of that cycle and the stop are
    ready at the same instant.  Whatever the runtime does with those last responses, a remote must not be shown a
    state the store does not hold; the restart afterwards shows what was restored."""
    out = []
    v = [500]

    def nxt():
        v[0] += 1
        return v[0]

    def change(lane, j):
        if lane in ("val", "val2"):
            return {"i": "set", "lane": lane, "v": nxt()}
        return [{"i": "upd", "lane": lane, "key": 1 + j % 2, "v": nxt()}, {"i": "rem", "lane": lane, "key": 1},
                {"i": "clr", "lane": lane}][j % 3]
    for lane in ("val", "val2", "map", "omap"):
        for shape in ("c-stop", "stop-c", "c-stop-c", "c-c-stop"):
            for slow in (False, True):
                for j0 in (0, 1, 2) if lane in ("map", "omap") else (0,):
                    acts = [{"k": "attach", "r": 1, "cap": 4096}, {"k": "send", "r": 1, "lane": lane, "op": "link"}]
                    if slow:
                        acts += [{"k": "attach", "r": 2, "cap": 16}, {"k": "send", "r": 2, "lane": lane, "op": "sync"}]
                    acts.append({"k": "send", "r": 1, "lane": "cmd", "op": "cmd", "m": "prog", "tag": nxt(),
                                 "prog": [{"i": "upd", "lane": lane, "key": kk, "v": nxt()} for kk in (1, 2)] if lane in ("map", "omap")
                                 else [{"i": "set", "lane": lane, "v": nxt()}]})
                    prog, j = [], j0
                    for part in shape.split("-"):
                        if part == "stop":
                            prog.append({"i": "trigstop"})
                        else:
                            prog.append(change(lane, j))
                            j += 1
                    acts.append({"k": "send", "r": 1, "lane": "cmd", "op": "cmd", "m": "prog", "tag": nxt(), "prog": prog})
                    acts += [{"k": "restart"}, {"k": "attach", "r": 1, "cap": 4096}, {"k": "send", "r": 1, "lane": lane, "op": "sync"},
                             {"k": "read", "r": 1, "n": 0}]
                    out.append(acts)
    return out


def run(tier, out):
    wd = core.workdir("C05")
    core.build_harness("h_runtime", "e2e")
    tot_cases = tot_events = 0
    batches = []
    for pi, p in enumerate(profiles(tier)):
        scripts, r = e2e.gen_scripts(wd, seed=core.seed() + 50 * pi, tag="env%d" % pi, **p)
        out.add(states=r.generated, transitions=r.generated)
        batches.append(("profile %d" % pi, scripts))
    batches.append(("store histories x every cut", store_scripts(tier)))
    batches.append(("bursts of changes and syncs", burst_sync_scripts(tier)))
    batches.append(("stop in the middle of an agent cycle", stop_mid_cycle(tier) * 2))
    restarts = 0
    for bi, (name, scripts) in enumerate(batches):
        cases, results = e2e.run_scripts(wd, scripts, {"store": True, "eager_store_read": bi != 1}, tag="run%d" % bi)
        acc, rej, nev = e2e.validate_cases(out, "C05", "Trace_Persistence", cases, results, e2e.proj_persist, CONSTS, wd,
                                           "persistence (%s)" % name, tag="tv%d" % bi)
        restarts += sum(1 for r in results for e in r["log"] if e["e"] == "restart")
        core.log("[C05] %s: %d scripts, %d projected events, accepted=%d rejected=%d" % (name, len(cases), nev, acc, rej))
        tot_cases += acc
        tot_events += nev
        if bi == 0 and cases:
            out.sample({"script": cases[0]["acts"][:8], "projected": e2e.proj_persist(results[0]["log"])[:16]})
    out.add(traces_validated_against_impl=tot_cases, trace_events_validated=tot_events, restarts_checked=restarts,
            rule="scripts are behaviours of AgentEnv.tla (TLC simulation, seeded) plus a fixed history cut at every point; every recorded execution of the real agent+runtime+recording store is validated against Trace_Persistence.tla",
            checker_cmd="tlc -simulate AgentEnv; h_runtime/e2e (store=true); tlc Trace_Persistence (POSTCONDITION TraceAccepted)")
    out.assumptions += ["the recording store applies every call synchronously, so a kill of the agent task at any point leaves exactly the fold of the logged calls",
                        "RocksDB durability itself is C13's subject"]


def replay(path, out):
    obj = json.load(open(path))["replay"]
    if str(obj.get("component", "")).startswith("WriteTask"):
        from checks import k_writetask
        return k_writetask.replay(path, out)
    wd = core.workdir("C05_replay")
    case = obj["case"]
    cases, results = e2e.run_scripts(wd, [case["acts"]], case.get("cfg", {"store": True}), tag="replay", final=(), vary=False)
    ev = e2e.proj_persist(results[0]["log"])
    res = e2e.validate("Trace_Persistence", ev, os.path.join(wd, "tv"), CONSTS)
    print(json.dumps(res))
    if not res["accepted"]:
        print("rejected at", ev[res["matched"]] if res["matched"] < len(ev) else None)
        print("VIOLATION property=C05 replay=%s" % path)
        return 1
    return 0

"""C10 - binary frames decode to what was encoded under any fragmentation.

Specification: specs/Framing.tla (P = M: a resumable frame decoder driven like FramedRead; frames are
sequences of atoms = the commit points of the hand written decoder state machines), FramingCore.tla
(one call of decode), MC_Framing.tla, Gen_Framing.tla, Trace_Framing.tla.

B3  TLC model checks Framing.tla for the frame layouts of every codec pair: every message sequence,
    every fragmentation, tag and length corruption; invariants NoOverrun, ExactAtEmit, Prompt,
    EofClean, NoWrongMessage, NoSpuriousError, action property StepOK, liveness Terminates.
B1  TLC generates the cases: Gen_Framing enumerates every message sequence x every single cut and
    every pair of cuts, and every (field, boundary value) corruption; `tlc -simulate MC_Framing`
    gives random multi-splits down to one byte per read.  checks/c10.py instantiates them for all
    32 codec pairs (swimos_agent_protocol::encoding::*, swimos_messages::protocol,
    WithLengthBytesCodec, WithLenRecon*) from boundary pools; harness/h_core/src/bin/framing.rs
    runs the real Encoder, cuts the stream, and drives the real Decoder::decode / decode_eof.
B2  every recorded call (outcome, bytes consumed, decoded message == encoded message) is validated by
    TLC against Trace_Framing.tla: P decides (violation), M only notes drift.
"""
import collections, concurrent.futures, itertools, json, os, random, re, subprocess, time
from vlib import core

LEVEL = "model_checking"

# =============================================================================================
#                      the codec pairs: message pools and frame layouts
#
# For every codec pair of the harness this part gives
#   * the pool of concrete messages the abstract cases of the specification are instantiated with
#     (boundary pools: empty / one byte / tag look-alike / header look-alike / non UTF-8 bodies,
#     Recon bodies of every top level shape, ids and names at their boundaries), and
#   * the LAYOUT of the frame each message is encoded to, as read off the decoder state machines:
#     the atoms [n, streamed, need] of specs/Framing.tla (commit points of the decoder), the position
#     of the tag and of every length field (for the corruption cases), and the byte ranges in which a
#     read boundary triggers one of the known findings.
# Nothing here decides the property: verdicts come from TLC (Trace_Framing.tla); the layout only
# says which behaviours belong to the mechanism model M.
# =============================================================================================

ID1 = "0102030405060708090a0b0c0d0e0f10"
ID2 = "ffffffffffffffffffffffffffffffff"
ID3 = "00000000000000000000000000000003"


def hx(b):
    return (b.encode() if isinstance(b, str) else bytes(b)).hex()


# ---- boundary pools -------------------------------------------------------------------------
RAW = [b"", b"\x03", b"ab\x00", bytes([0, 0, 0, 0, 0, 0, 0, 9, 3, 1, 2]), b"\xff\xfe",
       bytes(range(40))]
# canonical compact Recon (checked at start-up against the real printer: print(parse(s)) == s)
TYP = ["", "7", "-1234", '"a b"', "name", "@tag{a:1,b:{2,3}}", '"ñ €\U0001F600"', "%YWJj", "1.5", "true",
       '@a(1)@b{"x y",z}', "{1,2}"]
NAMES = [("n", "l"), ("/node/ü", "lane"), ("", "")]
HOSTS = [None, "h", "ws://host:9001"]

RAWH = [hx(b) for b in RAW]
TYPH = [hx(s) for s in TYP]


# ---- messages -------------------------------------------------------------------------------

def map_msgs(B, ops_only, small):
    """map messages / operations over the body pool B (hex strings)"""
    out = []
    keys = B[1:3] if small else B[1:5]
    vals = [B[0], B[2]] if small else B[:6]
    for k in keys:
        for v in vals:
            out.append({"t": "update", "key": k, "value": v})
        out.append({"t": "remove", "key": k})
    out.append({"t": "clear"})
    if not ops_only:
        out += [{"t": "take", "n": 3}, {"t": "drop", "n": 2 ** 64 - 1}]
    return out


def lane_req(bodies):
    return [{"t": "command", "body": b} for b in bodies] + [{"t": "sync", "id": ID1}, {"t": "sync", "id": ID3},
                                                            {"t": "init_complete"}]


def lane_resp(bodies):
    return ([{"t": "event", "body": b} for b in bodies] +
            [{"t": "sync_event", "id": i, "body": b} for b, i in zip(bodies, [ID1, ID2, ID3] * len(bodies))] +
            [{"t": "initialized"}, {"t": "synced", "id": ID1}, {"t": "synced", "id": ID2}])


def store_init(bodies):
    return [{"t": "command", "body": b} for b in bodies] + [{"t": "init_complete"}]


def dl_not(bodies):
    return [{"t": "linked"}, {"t": "synced"}, {"t": "unlinked"}] + [{"t": "event", "body": b} for b in bodies]


def cmd(bodies):
    out = []
    for host, (node, lane) in zip(HOSTS, NAMES):
        out.append({"t": "register", "host": host, "node": node, "lane": lane, "reg": 7})
    for i, b in enumerate(bodies):
        node, lane = NAMES[i % len(NAMES)]
        out.append({"t": "addressed", "host": HOSTS[i % len(HOSTS)], "node": node, "lane": lane, "body": b,
                    "ow": i % 2 == 0})
    for i, b in enumerate(bodies):
        out.append({"t": "registered", "reg": (513, 0, 65535)[i % 3], "body": b, "ow": i % 2 == 1})
    return out


def req(bodies):
    out = []
    for i, t in enumerate(("link", "sync", "unlink")):
        node, lane = NAMES[i % len(NAMES)]
        out.append({"t": t, "origin": (ID1, ID2, ID3)[i], "node": node, "lane": lane})
    for i, b in enumerate(bodies):
        node, lane = NAMES[i % len(NAMES)]
        out.append({"t": "command", "origin": ID1, "node": node, "lane": lane, "body": b})
    return out


def resp(bodies, ubodies):
    out = []
    for i, t in enumerate(("linked", "synced")):
        node, lane = NAMES[i % len(NAMES)]
        out.append({"t": t, "origin": (ID1, ID2)[i], "node": node, "lane": lane})
    for i, b in enumerate([None] + ubodies):
        node, lane = NAMES[i % len(NAMES)]
        out.append({"t": "unlinked", "origin": ID3, "node": node, "lane": lane, "body": b})
    for i, b in enumerate(bodies):
        node, lane = NAMES[i % len(NAMES)]
        out.append({"t": "event", "origin": ID1, "node": node, "lane": lane, "body": b})
    return out


def pool(codec, small):
    R = RAWH[:4] if small else RAWH
    T = TYPH[:7] if small else TYPH
    table = {
        "with_len_bytes": lambda: [{"t": "bytes", "body": b} for b in R],
        "with_len_recon": lambda: [{"t": "bytes", "body": b} for b in T],
        "lane_req_raw_value": lambda: lane_req(R),
        "lane_req_value": lambda: lane_req(T),
        "lane_req_raw_map": lambda: lane_req(map_msgs(RAWH, False, small)),
        "lane_req_map": lambda: lane_req(map_msgs(TYPH, False, small)),
        "lane_resp_raw_value": lambda: lane_resp(R),
        "lane_resp_value": lambda: lane_resp(T),
        "lane_resp_raw_map": lambda: lane_resp(map_msgs(RAWH, True, small)),
        "lane_resp_map": lambda: lane_resp(map_msgs(TYPH, True, small)),
        "map_msg_raw": lambda: map_msgs(RAWH, False, small) + [{"t": "update", "key": RAWH[0], "value": RAWH[0]},
                                                               {"t": "remove", "key": RAWH[0]}],
        "map_msg": lambda: map_msgs(TYPH, False, small),
        "map_msg_raw_to_typed": lambda: map_msgs(TYPH, False, small),
        "map_op_raw": lambda: map_msgs(RAWH, True, small) + [{"t": "update", "key": RAWH[0], "value": RAWH[0]}],
        "map_op": lambda: map_msgs(TYPH, True, small),
        "map_op_typed_to_raw": lambda: map_msgs(TYPH, True, small),
        "store_init_raw_value": lambda: store_init(R),
        "store_init_value": lambda: store_init(T),
        "store_init_raw_map": lambda: store_init(map_msgs(RAWH, False, small)),
        "store_init_map": lambda: store_init(map_msgs(TYPH, False, small)),
        "store_initialized": lambda: [{"t": "initialized"}],
        "store_resp_value": lambda: [{"t": "event", "body": b} for b in T],
        "store_resp_map": lambda: [{"t": "event", "body": b} for b in map_msgs(TYPH, True, small)],
        "dl_not_value": lambda: dl_not(T),
        "dl_not_map": lambda: dl_not(map_msgs(TYPH, False, small)),
        "dl_op": lambda: [{"t": "op", "body": b} for b in T],
        "cmd_raw": lambda: cmd(R),
        "cmd": lambda: cmd(T),
        "req_raw": lambda: req(R),
        "req": lambda: req(T),
        "resp_raw": lambda: resp(R, RAWH[1:3]),
        "resp": lambda: resp(T, RAWH[1:3]),
    }
    return table[codec]()


CODECS = ["with_len_bytes", "with_len_recon",
          "lane_req_raw_value", "lane_req_value", "lane_req_raw_map", "lane_req_map",
          "lane_resp_raw_value", "lane_resp_value", "lane_resp_raw_map", "lane_resp_map",
          "map_msg_raw", "map_msg", "map_msg_raw_to_typed", "map_op_raw", "map_op", "map_op_typed_to_raw",
          "store_init_raw_value", "store_init_value", "store_init_raw_map", "store_init_map",
          "store_initialized", "store_resp_value", "store_resp_map",
          "dl_not_value", "dl_not_map", "dl_op",
          "cmd_raw", "cmd", "req_raw", "req", "resp_raw", "resp"]

# which inner decoder reads the body of a message, per codec
#   "wlb"  WithLengthBytesCodec (all or nothing)          "wlr"  WithLenRecognizerDecoder (streamed Recon)
#   "rmo"  RawMapOperationDecoder (all or nothing)         "tmo"  MapOperationDecoder<K,V> (streamed key, value)
#   "rmm"  MessageDecoder<RawMapOperationDecoder>          "tmm"  MessageDecoder<MapOperationDecoder<K,V>>
INNER = {
    "with_len_bytes": "wlb", "with_len_recon": "wlr",
    "lane_req_raw_value": "wlb", "lane_req_value": "wlr", "lane_req_raw_map": "rmm", "lane_req_map": "tmm",
    "lane_resp_raw_value": "wlb", "lane_resp_value": "wlr", "lane_resp_raw_map": "rmo", "lane_resp_map": "tmo",
    "map_msg_raw": "rmm", "map_msg": "tmm", "map_msg_raw_to_typed": "tmm",
    "map_op_raw": "rmo", "map_op": "tmo", "map_op_typed_to_raw": "rmo",
    "store_init_raw_value": "wlb", "store_init_value": "wlr", "store_init_raw_map": "rmm", "store_init_map": "tmm",
    "store_resp_value": "wlb", "store_resp_map": "rmo",
    "cmd_raw": "wlb", "cmd": "wlr",
}

TYPED_BODY = {"with_len_recon", "lane_req_value", "lane_req_map", "lane_resp_value", "lane_resp_map", "map_msg",
              "map_msg_raw_to_typed", "map_op", "store_init_value", "store_init_map", "dl_not_value", "dl_not_map",
              "cmd", "req"}


def blen(h):
    return len(h) // 2


class Layout:
    """atoms: [n, streamed, need]; fields: (role, offset, width, info); recon: byte ranges of Recon
    texts read by an incremental recognizer; kf: {finding id: [(lo, hi)]} half open ranges of read
    boundaries (offsets inside the frame) that trigger a known finding."""

    def __init__(self):
        self.atoms = []
        self.fields = []
        self.recon = []
        self.kf = {}
        self.n = 0

    def fixed(self, n, need=None):
        self.atoms.append([n, 0, n if need is None else need])
        self.n += n

    def stream(self, n, recon_hex=None):
        self.atoms.append([n, 1, 0])
        if recon_hex is not None:
            self.recon.append((self.n, recon_hex))
        self.n += n

    def field(self, role, off, width, info=None):
        self.fields.append((role, off, width, info))

    def trig(self, kf, lo, hi):
        if hi > lo:
            self.kf.setdefault(kf, []).append((lo, hi))


TAGS = {
    "lane_req": [0, 1, 4], "lane_resp": [3, 5, 1, 2], "store_init": [0, 4], "store_initialized": [5],
    "store_resp": [3], "dl_not": [1, 2, 3, 4], "map_op": [0, 1, 2], "map_msg": [0, 1, 2, 3, 4],
}


def inner_atoms(L, kind, body):
    """append the atoms of the body of a message read by inner decoder `kind`"""
    base = L.n
    if kind == "wlb":
        n = blen(body)
        L.field("len", base, 8, "body")
        L.fixed(8 + n)
    elif kind == "wlr":
        n = blen(body)
        L.field("len", base, 8, "body")
        L.fixed(8)
        L.stream(n, body)
    elif kind in ("rmo", "rmm", "tmo", "tmm"):
        typed = kind in ("tmo", "tmm")
        t = body["t"]
        L.field("len", base, 8, "record")
        L.field("tag", base + 8, 1, "map_msg" if kind in ("rmm", "tmm") else "map_op")
        if t in ("take", "drop"):
            L.fixed(17)
        elif t == "clear":
            L.fixed(9)
        elif t == "remove":
            k = blen(body["key"])
            if typed:
                L.fixed(9)
                L.stream(k, body["key"])
                if kind == "tmm":
                    L.trig("KF2", base + 9, base + 9 + k)
            else:
                L.fixed(9 + k)
        elif t == "update":
            k, v = blen(body["key"]), blen(body["value"])
            L.field("len", base + 9, 8, "key")
            if typed:
                L.fixed(17)
                L.stream(k, body["key"])
                L.stream(v, body["value"])
                if kind == "tmm":
                    L.trig("KF2", base + 17, base + 17 + k + v)
            else:
                L.fixed(17 + k + v)
        else:
            raise ValueError(t)
    else:
        raise ValueError(kind)


def layout(codec, m):
    L = Layout()
    t = m.get("t")
    inner = INNER.get(codec)
    if codec in ("with_len_bytes", "with_len_recon"):
        inner_atoms(L, inner, m["body"])
    elif codec.startswith("lane_req"):
        L.field("tag", 0, 1, "lane_req")
        if t == "command":
            L.fixed(1)
            inner_atoms(L, inner, m["body"])
        elif t == "sync":
            L.fixed(17)
        else:
            L.fixed(1)
    elif codec.startswith("lane_resp"):
        L.field("tag", 0, 1, "lane_resp")
        if t == "event":
            L.fixed(1)
            inner_atoms(L, inner, m["body"])
        elif t == "sync_event":
            L.fixed(17)
            inner_atoms(L, inner, m["body"])
        elif t == "synced":
            L.fixed(17)
        else:
            L.fixed(1)
    elif codec.startswith("map_"):
        inner_atoms(L, inner, m)
    elif codec.startswith("store_init_"):
        L.field("tag", 0, 1, "store_init")
        L.fixed(1)
        if t == "command":
            inner_atoms(L, inner, m["body"])
    elif codec == "store_initialized":
        L.field("tag", 0, 1, "store_initialized")
        L.fixed(1)
    elif codec.startswith("store_resp"):
        # StoreResponseDecoder: "if src.remaining() <= TAG_LEN { Ok(None) }": the tag is taken once two bytes are there
        L.field("tag", 0, 1, "store_resp")
        L.fixed(1, need=2)
        inner_atoms(L, inner, m["body"])
    elif codec.startswith("dl_not"):
        L.field("tag", 0, 1, "dl_not")
        if t == "event":
            if codec == "dl_not_value":
                n = blen(m["body"])
                L.field("len", 1, 8, "body")
                L.fixed(9)
                L.stream(n, m["body"])
            else:
                # the body is a map message in its binary encoding, fed to MapMessageDecoder through
                # consume_bounded: one streamed atom
                B = Layout()
                inner_atoms(B, "tmm", m["body"])
                L.field("len", 1, 8, "body")
                L.fixed(9)
                for (role, off, w, info) in B.fields:
                    L.field(role, 9 + off, w, info)
                for (off, h) in B.recon:
                    L.recon.append((9 + off, h))
                for k, rs in B.kf.items():
                    for (lo, hi) in rs:
                        L.trig(k, 9 + lo, 9 + hi)
                L.stream(B.n)
        else:
            L.fixed(1)
    elif codec == "dl_op":
        n = blen(m["body"])
        L.field("len", 0, 8, "body")
        L.fixed(8 + n)
    elif codec in ("cmd_raw", "cmd"):
        L.field("flags", 0, 1, "cmd")
        L.fixed(1)
        if t == "registered":
            L.fixed(2)
            inner_atoms(L, inner, m["body"])
        else:
            host, node, lane = m["host"], m["node"].encode(), m["lane"].encode()
            hl = 0 if host is None else len(host.encode())
            hdr = 16 + (8 if host is not None else 0)
            off = 1
            if host is not None:
                L.field("len", off, 8, "host")
                off += 8
            L.field("len", off, 8, "node")
            L.field("len", off + 8, 8, "lane")
            strings = hl + len(node) + len(lane)
            if t == "register":
                L.fixed(hdr + strings + 2)
                L.trig("KF3", 1, L.n)
            else:
                L.fixed(hdr + strings)
                inner_atoms(L, inner, m["body"])
    elif codec in ("req_raw", "req", "resp_raw", "resp"):
        node, lane = m["node"].encode(), m["lane"].encode()
        body = m.get("body")
        n = blen(body) if body else 0
        L.field("len", 16, 4, "node")
        L.field("len", 20, 4, "lane")
        L.field("tag3", 24, 1, "req" if codec.startswith("req") else "resp")
        L.field("len61", 24, 8, "body")
        hdr = 32 + len(node) + len(lane)
        if codec == "req":
            L.fixed(hdr)
            if t == "command":
                L.stream(n, body)
        else:
            L.fixed(hdr + n)
    else:
        raise ValueError(codec)
    # KF1: a read boundary strictly inside a top level primitive token of a Recon text that is read by
    # the incremental recognizer
    if codec in TYPED_BODY:
        for (off, h) in L.recon:
            for (lo, hi) in primitive_tokens(bytes.fromhex(h)):
                L.trig("KF1", off + lo + 1, off + hi)
    return L


_PRIM = re.compile(rb"^[^\s\"@{}(),;:]+$")


def primitive_tokens(text):
    """byte range (lo, hi) of a Recon text that is one bare top level primitive token (identifier,
    number, boolean, blob) - what IncrementalReconParser::parse_init reads with the complete:: parsers"""
    return [(0, len(text))] if text and _PRIM.match(text) else []


# =============================================================================================
#                                        the check
# =============================================================================================

INVS = ["TypeOK", "NoOverrun", "ExactAtEmit", "Prompt", "EofClean", "NoWrongMessage", "NoSpuriousError"]
HARNESS = ("h_core", "framing")

BUDGET = {
    # reps: representatives per codec used in sequences; b3_reps: ... in the model checked sequences
    "quick": dict(small=True, reps=4, max_frames=2, cuts_single=2, cuts_pair=1, cuts_longer=1, double_budget=6000, byte_budget=1500, sim=210,
                  sim_depth=400, b3_reps=1, b3_frames=2, live_seqs=40, chunk=120000, par=3, bad_frag=("whole", "bytes", "field")),
    "thorough": dict(small=False, reps=5, max_frames=3, cuts_single=2, cuts_pair=2, cuts_longer=1, double_budget=700000, byte_budget=10 ** 9, sim=600,
                     sim_depth=800, b3_reps=3, b3_frames=3, live_seqs=400, chunk=400000, par=4, bad_frag=("whole", "bytes", "field")),
}


# ---- data for TLC ---------------------------------------------------------------------------

def atom_of(L, off):
    s = 0
    for i, (n, st, need) in enumerate(L.atoms):
        if s <= off < s + n:
            return i, s
        s += n
    raise ValueError("offset %d outside the frame" % off)


# "tag" = a value outside the closed tag set must be rejected; "len" = any answer but an answer
ROLE_BAD = {"tag": "tag", "flags": "tag", "tag3": "tag", "len": "len", "len61": "len", "byte": "len"}


def corrupt_atoms(codec, L, role, off):
    """atoms of the frame with the field at `off` corrupted: the atom holding it becomes visible
    (to M) as soon as the field can be seen."""
    ai, s = atom_of(L, off)
    atoms = [list(a) for a in L.atoms]
    need = off - s + 1
    if role == "tag" and codec.startswith("store_resp") and off == 0:
        need = 2                      # "if src.remaining() <= TAG_LEN"
    if role == "tag3":
        need = atoms[ai][0]           # the routed message decoders look at the tag once the header (raw: the frame) is there
    if role == "tag" and off == 8:
        need = 9
    atoms[ai][2] = need
    return atoms, ai + 1


def field_values(role, info, stream, off, width):
    """boundary values (as replacement bytes) for a field of an encoded frame"""
    cur = stream[off:off + width]
    out = []
    if role == "tag":
        defined = set(TAGS[info])
        cands = [max(defined) + 1, 0x7f, 0xff] + ([0] if 0 not in defined else []) + ([max(defined) + 2] if info == "map_op" else [])
        for v in cands:
            if v not in defined and 0 <= v <= 255:
                out.append(("undefined tag %d" % v, bytes([v]), v))
    elif role == "flags":
        for v in (cur[0] | 0x10, cur[0] | 0x80, 0xf0 | cur[0]):
            out.append(("undefined flag bits 0x%02x" % v, bytes([v]), v))
    elif role == "tag3":
        for t in ((4, 5, 6, 7) if info == "req" else (0, 1, 2, 3)):
            out.append(("tag %d of the opposite direction" % t, bytes([(t << 5) | (cur[0] & 0x1f)]), t))
    elif role == "len":
        n = int.from_bytes(cur, "big")
        top = (1 << (8 * width))
        vals = [0, n - 1, n + 1, 0xffff, top >> 1, top - 1] + ([1 << 32, 1 << 56, top - 9] if width == 8 else [])
        for v in vals:
            if 0 <= v < top and v != n:
                out.append(("length %d -> %d" % (n, v), v.to_bytes(width, "big"), v))
    elif role == "byte":
        for x in (0x01, 0x80, 0xff):
            out.append(("byte 0x%02x -> 0x%02x" % (cur[0], cur[0] ^ x), bytes([cur[0] ^ x]), cur[0] ^ x))
    elif role == "len61":
        word = int.from_bytes(cur, "big")
        n, tag = word & ((1 << 61) - 1), word >> 61
        for v in (0, n - 1, n + 1, 0xffff, 1 << 32, 1 << 56, (1 << 61) - 1):
            if 0 <= v < (1 << 61) and v != n:
                out.append(("length %d -> %d" % (n, v), ((tag << 61) | v).to_bytes(8, "big"), v))
    return out


class Frame:
    """one message of a codec pool with its layout (index = position in GenFrames / gen list)"""

    def __init__(self, codec, idx, msg):
        self.codec, self.idx, self.msg = codec, idx, msg
        self.layout = layout(codec, msg)
        self.len = self.layout.n
        # byte-level mutation: every byte of the frame is a corruptible pseudo field
        self.layout.fields += [("byte", off, 1, None) for off in range(self.len)]
        self.rep = False
        self.bytes = None          # encoded bytes (from the real encoder), filled by the probe
        self.values = None         # per field: list of (what, replacement bytes)


def shape_sig(L):
    return tuple((s, n if n <= 1 else 2) for n, s, need in L.atoms)


def build_frames(b):
    frames = []
    for codec in CODECS:
        msgs = pool(codec, b["small"])
        fs = [Frame(codec, i, m) for i, m in enumerate(msgs)]
        # representatives: one per distinct atom shape, shortest first, at most `reps`
        seen, order = set(), sorted(fs, key=lambda f: (f.len, f.idx))
        reps = []
        for f in order:
            sig = shape_sig(f.layout)
            if sig not in seen:
                seen.add(sig)
                reps.append(f)
        # prefer variety: frames with streamed atoms and with a known-finding trigger first
        reps.sort(key=lambda f: (0 if f.layout.kf else 1, -sum(a[1] for a in f.layout.atoms), f.len))
        for f in reps[:b["reps"]]:
            f.rep = True
        frames += fs
    return frames


def tla_atoms(atoms):
    return "<< " + ", ".join("[n |-> %d, s |-> %s, need |-> %d]" % (n, "TRUE" if s else "FALSE", need)
                             for n, s, need in atoms) + " >>"


def write_data(path, layouts, gen_frames, seqs=()):
    with open(path, "w") as fh:
        fh.write("---------------------------- MODULE FramingData ----------------------------\n"
                 "\\* generated by checks/c10.py from its layout table\nEXTENDS Naturals, Sequences\n\nDataLayouts == <<\n")
        fh.write(",\n".join('  [id |-> "%s", codec |-> "%s", rep |-> %s, bad |-> "%s", at |-> %d,\n   atoms |-> %s]' % (
            l["id"], l["codec"], "TRUE" if l["rep"] else "FALSE", l["bad"], l["at"], tla_atoms(l["atoms"])) for l in layouts))
        fh.write("\n>>\n\nDataSeqs == {%s}\n\nGenFrames == <<\n" % ", ".join("<<%s>>" % ", ".join(str(i) for i in q) for q in seqs))
        fh.write(",\n".join('  [codec |-> "%s", len |-> %d, rep |-> %s, fields |-> << %s >>]' % (
            f.codec, f.len, "TRUE" if f.rep else "FALSE",
            ", ".join('[role |-> "%s", vals |-> %d]' % (fl[0], len(v)) for fl, v in zip(f.layout.fields, f.values or [])))
            for f in gen_frames))
        fh.write("\n>>\n=============================================================================\n")


def mc_layouts(frames, n_reps, max_frames):
    """what TLC model checks: the distinct layouts (exact atoms) of all codec pairs - one message per
    distinct atom shape of every codec - each alone, every sequence of 2..max_frames of the first
    n_reps representatives of a codec (sequences that are layout-for-layout identical to one already
    listed are skipped: M only depends on the atoms), and for every codec one tag- and one
    length-corrupted frame, alone and behind a well formed one.  -> (layouts, sequences)"""
    lays, index, seqs, seen_seq = [], {}, [], set()

    def add(codec, f, bad, at, atoms, tag):
        key = (bad, at, tuple(tuple(a) for a in atoms))
        if key not in index:
            lays.append(dict(id="%s/%d%s" % (codec, f.idx, tag), codec=codec, rep=True, bad=bad, at=at, atoms=atoms))
            index[key] = len(lays)
        return index[key]

    def add_seq(q):
        if tuple(q) not in seen_seq:
            seen_seq.add(tuple(q))
            seqs.append(list(q))

    by_codec = collections.OrderedDict()
    for f in frames:
        by_codec.setdefault(f.codec, []).append(f)
    for codec, fs in by_codec.items():
        shapes = {}
        for f in sorted(fs, key=lambda f: (f.len, f.idx)):
            shapes.setdefault(shape_sig(f.layout), f)
        chosen = sorted(shapes.values(), key=lambda f: (0 if f.rep else 1, f.len))
        ids = [add(codec, f, "ok", 0, f.layout.atoms, "") for f in chosen]
        for i in ids:
            add_seq([i])
        reps = ids[:n_reps]
        for n in range(2, max_frames + 1):
            for q in itertools.product(reps, repeat=n):
                add_seq(q)
        done = set()
        for f in chosen:
            for (role, off, w, info) in f.layout.fields:
                kind = ROLE_BAD[role]
                if kind in done:
                    continue
                done.add(kind)
                atoms, at = corrupt_atoms(codec, f.layout, role, off)
                i = add(codec, f, kind, at, atoms, "#%s@%d" % (kind, off))
                add_seq([i])
                add_seq([reps[0], i])
    return lays, seqs


# ---- harness --------------------------------------------------------------------------------

def run_harness_cases(cases, wd, tag, survive_abort=False):
    """-> list of results (same order).  With survive_abort a case that kills the harness process
    (allocation failure on a corrupted length) is answered {"abort": <how it died>}."""
    core.build_harness(*HARNESS)
    results = []
    todo = list(cases)
    part = 0
    while todo:
        inp = os.path.join(wd, "%s.%d.in.ndjson" % (tag, part))
        outp = os.path.join(wd, "%s.%d.out.ndjson" % (tag, part))
        core.write_ndjson(inp, todo)
        e = dict(os.environ)
        e.setdefault("RUST_BACKTRACE", "0")
        core.coverage_env(e, HARNESS[1])
        with open(inp) as fin, open(outp, "w") as fout:
            try:
                p = subprocess.run([core.harness_bin(HARNESS[1])], stdin=fin, stdout=fout, stderr=subprocess.PIPE,
                                   text=True, timeout=3600, env=e)
            except subprocess.TimeoutExpired:
                raise core.ToolError("harness framing timed out")
        got = []
        with open(outp) as fh:
            for line in fh:
                line = line.strip()
                if not line:
                    continue
                try:
                    got.append(json.loads(line))
                except ValueError:
                    break              # a torn last line of a killed process
        if p.returncode == 0:
            if len(got) != len(todo):
                raise core.ToolError("harness framing answered %d of %d cases" % (len(got), len(todo)))
            results += got
            break
        if not survive_abort or len(got) >= len(todo):
            raise core.ToolError("harness framing exited %s:\n%s" % (p.returncode, p.stderr[-3000:]))
        results += got
        how = "signal %d" % -p.returncode if p.returncode < 0 else "exit %d" % p.returncode
        err = p.stderr.strip().splitlines()
        results.append({"id": todo[len(got)].get("id"), "abort": "%s: %s" % (how, err[-1][:200] if err else "")})
        todo = todo[len(got) + 1:]
        part += 1
    for c, r in zip(cases, results):
        if r.get("id") != c.get("id"):
            raise core.ToolError("harness framing answered out of order")
        if "panic" in r:
            raise core.ToolError("harness framing failed outside the code under test on case %s: %s" % (c.get("id"), r["panic"]))
    return results


def canon_check(wd):
    res = run_harness_cases([{"id": "canon", "canon": TYPH}], wd, "canon")[0]["canon"]
    for want, got, text in zip(TYPH, res, TYP):
        if want != got:
            raise core.ToolError("pool entry %r is not canonical compact Recon (printer gives %r)" % (
                text, bytes.fromhex(got).decode("utf8", "replace") if got else None))


# ---- cases ----------------------------------------------------------------------------------

class Case:
    """one stream (message sequence of one codec, possibly with one corrupted field) and the
    fragmentations (runs) it is delivered in"""

    def __init__(self, cid, frames, runs, mut=None, bad=None):
        self.id, self.frames, self.runs, self.mut, self.bad = cid, frames, runs, mut, bad
        # bad = (frame position (1-based), kind, atom index, atoms of the corrupted frame, what)

    def harness(self):
        c = {"id": self.id, "codec": self.frames[0].codec, "msgs": [f.msg for f in self.frames], "runs": self.runs}
        if self.mut:
            c["mut"] = self.mut
        return c

    def reset_event(self, rid, ends):
        atoms = [f.layout.atoms for f in self.frames]
        bad, bk, at = 0, "ok", 0
        if self.bad:
            bad, bk, at, batoms, _ = self.bad
            atoms = list(atoms)
            atoms[bad - 1] = batoms
        return {"k": "reset", "id": rid, "ends": ends, "atoms": atoms, "bad": bad, "bk": bk, "at": at}

    def triggers(self, pieces):
        """known-finding triggers of a fragmentation: which read boundaries fall into a range where
        a listed finding applies"""
        out = set()
        bounds, s = [], 0
        for p in pieces[:-1]:
            s += p
            bounds.append(s)
        start = 0
        for f in self.frames:
            for kf, rs in f.layout.kf.items():
                for (lo, hi) in rs:
                    if any(start + lo <= b < start + hi for b in bounds):
                        out.add(kf)
            start += f.len
        return out


def pieces_of(cuts, L):
    out, prev = [], 0
    for c in sorted(cuts):
        out.append(c - prev)
        prev = c
    out.append(L - prev)
    return out


def to_events(case, ci, res):
    """trace events (ndjson lines) of all runs of a case; run ids "ci.ri" """
    ev = []
    if "abort" in res:
        ends = [sum(f.len for f in case.frames[:k + 1]) for k in range(len(case.frames))]
        head = json.dumps(case.reset_event("@", ends), separators=(",", ":"))
        for ri, pieces in enumerate(case.runs):
            ev.append(head.replace('"@"', '"%d.%d"' % (ci, ri), 1))
            ev.append('{"k":"r","n":%d}' % sum(pieces))
            ev.append('{"k":"d","r":"abort","c":0,"m":0}')
        return ev
    head = json.dumps(case.reset_event("@", res["ends"]), separators=(",", ":"))
    for ri, run in enumerate(res["runs"]):
        ev.append(head.replace('"@"', '"%d.%d"' % (ci, ri), 1))
        for e in run["ev"]:
            if e[0] == "r":
                ev.append('{"k":"r","n":%d}' % e[1])
            else:
                ev.append('{"k":"%s","r":"%s","c":%d,"m":%d}' % (e[0], e[1], e[2], e[3]))
    return ev


def validate(lines, wd, name):
    """one TLC run of Trace_Framing over a list of ndjson lines -> (result record, rejects, drifts)"""
    d = os.path.join(wd, name)
    os.makedirs(d, exist_ok=True)
    tp = os.path.join(d, "trace.ndjson")
    with open(tp, "w") as fh:
        fh.write("\n".join(lines))
        fh.write("\n")
    cfg = core.cfg(spec="TraceSpec", postcondition="TraceAccepted")
    r = core.run_tlc("Trace_Framing", cfg, d, workers=1, timeout=3000, depth_first=True, env={"TRACE": tp}, xmx="3g",
                     coverage=False)
    res = r.tagged.get("TRACE_RESULT")
    if not res:
        raise core.ToolError("Trace_Framing printed no TRACE_RESULT (%s)\n%s" % (name, r.stdout[-2000:]))
    res = res[-1]
    rejects, drifts = r.tagged.get("REJECT", []), r.tagged.get("DRIFT", [])
    if res.get("matched") != res.get("total") or res.get("total") != len(lines):
        raise core.ToolError("Trace_Framing stopped at event %s of %s (%s)" % (res.get("matched"), len(lines), name))
    if res.get("rejected") != len(rejects):
        raise core.ToolError("Trace_Framing: %s rejections counted, %d reported" % (res.get("rejected"), len(rejects)))
    return res, rejects, drifts


def validate_all(cases, results, wd, b, label):
    """record -> TLC.  Returns (runs, events, rejects {run id: why}, drift {run id})"""
    chunks, cur, n_ev = [], [], 0
    for ci, (c, r) in enumerate(zip(cases, results)):
        ev = to_events(c, ci, r)
        if cur and len(cur) + len(ev) > b["chunk"]:
            chunks.append(cur)
            cur = []
        cur += ev
        n_ev += len(ev)
    if cur:
        chunks.append(cur)
    rej, dr, runs = {}, set(), 0

    def work(i):
        out = validate(chunks[i], wd, "tv_%s_%d" % (label, i))
        chunks[i] = None
        return out
    with concurrent.futures.ThreadPoolExecutor(max_workers=b["par"]) as ex:
        for (r, rejects, drifts) in ex.map(work, range(len(chunks))):
            runs += r["runs"]
            for x in rejects:
                rej[x["id"]] = x["why"]
            for x in drifts:
                dr.add(x["id"])
    return runs, n_ev, rej, dr


# ---- known findings ---------------------------------------------------------------------------

def classify_bad(case):
    """the listed finding a rejected corruption case belongs to (or None)"""
    pos, kind, at, atoms, what = case.bad
    codec = case.frames[0].codec
    role = case.bad_role
    if role == "tag3" and codec in ("req_raw", "resp_raw", "resp"):
        return "KF4"
    if role == "flags":
        return "KF5"
    if role in ("len", "len61"):
        return "KF6"
    return None


def run(tier, out):
    b = BUDGET[tier]
    rng = random.Random(core.seed())
    wd = core.workdir("C10")
    core.build_harness(*HARNESS)
    canon_check(wd)
    frames = build_frames(b)
    by_idx = {i + 1: f for i, f in enumerate(frames)}          # TLC indices are 1-based

    # ---- probe: the real encoders give the bytes of every pool message (frame length = layout length?)
    probe = [{"id": i, "codec": f.codec, "msgs": [f.msg], "runs": [], "dump": True} for i, f in enumerate(frames)]
    pres = run_harness_cases(probe, wd, "probe")
    layout_drift = 0
    for f, r in zip(frames, pres):
        f.bytes = bytes.fromhex(r["stream"])
        if len(f.bytes) != f.len:
            layout_drift += 1
            out.notes.append("MODEL-DRIFT layout of %s %s: table says %d bytes, encoder wrote %d" % (
                f.codec, json.dumps(f.msg), f.len, len(f.bytes)))
            raise core.ToolError("layout table out of date for %s %s" % (f.codec, json.dumps(f.msg)))
        f.values = [field_values(role, info, f.bytes, off, w) for (role, off, w, info) in f.layout.fields]

    # ---- B3: TLC model checks Framing.tla over the layouts of all codec pairs
    tot = b3(out, wd, frames, b)

    # ---- generation: TLC enumerates the cases
    gen_dir = os.path.join(wd, "data_gen")
    os.makedirs(gen_dir, exist_ok=True)
    sim_layouts = [dict(id="%s/%d" % (f.codec, f.idx), codec=f.codec, rep=f.rep, bad="ok", at=0, atoms=f.layout.atoms)
                   for f in frames]
    write_data(os.path.join(gen_dir, "FramingData.tla"), sim_layouts, frames)
    cfg = core.cfg(constants={"MaxFrames": b["max_frames"], "CutsSingle": b["cuts_single"], "CutsPair": b["cuts_pair"],
                              "CutsLonger": b["cuts_longer"]},
                   invariants=["Dump"])
    g = core.run_tlc("Gen_Framing", cfg, os.path.join(wd, "gen"), workers=1, coverage=False,
                     spec_dirs=(core.SPECS, gen_dir), timeout=1500, xmx="6g")
    if not g.ok:
        raise core.ToolError("Gen_Framing failed: %s" % g.status)
    gen_cases = g.tagged["CASE"]
    cut_cases = [c for c in gen_cases if c["kind"] == "cut"]
    bad_cases = [c for c in gen_cases if c["kind"] == "bad"]
    core.log("[C10] Gen_Framing: %d sequences with their cut sets, %d corruption cases (%.1fs)" % (
        len(cut_cases), len(bad_cases), g.wall))

    # behaviours of the specification itself: random fragmentations down to one byte per read
    cfg = core.cfg(constants={"MaxFrames": b["max_frames"], "PieceBounds": {1, 2, 3, 5, 8, 16}, "RecordHist": True},
                   invariants=["SimDump"])
    cfg += "CONSTANT Layouts <- DataLayouts\nCONSTANT GivenSeqs <- DataSeqs\n"
    s = core.run_tlc("MC_Framing", cfg, os.path.join(wd, "sim"), workers=3, coverage=False,
                     simulate="num=%d" % (b["sim"] // 3), extra=["-depth", str(b["sim_depth"]), "-seed", str(core.seed())],
                     spec_dirs=(core.SPECS, gen_dir), timeout=1500)
    sims = s.tagged["SIM"]
    core.log("[C10] MC_Framing -simulate: %d behaviours (%.1fs)" % (len(sims), s.wall))

    # ---- instantiate
    cases = []
    n_double_all = n_double_used = 0
    for c in cut_cases:
        fs = [by_idx[i] for i in c["seq"]]
        L = sum(f.len for f in fs)
        single = [x for x in c["cuts"] if len(x) <= 1]
        double = [x for x in c["cuts"] if len(x) == 2]
        n_double_all += len(double)
        runs = [pieces_of(x, L) for x in single]
        runs.append([1] * L)                                # one byte per read
        cases.append((fs, runs, double))
    # double cuts: all of them if the budget allows, otherwise a seeded sample spread over the cases
    if n_double_all > b["double_budget"]:
        frac = b["double_budget"] / float(n_double_all)
        for (fs, runs, double) in cases:
            k = int(len(double) * frac + rng.random())
            pick = rng.sample(double, min(k, len(double)))
            L = sum(f.len for f in fs)
            runs += [pieces_of(x, L) for x in pick]
            n_double_used += len(pick)
    else:
        for (fs, runs, double) in cases:
            L = sum(f.len for f in fs)
            runs += [pieces_of(x, L) for x in double]
            n_double_used += len(double)
    clean = [Case("c%d" % i, fs, runs) for i, (fs, runs, _) in enumerate(cases)]
    by_seq = collections.defaultdict(list)
    for x in sims:
        by_seq[tuple(x["seq"])].append(x["pieces"])
    for seq, runs in by_seq.items():
        # the simulation indexes DataLayouts = the same list of frames
        clean.append(Case("s%d" % len(clean), [by_idx[i] for i in seq], runs))

    corrupt = []
    # byte-level mutations: all of them if the budget allows, otherwise a seeded sample
    is_byte = [by_idx[c["frame"]].layout.fields[c["field"] - 1][0] == "byte" for c in bad_cases]
    n_byte_all = sum(is_byte)
    if n_byte_all > b["byte_budget"]:
        keep = set(rng.sample([i for i, x in enumerate(is_byte) if x], b["byte_budget"]))
        bad_cases = [c for i, c in enumerate(bad_cases) if not is_byte[i] or i in keep]
    n_byte_used = min(n_byte_all, b["byte_budget"])
    for c in bad_cases:
        f = by_idx[c["frame"]]
        prefix = [by_idx[i] for i in c["prefix"]]
        role, off, w, info = f.layout.fields[c["field"] - 1]
        what, repl, value = f.values[c["field"] - 1][c["val"] - 1]
        base = sum(p.len for p in prefix)
        L = base + f.len
        atoms, at = corrupt_atoms(f.codec, f.layout, role, off)
        frag = {"whole": [L], "bytes": [1] * L, "field": pieces_of([base + off + w], L) if base + off + w < L else [L]}
        for name in b["bad_frag"]:
            k = Case("b%d" % len(corrupt), prefix + [f], [frag[name]],
                     mut=[{"at": base + off, "set": repl.hex()}],
                     bad=(len(prefix) + 1, ROLE_BAD[role], at, atoms, "%s (%s at offset %d of frame %d)" % (what, role, off, len(prefix) + 1)))
            k.bad_role, k.bad_value, k.bad_width, k.bad_off = role, value, w, off
            corrupt.append(k)

    # ---- replay on the real decoders
    t0 = time.time()
    res_clean = run_harness_cases([c.harness() for c in clean], wd, "clean")
    res_bad = run_harness_cases([c.harness() for c in corrupt], wd, "bad", survive_abort=True)
    n_runs = sum(len(c.runs) for c in clean) + sum(len(c.runs) for c in corrupt)
    core.log("[C10] replayed %d streams / %d fragmentations on the real codecs (%d corrupted) in %.1fs" % (
        len(clean) + len(corrupt), n_runs, len(corrupt), time.time() - t0))

    # ---- TLC validates every recorded execution against P and M
    t0 = time.time()
    all_cases, all_res = clean + corrupt, res_clean + res_bad
    runs, n_ev, rej, drift = validate_all(all_cases, all_res, wd, b, "all")
    core.log("[C10] Trace_Framing validated %d executions / %d events in %.1fs: rejected=%d, not a behaviour of M=%d" % (
        runs, n_ev, time.time() - t0, len(rej), len(drift)))

    judge(out, all_cases, all_res, rej, drift)
    accepted = runs - len(rej)
    out.add(states=tot["states"], transitions=tot["transitions"], traces_validated_against_impl=accepted,
            executions_replayed=runs, decoder_calls_and_reads_validated=n_ev, rejected_by_P=len(rej),
            model_drift=len([d for d in drift if d not in rej]) + layout_drift,
            codec_pairs=len(CODECS), pool_messages=len(frames),
            streams=len(all_cases), corrupted_streams=len(corrupt),
            double_cut_fragmentations_enumerated=n_double_all, double_cut_fragmentations_replayed=n_double_used,
            simulated_behaviours=len(sims), byte_mutations_enumerated=n_byte_all, byte_mutations_replayed=n_byte_used,
            exhaustive=(n_double_used == n_double_all and n_byte_used == n_byte_all),
            rule="TLC (Gen_Framing) enumerates every message sequence of every codec pair (every pool message; every "
                 "sequence of up to %d representatives) with every single cut point and every pair of cut points, and "
                 "every (field, boundary value) corruption; TLC -simulate (MC_Framing) adds random multi-splits down to one "
                 "byte per read; each is replayed on the real tokio_util Encoder/Decoder pair and the recorded calls are "
                 "validated by TLC (Trace_Framing) against P and M" % b["max_frames"],
            checker_cmd="tlc MC_Framing (INVARIANTS %s, PROPERTY StepOK Terminates) + tlc Gen_Framing + tlc -simulate MC_Framing "
                        "+ h_core framing + tlc Trace_Framing" % " ".join(INVS))
    out.assumptions += [
        "the decoder is driven as tokio_util::codec::FramedRead drives it (decode until None after every read, decode_eof at the end)",
        "message equality is equality of the full decoded message (every field, body bytes / canonical Recon text)",
        "Unlinked(None) and Unlinked(Some(empty)) are one message (same encoding by design)",
        "bodies, ids and names are drawn from boundary pools, not from the whole input space",
    ]


def b3(out, wd, frames, b):
    lays, seqs = mc_layouts(frames, b["b3_reps"], b["b3_frames"])
    d = os.path.join(wd, "data_mc")
    os.makedirs(d, exist_ok=True)
    write_data(os.path.join(d, "FramingData.tla"), lays, [], seqs)
    cfg = core.cfg(constants={"MaxFrames": b["b3_frames"], "PieceBounds": {1000}, "RecordHist": False},
                   invariants=INVS, properties=["StepOK"], view="View")
    cfg += "CONSTANT Layouts <- DataLayouts\nCONSTANT GivenSeqs <- DataSeqs\n"
    r = core.run_tlc("MC_Framing", cfg, os.path.join(wd, "mc"), workers=4, spec_dirs=(core.SPECS, d), timeout=2400)
    if not r.ok:
        raise core.ToolError("Framing.tla violates its own invariants (%s %s):\n%s" % (r.status, r.violated, r.counterexample[:3000]))
    cov = {a: {"distinct": x, "taken": y} for a, (x, y) in r.coverage.items()}
    never = [a for a, (x, y) in r.coverage.items() if y == 0]
    core.log("[C10] MC_Framing: %d layouts, %d sequences, %d states (%d generated), depth %d, %.1fs; actions never taken: %s" % (
        len(lays), len(seqs), r.distinct, r.generated, r.depth, r.wall, never or "none"))
    # liveness (every fragmentation is decoded to the end) without the VIEW on a reduced data set
    live = [q for q in seqs if sum(sum(a[0] for a in lays[i - 1]["atoms"]) for i in q) <= 24][:b["live_seqs"]]
    d2 = os.path.join(wd, "data_live")
    os.makedirs(d2, exist_ok=True)
    write_data(os.path.join(d2, "FramingData.tla"), lays, [], live)
    cfg = core.cfg(spec="LiveSpec", constants={"MaxFrames": 2, "PieceBounds": {1000}, "RecordHist": False},
                   properties=["Terminates"])
    cfg += "CONSTANT Layouts <- DataLayouts\nCONSTANT GivenSeqs <- DataSeqs\n"
    lv = core.run_tlc("MC_Framing", cfg, os.path.join(wd, "live"), workers=2, spec_dirs=(core.SPECS, d2), timeout=1200,
                      coverage=False)
    if not lv.ok:
        raise core.ToolError("Framing.tla: Terminates fails (%s):\n%s" % (lv.status, lv.counterexample[:3000]))
    core.log("[C10] MC_Framing liveness (Terminates): %d states, %.1fs" % (lv.distinct, lv.wall))
    out.add(action_coverage=cov, actions_never_taken=never, model_checked_layouts=len(lays), model_checked_sequences=len(seqs),
            liveness_states=lv.distinct, liveness_sequences=len(live), tlc_depth=r.depth, states_generated=r.generated)
    return {"states": r.distinct, "transitions": r.generated - r.coverage.get("Init", (0, 0))[1]}


FRAG_KF = ("KF1", "KF2", "KF3")
DID_NOT_RETURN = "the call did not return"
WRONG_TAG = ("a message was produced for a frame whose tag is not one of the codec",
             "a frame whose tag is not one of the codec was silently dropped")


RESERVING = ("dl_op", "req_raw", "resp_raw", "resp")     # decoders that reserve(len) before the body is there


def finding_of_corruption(case, why):
    """the listed finding (id) a rejected corruption run matches by its specific signature"""
    role, codec, v, width = case.bad_role, case.frames[0].codec, case.bad_value, case.bad_width
    if role == "byte":
        # a flipped byte inside a length field is a corrupted length: take the value the field now has
        f = case.frames[case.bad[0] - 1]
        off = case.bad_off
        for (r2, o2, w2, info) in f.layout.fields:
            if r2 in ("len", "len61") and o2 <= off < o2 + w2:
                cur = bytearray(f.bytes[o2:o2 + w2])
                cur[off - o2] = v
                word = int.from_bytes(cur, "big")
                role, width, v = r2, w2, (word & ((1 << 61) - 1)) if r2 == "len61" else word
                break
    if role == "tag3" and codec in ("req_raw", "resp_raw", "resp") and why in WRONG_TAG:
        return "KF4"
    if role == "flags" and codec in ("cmd_raw", "cmd") and why in WRONG_TAG:
        return "KF5"
    if role in ("len", "len61") and why.startswith(DID_NOT_RETURN):
        if codec in RESERVING and (1 << 32) <= v < (1 << 64) - 8:
            return "KF7"
        if role == "len" and width == 8 and v >= (1 << 64) - 32:
            return "KF6"
    return None


def replay_obj(case, ri, res):
    o = {"component": "framing", "codec": case.frames[0].codec, "msgs": [f.msg for f in case.frames],
         "pieces": case.runs[ri], "mut": case.mut}
    if case.bad:
        pos, kind, at, atoms, what = case.bad
        o["bad"] = {"frame": pos, "kind": kind, "at": at, "atoms": atoms, "what": what, "role": case.bad_role,
                    "value": case.bad_value, "width": case.bad_width, "off": case.bad_off}
    if "abort" in res:
        o["observed"] = {"abort": res["abort"]}
    else:
        o["observed"] = res["runs"][ri]
    return o


def open_findings():
    """the open findings of known_findings/C10.json.  C10_KNOWN_FINDINGS=<file> substitutes another
    findings file (used to try the check against a patched tree before the committed file is updated)"""
    alt = os.environ.get("C10_KNOWN_FINDINGS")
    if alt:
        return [f for f in json.load(open(alt))["findings"] if "C10" in f["property"].split(",") and f["status"] == "open"]
    return core.open_findings("C10")


def judge(out, cases, results, rej, drift):
    open_ids = {f["id"] for f in open_findings()}
    texts = {f["id"]: f["what"] for f in open_findings()}
    rows = []
    for rid, why in rej.items():
        ci, ri = (int(x) for x in rid.split("."))
        case = cases[ci]
        trig = set(case.triggers(case.runs[ri]))
        if case.bad:
            k = finding_of_corruption(case, why)
            if k:
                trig.add(k)
        rows.append((ci, ri, why, trig & open_ids))
    with open(os.path.join(core.WORK, "C10", "rejections.ndjson"), "w") as fh:
        for (ci, ri, why, trig) in rows:
            c = cases[ci]
            fh.write(json.dumps({"codec": c.frames[0].codec, "msgs": [f.msg for f in c.frames], "pieces": c.runs[ri], "why": why,
                                 "kf": sorted(trig), "bad": c.bad[4] if c.bad else None,
                                 "obs": results[ci]["runs"][ri]["ev"] if "runs" in results[ci] else results[ci]}) + "\n")
    with open(os.path.join(core.WORK, "C10", "drift.ndjson"), "w") as fh:
        for rid in drift:
            if rid in rej:
                continue
            ci, ri = (int(x) for x in rid.split("."))
            c = cases[ci]
            fh.write(json.dumps({"codec": c.frames[0].codec, "msgs": [f.msg for f in c.frames], "pieces": c.runs[ri],
                                 "bad": c.bad[4] if c.bad else None, "atoms": [f.layout.atoms for f in c.frames],
                                 "obs": results[ci]["runs"][ri]["ev"] if "runs" in results[ci] else results[ci]}) + "\n")
    # a listed finding counts as observed only through a run that nothing else can explain
    observed = {}
    for (ci, ri, why, trig) in rows:
        if len(trig) == 1:
            k = next(iter(trig))
            observed.setdefault(k, []).append((ci, ri, why))
    n_known = 0
    reported = set()
    for (ci, ri, why, trig) in sorted(rows):
        case = cases[ci]
        if trig & set(observed):
            n_known += 1
            continue
        codec = case.frames[0].codec
        key = (codec, why, tuple(f.msg["t"] for f in case.frames), case.bad[4] if case.bad else None)
        if key in reported or len(reported) >= 60:
            continue
        reported.add(key)
        what = "%s: %s | messages %s pieces %s%s" % (
            codec, why, json.dumps([f.msg for f in case.frames])[:300], json.dumps(case.runs[ri])[:120],
            (" | corruption: " + case.bad[4]) if case.bad else "")
        out.violation(what, replay_obj(case, ri, results[ci]))
    for k, lst in sorted(observed.items()):
        codecs = sorted({cases[ci].frames[0].codec for (ci, ri, why) in lst})
        reasons = collections.Counter(why for (_, _, why) in lst).most_common(3)
        ci, ri, why = lst[0]
        out.known_finding("%s %s [reproduced by %d executions on %s; e.g. %s messages=%s pieces=%s%s -> %s]" % (
            k, texts.get(k, ""), len(lst), ",".join(codecs), cases[ci].frames[0].codec,
            json.dumps([f.msg for f in cases[ci].frames])[:200], json.dumps(cases[ci].runs[ri])[:80],
            (" corruption=" + cases[ci].bad[4]) if cases[ci].bad else "", why))
    out.add(known_finding_executions=n_known,
            rejections_by_reason=dict(collections.Counter(w for w in rej.values()).most_common(12)))
    # model drift that is not a rejection: the layout table (M) is out of step with the code
    pure = [d for d in drift if d not in rej]
    for rid in pure[:3]:
        ci, ri = (int(x) for x in rid.split("."))
        out.notes.append("MODEL-DRIFT %s: messages %s pieces %s: accepted by P but not a behaviour of the layout table: %s" % (
            cases[ci].frames[0].codec, json.dumps([f.msg for f in cases[ci].frames])[:200], cases[ci].runs[ri],
            json.dumps(results[ci].get("runs", [{}])[ri] if "runs" in results[ci] else results[ci])[:300]))
    # samples: what a case looks like
    for ci in (0, len(cases) // 3, len(cases) - 1):
        c = cases[ci]
        r = results[ci]
        out.sample({"codec": c.frames[0].codec, "messages": [f.msg for f in c.frames], "corruption": c.bad[4] if c.bad else None,
                    "pieces": c.runs[0], "calls": (r["runs"][0]["ev"] if "runs" in r else r)})


def replay(path, out):
    wd = core.workdir("C10_replay")
    obj = json.load(open(path))["replay"]
    codec = obj["codec"]
    frames = [Frame(codec, i, m) for i, m in enumerate(obj["msgs"])]
    probe = run_harness_cases([{"id": i, "codec": codec, "msgs": [f.msg], "runs": [], "dump": True} for i, f in enumerate(frames)],
                              wd, "probe")
    for f, r in zip(frames, probe):
        f.bytes = bytes.fromhex(r["stream"])
    case = Case("r0", frames, [obj["pieces"]], mut=obj.get("mut"))
    if obj.get("bad"):
        bd = obj["bad"]
        case.bad = (bd["frame"], bd["kind"], bd["at"], bd["atoms"], bd["what"])
        case.bad_role, case.bad_value, case.bad_width, case.bad_off = bd["role"], bd["value"], bd["width"], bd["off"]
    res = run_harness_cases([case.harness()], wd, "replay", survive_abort=True)[0]
    print("observed:", json.dumps(res)[:3000])
    r, rejects, drifts = validate(to_events(case, 0, res), wd, "tv")
    print("TLC Trace_Framing:", json.dumps(r), "rejects:", json.dumps(rejects), "drift:", json.dumps(drifts))
    if rejects:
        why = rejects[0]["why"]
        trig = set(case.triggers(case.runs[0]))
        if case.bad:
            k = finding_of_corruption(case, why)
            if k:
                trig.add(k)
        known = trig & {f["id"] for f in open_findings()}
        if known:
            print("KNOWN-FINDING: property=C10 %s (%s)" % (",".join(sorted(known)), why))
            return 0
        print("VIOLATION property=C10 replay=%s" % path)
        print("   " + why)
        return 1
    print("OK property=C10 replay accepted by P")
    return 0

"""C09 - Recon text is a faithful and stable encoding, however it is chunked.

Level: exploration (model-generated).  TLA+/TLC generate every case and evaluate every law:

 Gen_Recon       the structural-writer protocol (record / write_attr / complete_header / write_value /
                 write_slot / done / write_<primitive>) as a state machine: TLC enumerates every abstract
                 model value of small scope, the typed cases and the deep chains; `-simulate` adds large ones
 Gen_ReconChunk  the parser's ParseState-stack machine (one action per token class): TLC enumerates the
                 accepted token sequences, the rejected ones, ill-formed splices and the mutation operators
 MC_ReconChunk   the incremental consumer (WithLenRecognizerDecoder + consume_bounded + streaming inner
                 decoder that retains its tail): TLC proves the chunk-independence invariants of the model
                 and enumerates every way of cutting a frame = the cut plans
 harness recon   concretises abstract symbols from boundary pools and records, for the real printers,
                 parser and decoders, ids of inputs/outputs per case (nothing is judged there)
 MC_Recon        the laws (Recon.tla section 4) evaluated by TLC over the recorded observation table

A row that breaks a law is a VIOLATION unless its input has the shape named by an open entry of
known_findings/C09.json (then KNOWN-FINDING).
"""
import collections, json, os, random, re, sys, time
from vlib import core

sys.setrecursionlimit(20000)      # rows may carry deeply nested values (depth-64 chains)

LEVEL = "exploration"
PROP = "C09"
R = core.Raw

# shapes named by known_findings/C09.json, in attribution order: a failing value that has several of them is
# attributed to the first only (the one that already breaks the text at the outermost level), so that a
# finding stops being reported as soon as the values that have *only* its shape pass
KF_FEATURES = ("solo_extant_item",)   # features of OPEN findings only (odd_attr KF3, attrs_only_key KF5, attr_body_solo_slot KF6, solo_rec_item KF4: repaired)


def first_feature(feats):
    for f in KF_FEATURES:
        if f in feats:
            return f
    return None
SURROGATE_ESC = re.compile(r"\\u+[dD][89a-fA-F][0-9a-fA-F]{2}")
_COV = re.compile(r"^<(\w+) line \d+, col \d+ to line \d+, col \d+ of module (\w+)(?: \([\d ]+\))?>: (\d+):(\d+)")


def tla_set(xs):
    return R("{" + ", ".join(json.dumps(x) if isinstance(x, str) else str(x) for x in xs) + "}")


def coverage(r):
    cov = {}
    for line in r.stdout.splitlines():
        m = _COV.match(line)
        if m:
            cov[m.group(1)] = (int(m.group(3)), int(m.group(4)))
    return cov


class Stats:
    def __init__(self):
        self.states = 0
        self.transitions = 0
        self.cov = {}
        self.tlc_wall = 0.0
        self.runs = []

    def add(self, name, r, count=True):
        cov = coverage(r)
        if name == "MC_Recon":
            self.law_states = getattr(self, "law_states", 0) + r.distinct
            count = False
        if count:
            self.states += r.distinct
            self.transitions += r.generated
        self.tlc_wall += r.wall
        self.runs.append({"module": name, "status": r.status, "states": r.distinct, "generated": r.generated,
                          "depth": r.depth, "wall_s": round(r.wall, 1)})
        for a, (d, t) in cov.items():
            if a in ("Init", "LawInit"):
                continue
            o = self.cov.get(name + "." + a, (0, 0))
            self.cov[name + "." + a] = (o[0] + d, o[1] + t)


# ----------------------------------------------------------------------------- generation (TLC)

def _gen_run(tag, k, wd, st, invs, **kw):
    c = core.cfg(spec="Spec", constants=k, invariants=invs)
    r = core.run_tlc("Gen_Recon", c, os.path.join(wd, tag), workers=1, timeout=2400, xmx="8g", **kw)
    if not r.ok:
        raise core.ToolError("Gen_Recon(%s): %s %s\n%s" % (tag, r.status, r.violated, r.counterexample[:2000]))
    return r


def gen_values(tier, wd, st):
    """-> [(abstract value, number of pool rotations)], typed cases, number of simulated documents"""
    quick = tier == "quick"
    salts = 4 if quick else 6
    invs = ["TypeOK", "Completable", "EmitValue"]
    # attribute names that are not identifiers hit a known finding on the unchanged tree (and would hide anything
    # else in the same value): they get their own, smaller, enumeration
    k = dict(LeafClasses=tla_set(["X", "N", "S"]), NameClasses=tla_set(["n"]),
             MaxNodes=5, MaxDepth=3, MaxAttrs=2, MaxItems=3, MinNodes=1, TypedArity=4 if quick else 5, TypedSyms=3)
    r = _gen_run("gen_values", k, wd, st, invs + ["EmitStatic"])
    st.add("Gen_Recon", r)
    typed = r.tagged["TYPED"]
    kq = dict(k, NameClasses=tla_set(["n", "q"]), MaxNodes=4, TypedArity=0)
    rq = _gen_run("gen_values_q", kq, wd, st, invs)
    st.add("Gen_Recon", rq)
    out, seen = [], set()

    def take(vs, n, stride=1):
        j = 0
        for v in vs:
            key = core.canon(v)
            if key in seen:
                continue
            seen.add(key)
            j += 1
            if j % stride == 0:
                out.append((v, n))

    take(r.tagged["VALUE"], salts)
    take(rq.tagged["VALUE"], 2)
    # all leaf classes separately at a smaller node bound
    k2 = dict(k, LeafClasses=tla_set(["X", "B", "I", "O", "F", "T", "Q", "D"] + ([] if quick else ["Z"])),
              MaxNodes=3 if quick else 4, TypedArity=0)
    r2 = _gen_run("gen_values_fine", k2, wd, st, invs)
    st.add("Gen_Recon", r2)
    take(r2.tagged["VALUE"], salts)
    if not quick:
        # one more node, one more level: one rotation each
        k4 = dict(k, MaxNodes=6, MaxDepth=4, TypedArity=0)
        r4 = _gen_run("gen_values_6", k4, wd, st, invs)
        st.add("Gen_Recon", r4)
        take(r4.tagged["VALUE"], 1)
    # seeded simulation: large / deep documents (every finished document of every walk)
    k3 = dict(k, LeafClasses=tla_set(["X", "B", "I", "O", "F", "T", "Q", "D"]), MaxNodes=40 if quick else 120,
              MaxDepth=8 if quick else 24, MaxAttrs=3, MaxItems=5, MinNodes=12 if quick else 30, TypedArity=0)
    r3 = _gen_run("gen_values_sim", k3, wd, st, ["TypeOK", "EmitValue"], simulate="num=%d" % (300 if quick else 4000),
                  extra=["-depth", "400", "-seed", str(core.seed())], coverage=False)
    st.add("Gen_Recon(simulate)", r3, count=False)
    n0 = len(out)
    take(r3.tagged["VALUE"], 2)
    return out, typed, len(out) - n0


def gen_texts(tier, wd, st):
    quick = tier == "quick"
    res = {}
    for name, k in (("accepted", dict(MaxToks=6 if quick else 7, MaxStack=8, BadFragments=R("{}"), Rejects=False, EmitOpen=False)),
                    ("rejected", dict(MaxToks=4 if quick else 5, MaxStack=8,
                                      BadFragments=tla_set(["badesc", "openstr", "badblob", "badnum", "junk", "at", "comment"]),
                                      Rejects=True, EmitOpen=True))):
        c = core.cfg(spec="Spec", constants=k, invariants=["TypeOK", "AfterItemTotal", "StackShape", "EmitToks", "EmitStatic"])
        r = core.run_tlc("Gen_ReconChunk", c, os.path.join(wd, "gen_texts_" + name), workers=1, timeout=1500, xmx="6g")
        if not r.ok:
            raise core.ToolError("Gen_ReconChunk(%s): %s %s\n%s" % (name, r.status, r.violated, r.counterexample[:2000]))
        st.add("Gen_ReconChunk", r)
        res[name] = r.tagged["TOKS"]
        res["mut"] = r.tagged["MUT"]
    # long accepted documents by seeded simulation (accepted steps only)
    k = dict(MaxToks=60 if quick else 200, MaxStack=30 if quick else 70, BadFragments=R("{}"), Rejects=False, EmitOpen=False)
    c = core.cfg(spec="Spec", constants=k, invariants=["TypeOK", "AfterItemTotal", "EmitToks"])
    r = core.run_tlc("Gen_ReconChunk", c, os.path.join(wd, "gen_texts_sim"), workers=1, timeout=900,
                     simulate="num=%d" % (400 if quick else 5000), extra=["-depth", "220", "-seed", str(core.seed())],
                     coverage=False)
    st.add("Gen_ReconChunk(simulate)", r, count=False)
    seen = set()
    sim = []
    for t in r.tagged["TOKS"]:
        key = tuple(t["toks"])
        if key not in seen and len(key) > (6 if quick else 7):
            seen.add(key)
            sim.append(t)
    res["simulated"] = sim
    return res


CHUNK_INVS = ["TypeOK", "WithinFrame", "SameAsOneShot", "FrameAligned", "NotBeforeValue", "Delivers", "EmitPlan"]


def chunk_model(wd, st, out):
    """B3 on the consumer model + the exhaustive small plans."""
    small = list(range(0, 9))
    k = dict(Lens=tla_set(small), Blanks=tla_set([0, 2]), Kinds=tla_set(["closed", "open"]), Tok=3, MaxCuts=8,
             HdrCuts=tla_set([3, 8]), Trail=9, Modes=tla_set(["free", "bytewise"]), EagerInit=False)
    c = core.cfg(spec="Spec", constants=k, invariants=CHUNK_INVS)
    r = core.run_tlc("MC_ReconChunk", c, os.path.join(wd, "chunk_small"), workers=1, timeout=900)
    if not r.ok:
        raise core.ToolError("ReconChunk (streaming Init) violates its invariants: %s %s\n%s" % (r.status, r.violated, r.counterexample[:3000]))
    st.add("ReconChunk", r)
    plans = collections.defaultdict(set)
    for p in r.tagged["PLAN"]:
        plans[p["l"]].add((p["hdr"], tuple(p["cuts"])))
    # the same model with the unchanged tree's eager Init: TLC's counterexample is the prediction that is
    # then looked for on the real decoder (it never alarms by itself)
    k2 = dict(k, Lens=tla_set([1, 2, 3, 4]), MaxCuts=2, EagerInit=True, Modes=tla_set(["free"]))
    c2 = core.cfg(spec="Spec", constants=k2, invariants=CHUNK_INVS[:-1])
    r2 = core.run_tlc("MC_ReconChunk", c2, os.path.join(wd, "chunk_eager"), workers=1, timeout=900, coverage=False)
    out.add(model_with_eager_init={"status": r2.status, "violated": r2.violated,
                                   "meaning": "ReconChunk with EagerInit=TRUE (state Init accepts a prefix of a bare primitive) "
                                              "breaks this invariant in TLC; the real decoder is checked for it by the chunk law"})
    return plans


def chunk_plans(wd, st, lens, tier, plans):
    """single cuts + one-byte-at-a-time for every text length present, seeded multi-cuts by simulation."""
    lens = sorted(l for l in lens if l > 8)
    if not lens:
        return plans
    base = dict(Blanks=tla_set([0]), Kinds=tla_set(["closed"]), Tok=3, MaxCuts=1, HdrCuts=R("{}"), Trail=9, EagerInit=False)
    for tag, ls, modes in (("chunk_single", [l for l in lens if l <= 400], ["free", "bytewise"]),
                           ("chunk_single_long", [l for l in lens if l > 400], ["free"])):
        if not ls:
            continue
        k = dict(base, Lens=tla_set(ls), Modes=tla_set(modes))
        c = core.cfg(spec="Spec", constants=k, invariants=CHUNK_INVS)
        r = core.run_tlc("MC_ReconChunk", c, os.path.join(wd, tag), workers=1, timeout=1500, xmx="6g", coverage=False)
        if not r.ok:
            raise core.ToolError("ReconChunk(%s): %s %s" % (tag, r.status, r.violated))
        st.add("ReconChunk", r)
        for p in r.tagged["PLAN"]:
            plans[p["l"]].add((p["hdr"], tuple(p["cuts"])))
    k2 = dict(base, Lens=tla_set(lens), MaxCuts=6, HdrCuts=tla_set([1, 7]), Modes=tla_set(["free"]), Kinds=tla_set(["closed", "open"]))
    c2 = core.cfg(spec="Spec", constants=k2, invariants=CHUNK_INVS)
    n = min(20000, len(lens) * (12 if tier == "quick" else 60))
    r2 = core.run_tlc("MC_ReconChunk", c2, os.path.join(wd, "chunk_multi"), workers=1, timeout=900,
                      simulate="num=%d" % n, extra=["-depth", "40", "-seed", str(core.seed())], coverage=False)
    st.add("ReconChunk(simulate)", r2, count=False)
    for p in r2.tagged["PLAN"]:
        plans[p["l"]].add((p["hdr"], tuple(p["cuts"])))
    return plans


# ----------------------------------------------------------------------------- harness

def run_cases(cases, wd, tag):
    inp = os.path.join(wd, tag + ".in.ndjson")
    outp = os.path.join(wd, tag + ".out.ndjson")
    core.write_ndjson(inp, cases)
    core.run_harness("h_core", ["recon"], stdin_path=inp, stdout_path=outp, timeout=3000)
    rows = []
    with open(outp, encoding="utf-8", newline="\n") as fh:
        for line in fh:
            line = line.rstrip("\n")
            if line.strip():
                rows.append(json.loads(line))
    if len(rows) != len(cases):
        raise core.ToolError("harness recon answered %d of %d cases (%s)" % (len(rows), len(cases), tag))
    for r in rows:
        if str(r.get("panic", "")).startswith("HARNESS:"):
            raise core.ToolError("harness recon could not interpret a case: %s" % r["panic"])
    return rows


def chunk_spec(plans, n, max_plans, rng, doc):
    ps = sorted(plans.get(n, ()))
    if len(ps) > max_plans:
        # keep every single cut near the ends and a seeded sample of the rest
        ps = rng.sample(ps, max_plans)
    multi = [list(c) for (h, c) in ps if h == 0]
    hdrs = [[h] + list(c) for (h, c) in ps if h != 0]
    return {"multi": multi, "hdr_multi": hdrs, "doc": doc}


def lean(row):
    """what the laws need (MC_Recon), nothing else"""
    o = {"id": row["id"]}
    if "panic" in row:
        o["panic"] = True
        return o
    if "hang" in row:
        o["hang"] = True
        return o
    for k in ("k", "vid", "produced", "nonfinite", "skip", "one"):
        if k in row:
            o[k] = row[k]
    if "pr" in row:
        o["pr"] = []
        for p in row["pr"]:
            q = {"back": p["back"]}
            if "nf" in p:
                q["nf"] = p["nf"]
            if "again" in p:
                q["again"] = [{"back": a["back"]} for a in p["again"]]
            elif row["k"] != "typed":
                q["again"] = []
            o["pr"].append(q)
    if "chunk" in row:
        o["chunk"] = []
        for c in row["chunk"]:
            q = {k: c[k] for k in ("one", "rd0", "wl0", "wl0_left", "rd", "wl", "wl_left_bad", "binary") if k in c}
            if "doc" in c:
                q["doc"], q["doc0"] = c["doc"], c["doc0"]
            if "sample" in c:
                q["sample"] = {"calls": c["sample"]["calls"]}
            o["chunk"].append(q)
    return o


LAW_BATCH = 120000


def evaluate_laws(rows, wd, st, tag="laws"):
    """TLC (MC_Recon) over the observation table, in batches that fit its heap."""
    total = {"rows": 0, "broken": [], "exercised": None, "laws": None}
    for b in range(0, max(1, len(rows)), LAW_BATCH):
        part = rows[b:b + LAW_BATCH]
        d = os.path.join(wd, "%s%d" % (tag, b // LAW_BATCH))
        os.makedirs(d, exist_ok=True)
        table = os.path.join(d, "table.ndjson")
        core.write_ndjson(table, [lean(r) for r in part])
        c = core.cfg(spec="LawSpec", postcondition="LawsEvaluated")
        r = core.run_tlc("MC_Recon", c, d, workers=1, timeout=3000, env={"TABLE": table}, xmx="8g", depth_first=True)
        if not r.ok or not r.tagged.get("LAW_RESULT"):
            raise core.ToolError("MC_Recon did not evaluate the table: %s\n%s" % (r.status, r.stdout[-2000:]))
        st.add("MC_Recon", r)
        res = r.tagged["LAW_RESULT"][-1]
        if res["rows"] != len(part):
            raise core.ToolError("MC_Recon evaluated %s of %s rows" % (res["rows"], len(part)))
        total["rows"] += res["rows"]
        total["broken"] += res["broken"]
        total["laws"] = res["laws"]
        total["exercised"] = res["exercised"] if total["exercised"] is None else [x + y for x, y in zip(total["exercised"], res["exercised"])]
        os.remove(table)
    return total


# ----------------------------------------------------------------------------- triage

def signatures_of(row, law, case):
    """For a row that breaks `law`: the set of known-finding signatures that explain it, or None if some
    part of the failure has no explanation (=> VIOLATION)."""
    sigs = set()
    if law == "Total":
        msg = row.get("panic", "")
        text = (row.get("input") or {}).get("text", "")
        if "CharTryFromError" in msg and SURROGATE_ESC.search(text):
            return {"law=Total;feature=surrogate_escape"}
        return None
    if law in ("ChunkIndependent", "CallsLaw"):
        if law == "CallsLaw":
            return None
        for c in row["chunk"]:
            if c.get("binary"):
                continue
            dec_bad = (c["rd0"] != c["one"] or c["wl0"] != c["one"] or c["wl0_left"] != 9 or c["wl_left_bad"] != 0
                       or any(x != c["one"] for x in c["rd"]) or any(x != c["one"] for x in c["wl"]))
            doc_bad = "doc" in c and any(x != c["doc0"] for x in c["doc"])
            if doc_bad:
                return None
            if dec_bad:
                # only cut-dependent disagreement on a frame that starts with a bare primitive is the known one
                if c.get("bare") and c["rd0"] == c["one"] and c["wl0"] == c["one"] and c["wl0_left"] == 9 and c["wl_left_bad"] == 0:
                    sigs.add("law=ChunkIndependent;feature=bare_toplevel_primitive")
                else:
                    return None
        return sigs or None
    if law == "RoundTrip":
        f = first_feature(row.get("feat", []))
        return {"law=RoundTrip;feature=%s" % f} if f else None
    if law == "FixedPoint":
        for p in row["pr"]:
            if p["back"] == "err":
                f = first_feature(row.get("feat", []))
                if not f:
                    return None
                sigs.add("law=RoundTrip;feature=%s" % f)
            elif not p.get("nf") and any(a["back"] != p["back"] for a in p.get("again", [])):
                f = first_feature(p.get("feat", []))
                if not f:
                    return None
                sigs.add("law=RoundTrip;feature=%s" % f)
        return sigs or None
    return None


def describe(row, law):
    if law == "Total":
        return "%s on input %s" % ("panic: " + row["panic"] if "panic" in row else "hang (case budget exceeded)",
                                   json.dumps(row.get("input"))[:300])
    if law == "ChunkIndependent":
        for c in row["chunk"]:
            for k in ("rd_bad", "wl_bad", "doc_bad"):
                if k in c:
                    return "%s: text %s one-shot=%s but %s" % (k, json.dumps(c.get("text", row.get("text", "")))[:200], c["one"], json.dumps(c[k])[:300])
        return "unchunked incremental run differs from one-shot: %s" % json.dumps(row["chunk"])[:300]
    if law in ("RoundTrip", "FixedPoint"):
        for p in row.get("pr", []):
            if p["back"] != row.get("vid") and law == "RoundTrip":
                src = row.get("canon", row.get("dbg", row.get("vid")))
                if row.get("k") == "text":
                    src = "parse(%s) = %s" % (json.dumps(row.get("text", (row.get("input") or {}).get("text")))[:120], src)
                return "%s printer: %s -> %s parses to %s%s" % (p["p"], src, json.dumps(p.get("text"))[:200],
                                                                p.get("norm", p.get("got", p["back"])), (" (" + p["err"] + ")") if "err" in p else "")
            if law == "FixedPoint":
                if p["back"] == "err":
                    return "%s printer: %s -> %s does not parse (%s)" % (p["p"], row.get("canon"), json.dumps(p.get("text"))[:200], p.get("err"))
                for a in p.get("again", []):
                    if a["back"] != p["back"]:
                        return "parser-produced value %s printed by %s as %s parses to something else" % (p.get("norm"), a["p"], json.dumps(a.get("text"))[:200])
    return law


def triage(out, rows, cases, law_result):
    """broken (row, law) pairs -> KNOWN-FINDING / VIOLATION"""
    by_id = {r["id"]: r for r in rows}
    case_by_id = {c["id"]: c for c in cases}
    open_sigs = {}
    for f in core.open_findings(PROP):
        open_sigs[f["signature"]] = f
    hit = collections.Counter()
    n_viol = 0
    for b in law_result["broken"]:
        row = by_id[b["id"]]
        case = case_by_id.get(b["id"])
        for law in sorted(b["laws"]):
            if law == "FixedPoint" and "RoundTrip" in b["laws"] and all(p["back"] != "err" for p in row.get("pr", [])) and \
                    all(a["back"] == p["back"] for p in row.get("pr", []) for a in p.get("again", [])):
                continue
            sigs = signatures_of(row, law, case)
            if sigs and all(s in open_sigs for s in sigs):
                for s in sigs:
                    hit[s] += 1
                    f = open_sigs[s]
                    out.known_finding("%s %s [%s]" % (f["id"], f["what"], s))
                    if hit[s] == 1:
                        out.notes.append("KNOWN-FINDING %s first hit: %s" % (f["id"], describe(row, law)[:600]))
                continue
            n_viol += 1
            if n_viol <= 25:
                out.violation("law %s broken: %s" % (law, describe(row, law)),
                              {"component": "recon", "law": law, "case": case, "row": row})
    return hit, n_viol


# ----------------------------------------------------------------------------- the check

def build_cases(tier, values, typed, texts, rng):
    quick = tier == "quick"
    salts = 4 if quick else 6
    cases = []
    for i, (v, ns) in enumerate(values):
        for s in range(ns):
            cases.append({"id": "v%d.%d" % (i, s), "k": "value", "v": v, "salt": s * 7 + i % 5 + (i if ns == 1 else 0)})
    for i, t in enumerate(typed):
        for s in range(salts + 1):
            cases.append({"id": "t%d.%d" % (i, s), "k": "typed", "ty": t["ty"], "syms": t["syms"], "salt": s})
    muts = texts["mut"]
    small_muts = [m for m in muts if m["m"] not in ("rep", "wrap")]
    grow_muts = [m for m in muts if m["m"] in ("rep", "wrap")]
    for i, t in enumerate(texts["accepted"] + texts["simulated"]):
        for s in range(2):
            cases.append({"id": "x%d.%d" % (i, s), "k": "toks", "toks": t["toks"], "salt": s * 5 + i % 7, "style": (i + s) % 3,
                          "pred": t["verdict"]})
        # one mutated twin per accepted sequence (operator chosen by seed from the model's operator set)
        m = rng.choice(small_muts)
        cases.append({"id": "m%d" % i, "k": "toks", "toks": t["toks"], "salt": i % 11, "style": i % 3, "mut": [m]})
        if i % (40 if quick else 8) == 0:
            g = grow_muts[(i // 8) % len(grow_muts)]
            cases.append({"id": "g%d" % i, "k": "toks", "toks": t["toks"], "salt": i % 13, "style": 1, "mut": [g]})
    rej = texts["rejected"]
    cap = 6000 if quick else 14000
    if len(rej) > cap:
        keep = [t for t in rej if t["verdict"] in ("accept", "accept-eof")]
        rest = [t for t in rej if t["verdict"] not in ("accept", "accept-eof")]
        rej = keep + rng.sample(rest, cap - len(keep))
    for i, t in enumerate(rej):
        cases.append({"id": "r%d" % i, "k": "toks", "toks": t["toks"], "salt": i % 17, "style": i % 3, "pred": t["verdict"]})
    return cases


def text_len(row):
    """byte length of the text the chunk plans will be applied to"""
    if row.get("k") == "text":
        return row.get("n")
    for p in row.get("pr", []):
        if p.get("p") == "compact":
            return p.get("len")
    return None


def run(tier, out):
    quick = tier == "quick"
    rng = random.Random(core.seed())
    wd = core.workdir("C09")
    core.build_harness("h_core", "recon")
    st = Stats()
    t0 = time.time()
    values, typed, n_sim = gen_values(tier, wd, st)
    texts = gen_texts(tier, wd, st)
    plans = chunk_model(wd, st, out)
    core.log("[C09] TLC generated %d abstract values (%d from simulation walks), %d typed cases, %d accepted / %d simulated / %d other token "
             "sequences, %d mutation operators; small-scope cut plans for %d lengths  (%.0fs)" % (
                 len(values), n_sim, len(typed), len(texts["accepted"]), len(texts["simulated"]), len(texts["rejected"]), len(texts["mut"]),
                 len(plans), time.time() - t0))
    cases = build_cases(tier, values, typed, texts, rng)
    # pass A: round trips (all cases), gives the text lengths
    t1 = time.time()
    rows = run_cases(cases, wd, "passA")
    core.log("[C09] pass A: %d cases through the real printers/parser in %.0fs" % (len(cases), time.time() - t1))
    # pass B: chunking for a selection of the cases, with the plans TLC enumerated for their lengths
    sel = []
    stride_v = 1 if quick else 2
    for idx, (c, r) in enumerate(zip(cases, rows)):
        if "panic" in r or "hang" in r:
            continue
        kind = c["id"][0]
        n = text_len(r)
        if n is None:
            continue
        if kind == "v":
            i, s = c["id"][1:].split(".")
            ns = values[int(i)][1]
            if int(s) != int(i) % ns or int(i) % stride_v:
                continue
        elif kind == "t":
            if not c["id"].endswith(".0") and not c["id"].endswith(".1"):
                continue
        elif kind == "x":
            if not c["id"].endswith(".0"):
                continue
        elif kind in ("m", "r"):
            if idx % 3:
                continue
        if n > (400 if quick else 4200):
            continue
        sel.append((idx, n))
    lens = sorted({n for _, n in sel})
    # cap the number of distinct long lengths (each costs ~L plans)
    long_l = [l for l in lens if l > 120]
    if len(long_l) > (12 if quick else 30):
        keep = set(rng.sample(long_l, 12 if quick else 30))
        sel = [(i, n) for (i, n) in sel if n <= 120 or n in keep]
        lens = sorted({n for _, n in sel})
    t2 = time.time()
    plans = chunk_plans(wd, st, lens, tier, plans)
    n_plans = sum(len(v) for v in plans.values())
    core.log("[C09] TLC enumerated %d cut plans for %d text lengths (max %d) in %.0fs" % (n_plans, len(plans), max(plans), time.time() - t2))
    cases_b = []
    for j, (idx, n) in enumerate(sel):
        c = dict(cases[idx])
        c["chunk"] = chunk_spec(plans, n, 80 if quick else 400, rng, doc=(j % 3 == 0))
        cases_b.append(c)
    t3 = time.time()
    rows_b = run_cases(cases_b, wd, "passB")
    pos = {c["id"]: i for i, c in enumerate(cases)}
    for c, r in zip(cases_b, rows_b):
        rows[pos[c["id"]]] = r
    dec_runs = sum(ch.get("runs", 0) for r in rows_b for ch in r.get("chunk", []))
    core.log("[C09] pass B: %d cases x cut plans = %d decoder runs in %.0fs" % (len(cases_b), dec_runs, time.time() - t3))
    # the laws, evaluated by TLC
    t4 = time.time()
    res = evaluate_laws(rows, wd, st)
    core.log("[C09] MC_Recon evaluated %d rows in %.0fs: exercised %s; %d rows break a law" % (
        res["rows"], time.time() - t4, dict(zip(res["laws"], res["exercised"])), len(res["broken"])))
    hit, n_viol = triage(out, rows, cases, res)
    # model drift of the parser model (informational)
    drift = 0
    pred_n = 0
    for c, r in zip(cases, rows):
        if "pred" in c and "one" in r and c["pred"] != "unknown":
            pred_n += 1
            real = "accept" if r["one"] != "err" else "reject"
            if not c["pred"].startswith(real):
                drift += 1
                if drift <= 3:
                    out.notes.append("MODEL-DRIFT parser model predicts %s for %s, real parser: %s" % (c["pred"], c["toks"], real))
    # evidence
    tids = set()
    rt = 0
    for r in rows:
        for p in r.get("pr", []):
            rt += 1 + len(p.get("again", []))
            if p.get("len", 0) >= 2:
                tids.add(p["tid"])
        if r.get("k") == "text" and r.get("n", 0) >= 2:
            tids.add(r["tid"])
    never = [a for a, (d, t) in st.cov.items() if t == 0]
    samples = pick_samples(cases, rows, cases_b, rows_b)
    for s in samples:
        out.sample(s, cap=8)
    out.add(evaluations=len(rows) + dec_runs, distinct_nontrivial=len(tids),
            rule="cases = abstract values / typed shapes / token sequences enumerated by TLC (Gen_Recon, Gen_ReconChunk) x pool rotations, "
                 "each printed by the 3 printers and parsed back twice, plus decoder runs = selected texts x cut plans enumerated by TLC "
                 "(MC_ReconChunk) x {RecognizerDecoder, WithLenRecognizerDecoder, parse_recon_document}; evaluations = rows judged by TLC "
                 "(MC_Recon) + decoder runs; distinct_nontrivial = distinct concrete Recon texts of >= 2 bytes (by hash) that were printed or generated and parsed",
            rows=len(rows), printer_roundtrips=rt, decoder_runs=dec_runs, chunked_cases=len(cases_b), cut_plans=n_plans,
            abstract_values=len(values), typed_cases=len(typed), token_sequences=len(texts["accepted"]) + len(texts["simulated"]) + len(texts["rejected"]),
            laws_exercised=dict(zip(res["laws"], res["exercised"])), rows_breaking_a_law=len(res["broken"]),
            known_finding_hits=dict(hit), law_evaluation_states=getattr(st, "law_states", 0), states=st.states, transitions=st.transitions, tlc_runs=st.runs,
            action_coverage={a: {"distinct": d, "taken": t} for a, (d, t) in sorted(st.cov.items())},
            actions_never_taken=never, parser_model_predictions=pred_n, model_drift=drift, exhaustive=False,
            checker_cmd="tlc Gen_Recon / Gen_ReconChunk / MC_ReconChunk (INVARIANTS %s) + h_core recon + tlc MC_Recon (LawSpec)" % " ".join(CHUNK_INVS[:-1]))
    if not out.violations:
        # scratch hygiene: the case / row files are large and reproducible from the seed
        for f in os.listdir(wd):
            if f.endswith(".ndjson"):
                os.remove(os.path.join(wd, f))
        for d in os.listdir(wd):
            o = os.path.join(wd, d, "Gen_Recon.out")
            for o in (os.path.join(wd, d, m + ".out") for m in ("Gen_Recon", "Gen_ReconChunk", "MC_ReconChunk")):
                if os.path.exists(o) and os.path.getsize(o) > (1 << 20):
                    os.remove(o)
    out.assumptions += [
        "leaves are concretised from finite boundary pools (harness); TLC enumerates structure, not magnitudes or Unicode",
        "non-finite floats are outside the laws (the statement restricts floats to finite values); they are still run for panics",
        "a value counts as parser-producible when the real parser maps an independent fully explicit rendering of it back to exactly it, "
        "or when it is itself a parse result",
        "error results are compared as 'an error' (kind and position of the error are not part of the law)",
        "chunk plans are exhaustive (every single cut, byte-wise) per text length up to the tier's length cap; multi-cuts exhaustive for bodies <= 8 bytes, seeded beyond",
    ]


def pick_samples(cases, rows, cases_b, rows_b):
    out = []
    want = {"v": 2, "t": 1, "x": 1, "m": 1, "g": 1}
    for c, r in zip(cases_b, rows_b):
        k = c["id"][0]
        if want.get(k, 0) > 0 and "chunk" in r and r["chunk"] and r["chunk"][0].get("plans", 0) > 3:
            want[k] -= 1
            s = {"case": {kk: vv for kk, vv in c.items() if kk != "chunk"}, "cut_plans": (c["chunk"]["multi"][:4] + c["chunk"]["hdr_multi"][:2])}
            s["observed"] = {"vid": r.get("vid"), "printed": [{"printer": p["p"], "len": p.get("len"), "back": p["back"]} for p in r.get("pr", [])][:3],
                             "chunk": {kk: r["chunk"][0].get(kk) for kk in ("n", "one", "rd", "wl", "plans", "sample")}}
            out.append(s)
    return out


def replay(path, out):
    wd = core.workdir("C09_replay")
    core.build_harness("h_core", "recon")
    obj = json.load(open(path))["replay"]
    case = dict(obj["case"])
    case["with_text"] = True
    if "chunk" not in case:
        case["chunk"] = {"single": True, "max_single": 400, "bytewise": True, "doc": True}
    rows = run_cases([case], wd, "replay")
    print(json.dumps(rows[0], ensure_ascii=False)[:6000])
    st = Stats()
    res = evaluate_laws(rows, wd, st, tag="replay_laws")
    print("laws broken:", json.dumps(res["broken"]))
    hit, n_viol = triage(out, rows, [case], res)
    for k in out.known:
        print("KNOWN-FINDING: property=%s %s" % (PROP, k))
    if n_viol:
        print("VIOLATION property=%s replay=%s" % (PROP, path))
        return 1
    return 0

"""C16 - Form: the typed, the model and the wire representation of a value agree.

Level: exploration (TLC-generated cases from an explicit TLA+ data model; laws evaluated by TLC).

 1. TLC enumerates specs/Gen_FormDoc.tla: battery type x instance (small scope) x abstract mutation
    operator (drop / duplicate / reorder field, wrong tag, extra attribute, wrong kind, ...), checks the
    model's own invariants (Read inverts Render, ...) and prints every distinct (type, document) with
    what the reference reader (M) expects.
 2. This module concretises the abstract leaves from boundary pools (seeded), renders every document
    as Recon text in several styles, and has the harness (h_core/src/bin/form.rs) run the REAL code:
    as_value / into_value / try_from_value / try_convert, the three Recon printers, both reading
    paths (parse_recognize::<T> and parse -> Value -> try_from_value), MessagePack write / read.
    (Every rendered instance is also sent once with its last delimiter cut off: an unparseable text.)
    The battery has three parts: derived types with the attribute combinations; collections / frame sequences
    whose 2nd and later elements are read by reset() recognizers; and the position battery: every primitive
    kind Form supports (integers of every width, f64, bool, String, Text, BigInt, BigUint, blobs, unit,
    Timestamp, Duration, RetryStrategy / Quantity, RouteUri, NonZeroUsize, Arc) in every structural position
    (top level, slot, attribute, header slot, header body, delegated body, Vec element, Option, map key, map
    value) with boundary values sampled from the pools (kind limits, every MessagePack width, big integers
    beyond 64 bits, empty / 1 byte / 300 byte blobs, strings at the 31/32 and 255/256 boundaries).
 3. The observations are written as a table; TLC (specs/MC_FormDoc.tla) evaluates the laws of the
    property (FormDoc.tla section 7) on every row.  A row that breaks a law is a VIOLATION unless it
    matches an open known finding.  A row on which both real reading paths agree with each other but
    not with the reference reader is MODEL-DRIFT (a note).
"""
import json, os, random, time, hashlib, threading, decimal, re, collections, base64
from vlib import core

LEVEL = "exploration"
PROP = "C16"
MEMBER, BIN = "h_core", "form"

# ----------------------------------------------------------------------------- configuration

GROUPS = 4
ALL_STYLES = ("std", "braced", "ws", "parens", "bare")


def plan(tier, mk):
    """generation jobs: battery types, Scope, MaxMut, MutDepth, MaxFrames (documents in a row on one reused decoder), styles, sigmas"""
    reuse, pos, combo, wide = mk["reuse"], mk["pos"], mk["combo"], mk["wide"]
    base = [k for k in mk["all"] if k not in reuse and k not in pos and k not in combo and k not in wide]
    # wide bodies (MessagePack size classes): instances only - a mutant of a 300 entry document is nothing new
    wjob = [dict(name="wide", keys=wide, scope=0, max_mut=0, mut_depth=0, frames=1, styles=("std",), sigmas=1)]
    jobs = []
    if tier == "quick":
        for g in range(GROUPS):      # interleaved so that the heavy types are spread over the groups
            jobs.append(dict(name="gen%d" % g, keys=base[g::GROUPS], scope=0, max_mut=1, mut_depth=2, frames=2, styles=ALL_STYLES, sigmas=1))
        # collections whose elements are read by reset() recognizers: mutations on the collection and on its elements
        for g in range(GROUPS - 1):      # (three groups: with the single wide job the jobs fill whole batches of GROUPS)
            jobs.append(dict(name="reuse%d" % g, keys=reuse[g::GROUPS - 1], scope=0, max_mut=1, mut_depth=1, frames=2,
                             styles=("std", "braced", "ws"), sigmas=1))
        # every primitive kind in every structural position: boundary values sampled from the pools per document
        for g in range(GROUPS):
            jobs.append(dict(name="pos%d" % g, keys=pos[g::GROUPS], scope=0, max_mut=1, mut_depth=1, frames=1,
                             styles=("std",), sigmas=1))
        # the attribute combinations of the derive macro (tag x header x body crossed)
        for g in range(GROUPS):
            jobs.append(dict(name="combo%d" % g, keys=combo[g::GROUPS], scope=0, max_mut=1, mut_depth=2, frames=2,
                             styles=("std", "braced"), sigmas=1))
        return jobs + wjob
    for g in range(GROUPS):
        jobs.append(dict(name="gen%d" % g, keys=base[g::GROUPS], scope=1, max_mut=1, mut_depth=3, frames=2, styles=ALL_STYLES, sigmas=2))
    for g in range(GROUPS):
        jobs.append(dict(name="reuse%d" % g, keys=reuse[g::GROUPS], scope=0, max_mut=1, mut_depth=3, frames=3, styles=ALL_STYLES, sigmas=1))
    for g in range(GROUPS):
        jobs.append(dict(name="pos%d" % g, keys=pos[g::GROUPS], scope=0, max_mut=1, mut_depth=2, frames=2, styles=("std", "braced", "ws"), sigmas=4))
    for g in range(GROUPS):
        jobs.append(dict(name="combo%d" % g, keys=combo[g::GROUPS], scope=1, max_mut=1, mut_depth=3, frames=2,
                         styles=("std", "braced", "ws"), sigmas=1))
    # second-order mutants (two operators in a row), except for the types with model-value fields (too many)
    jobs += wjob
    two = [k for k in base if k not in ("WithValue", "BodyValue", "HdrValue", "ModelVal", "VecNest", "Coll")]
    n2 = 2 * GROUPS
    for g in range(n2):
        jobs.append(dict(name="gen2_%d" % g, keys=two[g::n2], scope=0, max_mut=2, mut_depth=1, frames=1, styles=("std", "ws"), sigmas=1))
    return jobs


CHUNK = 150000

# ----------------------------------------------------------------------------- the combination battery (ONE table)
#
# The attribute COMBINATIONS the derive macro supports, crossed systematically:
#   tag      none | a #[form(tag)] field | #[form(tag = "..")] rename
#   header   none | header slots | header_body | header_body + header slots | implicit (plain fields next to a body field)
#   body     labelled (named struct) | delegated (#[form(body)] field) | ordinal (tuple struct)
# fully crossed (the invalid cells are left out: an implicit header needs a delegated body); the number of #[form(attr)]
# fields (0 / 1 / 2) and the modifier on one plain field (none / #[form(skip)] / #[form(name = "..")]) rotate so that each
# of their values meets every tag, header and body value.  The same cells are generated once more as enum variants (a
# variant has no tag field: the derive macro only supports #[form(tag)] fields in structs).  Unit structs and
# #[form(newtype)] have no fields to combine and stay in the hand-written battery (Unit, NewT, NewS, ConvEnum).
# From this one table both harness/h_core/src/form_combos.rs (the Rust types) and specs/FormDocCombos.tla (their
# descriptions for the document model) are generated, so the two cannot drift apart.

COMBO_RS = os.path.join(core.ROOT, "harness", "h_core", "src", "form_combos.rs")
COMBO_TLA = os.path.join(core.SPECS, "FormDocCombos.tla")
_PRIM_RS = {"i32": "i32", "i32k": "i32", "i32c": "i32", "boolc": "bool", "stringc": "String", "level": "Level", "unit": "()", "value": "Value"}


def _ty_rs(t):
    if t["c"] == "prim":
        return _PRIM_RS[t["p"]]
    if t["c"] == "vec":
        return "Vec<%s>" % _ty_rs(t["e"])
    if t["c"] == "opt":
        return "Option<%s>" % _ty_rs(t["e"])
    if t["c"] == "map":
        return "HashMap<%s, %s>" % (_ty_rs(t["key"]), _ty_rs(t["val"]))
    if t["c"] == "named":
        return t["n"]
    raise core.ToolError(str(t))


def _ty_tla(t):
    if t["c"] == "prim":
        return '[c |-> "prim", p |-> "%s"]' % t["p"]
    wide = ", wide |-> %d" % t["wide"] if "wide" in t else ""
    if t["c"] == "map":
        return '[c |-> "map", key |-> %s, val |-> %s%s]' % (_ty_tla(t["key"]), _ty_tla(t["val"]), wide)
    if t["c"] in ("vec", "opt"):
        return '[c |-> "%s", e |-> %s%s]' % (t["c"], _ty_tla(t["e"]), wide)
    return '[c |-> "named", n |-> "%s"]' % t["n"]


def _P(p):
    return {"c": "prim", "p": p}


def _OPT(t):
    return {"c": "opt", "e": t}


def _VEC(t):
    return {"c": "vec", "e": t}


BODY_TYPES = [_P("stringc"), {"c": "named", "n": "Two"}, {"c": "vec", "e": _P("i32c")}]


def combo_cell(i, name, tag, hdr, body, nattr, mod, in_enum):
    """one cell of the cross: the fields of a struct / variant, in declaration order"""
    tuple_ = body == "tuple"
    fields = []

    def add(rust, role, ty, label=None, extra=""):
        # in a tuple struct a field that is written with a label (attribute, header slot) needs an explicit name
        label = rust if label is None else label
        fields.append({"rust": str(len(fields)) if tuple_ else rust, "name": label, "role": role, "ty": ty, "attrs": extra,
                       "needs_name": tuple_ and (role in ("attr", "header", "tag") or (role == "slot" and label != ""))})

    if tag == "field":
        add("level", "tag", _P("level"))
    if hdr in ("hbody", "both"):
        add("hb", "hbody", _P("boolc"))
    if hdr in ("slots", "both"):
        add("h1", "header", _P("i32c"))
    if hdr == "slots":
        add("h2", "header", _P("stringc"))
    for a in range(nattr):
        add("a%d" % (a + 1), "attr", _P("boolc") if a == 0 else _P("stringc"))
    # plain fields: the slots of a labelled / ordinal body; next to a delegated body they are lifted into the header
    plain = body in ("labelled", "tuple") or hdr == "implicit"
    # (every cell has an Option-typed plain field, so: in both states in the instance domain.  In a tuple struct the body
    #  fields are either all positional or - modifier rename - ALL renamed: the macro rejects a mix)
    def plain_label(n):
        if tuple_:
            return "r_" + n if mod == "rename" else ""
        return None

    if plain:
        if mod == "rename" and not tuple_:
            add("s1", "slot", _P("i32c"), label="renamed_s1")
        else:
            add("s1", "slot", _P("i32c"), label=plain_label("s1"))
        if mod == "skip":
            add("sk", "skip", _P("i32c"))
        add("so", "slot", _OPT(_P("i32c")), label=plain_label("so"))
        if body != "delegated":
            add("s2", "slot", _P("stringc"), label=plain_label("s2"))
    else:
        if mod == "skip":
            add("sk", "skip", _P("i32c"))
        add("so", "slot", _OPT(_P("i32c")))
    if body == "delegated":
        add("b", "body", BODY_TYPES[(i // 3 + i) % len(BODY_TYPES)], label="" if tuple_ else None)
    declared = len(fields)
    shape = ("newtype" if declared == 1 else "tuple") if tuple_ else "named"
    return {"tag": name.lower() + "-tag" if tag == "rename" else name, "tag_attr": tag == "rename", "shape": shape, "fields": fields}


def emission_cells():
    """The field TYPES that change what the writer emits - Option (omit_as_field), unit, collections (possibly empty), the
    model value (possibly extant) - in each attribute position (header body, header slot, attribute, delegated body, plain
    slot; named and tuple structs; next to a tag field) together with mandatory and optional neighbours.  The instance
    domains contain the full None / Some (empty / non-empty) cross of the fields of a type."""
    I, S, B = _P("i32c"), _P("stringc"), _P("boolc")
    U, V, TWO, LEVEL = _P("unit"), _P("value"), {"c": "named", "n": "Two"}, _P("level")
    return [
        ("named", [("hb", "hbody", _OPT(I)), ("h1", "header", I), ("s1", "slot", I)]),
        ("named", [("hb", "hbody", _OPT(I)), ("h1", "header", _OPT(I)), ("s1", "slot", I)]),
        ("named", [("hb", "hbody", _OPT(I)), ("h1", "header", _OPT(I)), ("h2", "header", S), ("s1", "slot", I)]),
        ("named", [("hb", "hbody", B), ("h1", "header", _OPT(I)), ("h2", "header", _OPT(S)), ("s1", "slot", I)]),
        ("named", [("hb", "hbody", _OPT(I)), ("s1", "slot", I)]),
        ("named", [("h1", "header", _OPT(I)), ("b", "body", S)]),
        ("named", [("s1", "slot", _OPT(I)), ("s2", "slot", S), ("b", "body", TWO)]),
        ("named", [("hb", "hbody", _OPT(I)), ("s1", "slot", _OPT(I)), ("b", "body", _VEC(I))]),
        ("named", [("a1", "attr", _OPT(I)), ("a2", "attr", _OPT(S)), ("s1", "slot", I)]),
        ("named", [("h1", "header", I), ("b", "body", _OPT(S))]),
        ("named", [("s1", "slot", I), ("b", "body", _OPT(TWO))]),
        ("named", [("a1", "attr", _OPT(I)), ("b", "body", _OPT(_VEC(I)))]),
        ("named", [("s1", "slot", _OPT(I)), ("s2", "slot", _OPT(S)), ("s3", "slot", I)]),
        ("tuple", [("hb", "hbody", _OPT(I)), ("h1", "header", I), ("s1", "slot", _OPT(I)), ("s2", "slot", S)]),
        ("tuple", [("a1", "attr", _OPT(I)), ("s1", "slot", _OPT(I))]),
        ("tuple", [("h1", "header", _OPT(I)), ("b", "body", _OPT(S))]),
        ("named", [("level", "tag", LEVEL), ("hb", "hbody", _OPT(I)), ("h1", "header", _OPT(I)), ("b", "body", S)]),
        ("named", [("hb", "hbody", U), ("h1", "header", I), ("s1", "slot", I)]),
        ("named", [("h1", "header", U), ("s1", "slot", U)]),
        ("named", [("hb", "hbody", _VEC(I)), ("h1", "header", I), ("s1", "slot", I)]),
        ("named", [("h1", "header", _VEC(I)), ("h2", "header", _OPT(I)), ("s1", "slot", _VEC(I))]),
        ("named", [("hb", "hbody", V), ("h1", "header", I), ("s1", "slot", I)]),
        ("named", [("h1", "header", V), ("s1", "slot", I)]),
        # tuple structs / newtypes whose body fields have ALL been renamed (a labelled body on a tuple type; a mix of
        # renamed and positional body fields is rejected by the macro), and their positional counterparts
        ("tuple", [("f0", "slot", _OPT(I), "f0"), ("f1", "slot", S, "f1")]),
        ("tuple", [("f0", "slot", _OPT(I), "f0"), ("f1", "slot", _OPT(S), "f1"), ("f2", "slot", I, "f2")]),
        ("tuple", [("a1", "attr", _OPT(I)), ("f0", "slot", _OPT(I), "f0"), ("f1", "slot", S, "f1")]),
        ("tuple", [("f0", "slot", _OPT(I), "f0")]),
        ("tuple", [("f0", "slot", _OPT(I))]),
        ("tuple", [("f0", "slot", _OPT(I)), ("f1", "slot", _OPT(S))]),
        # a NESTED omit predicate: Option<Option<_>> is omitted iff the OUTER option is None; Some(None) is written (as extant)
        # and reads back as Some(None).  Labelled slot, header slot, implicit header slot, and a generic instantiation
        ("named", [("s1", "slot", _OPT(_OPT(I))), ("s2", "slot", I)]),
        ("named", [("h1", "header", _OPT(_OPT(I))), ("s1", "slot", I)]),
        ("named", [("s1", "slot", _OPT(_OPT(I))), ("b", "body", S)]),
        ("named", [("g", "slot", _OPT(_OPT(I)), None, "T"), ("n", "slot", I)]),
        ("named", [("s1", "slot", _OPT(_OPT(I))), ("s2", "slot", _OPT(I)), ("s3", "slot", I)]),
    ]


def wide_cells():
    """MessagePack size classes of record bodies: a struct with 16 / 17 labelled fields (map16), and wide HashMap / Vec
    fields (16 / 17 entries) as slot, attribute value and delegated body"""
    K, I = _P("i32k"), _P("i32")
    wmap = lambda n: {"c": "map", "key": I, "val": I, "wide": n}
    wvec = lambda n: {"c": "vec", "e": I, "wide": n}
    return [
        ("KW16", [("f%02d" % i, "slot", K) for i in range(16)]),
        ("KW17", [("f%02d" % i, "slot", K) for i in range(17)]),
        ("KWB", [("n", "slot", K), ("b", "body", wmap(16))]),
        ("KWA", [("a", "attr", wmap(16)), ("x", "slot", K)]),
        ("KWS", [("m", "slot", wmap(17)), ("v", "slot", wvec(16)), ("x", "slot", K)]),
        ("KWH", [("h", "header", wmap(16)), ("hv", "header", wvec(17)), ("x", "slot", K)]),
    ]


def emission_fields(shape, spec):
    tuple_ = shape == "tuple"
    fields = []
    for ent in spec:
        rust, role, ty = ent[:3]
        label = ent[3] if len(ent) > 3 else None
        labelled = role in ("attr", "header", "tag") or label is not None
        fields.append({"rust": str(len(fields)) if tuple_ else rust, "name": (label or rust) if (labelled or not tuple_) else "", "role": role,
                       "ty": ty, "attrs": "", "needs_name": tuple_ and labelled, "param": len(ent) > 4 and ent[4] == "T"})
    return fields, (("newtype" if len(fields) == 1 else "tuple") if tuple_ else "named")


def combo_table():
    """[(key, descriptor)] - descriptor in the shape of the SCHEMA dump of the model (+ what the Rust generator needs)"""
    cells = []
    for ti, tag in enumerate(("none", "field", "rename")):
        for hi, hdr in enumerate(("none", "slots", "hbody", "both", "implicit")):
            for bi, body in enumerate(("labelled", "delegated", "tuple")):
                if hdr == "implicit" and body != "delegated":
                    continue        # plain fields are only lifted into the header next to a #[form(body)] field
                cells.append((tag, hdr, body, (ti + hi + bi) % 3, ("none", "skip", "rename")[(ti + 2 * hi + bi) % 3]))
    out = []
    for i, (tag, hdr, body, nattr, mod) in enumerate(cells):
        name = "K%02d" % i
        c = combo_cell(i, name, tag, hdr, body, nattr, mod, False)
        out.append((name, {"kind": "struct", "tag": c["tag"], "tag_attr": c["tag_attr"], "shape": c["shape"], "fields": c["fields"],
                           "cell": [tag, hdr, body, nattr, mod]}))
    # the same cells as enum variants (no tag field inside a variant), 7 variants per enum
    vcells = [c for c in cells if c[0] != "field"]
    for e in range(0, len(vcells), 7):
        variants = []
        for j, (tag, hdr, body, nattr, mod) in enumerate(vcells[e:e + 7]):
            vn = "V%d" % j
            c = combo_cell(e + j, vn, tag, hdr, body, nattr, mod, True)
            variants.append({"vname": vn, "tag": c["tag"], "tag_attr": c["tag_attr"], "shape": c["shape"], "fields": c["fields"],
                             "cell": [tag, hdr, body, nattr, mod]})
        out.append(("KE%d" % (e // 7), {"kind": "enum", "variants": variants}))
    # the emission cells (optional / unit / collection / model-value fields per position), and some of them as variants
    ecells = emission_cells()
    for i, (shape, spec) in enumerate(ecells):
        fields, sh = emission_fields(shape, spec)
        out.append(("KO%02d" % i, {"kind": "struct", "tag": "KO%02d" % i, "tag_attr": False, "shape": sh, "fields": fields,
                                   "cell": ["emission", "", "", 0, ""]}))
    variants = []
    for j, i in enumerate((0, 1, 3, 5, 8, 9, 13)):
        fields, sh = emission_fields(*ecells[i])
        variants.append({"vname": "V%d" % j, "tag": "V%d" % j, "tag_attr": False, "shape": sh, "fields": fields, "cell": ["emission", "", "", 0, ""]})
    out.append(("KOE0", {"kind": "enum", "variants": variants}))
    # tuple / newtype VARIANTS with renamed and with positional optional fields
    variants = []
    for j, i in enumerate(range(23, 29)):
        fields, sh = emission_fields(*ecells[i])
        variants.append({"vname": "V%d" % j, "tag": "V%d" % j, "tag_attr": False, "shape": sh, "fields": fields, "cell": ["emission", "", "", 0, ""]})
    out.append(("KOE1", {"kind": "enum", "variants": variants}))
    for key, spec in wide_cells():
        fields, sh = emission_fields("named", spec)
        out.append((key, {"kind": "struct", "tag": key, "tag_attr": False, "shape": sh, "fields": fields, "cell": ["wide", "", "", 0, ""]}))
    return out


def _fields_rs(fields, tuple_):
    parts = []
    for f in fields:
        at = []
        role = f["role"]
        form = {"tag": ["tag"], "hbody": ["header_body"], "header": ["header"], "attr": ["attr"], "body": ["body"], "skip": ["skip"],
                "slot": []}[role]
        if f["needs_name"] or (role == "slot" and not tuple_ and f["name"] not in ("", f["rust"])):
            form.append('name = "%s"' % f["name"])
        if form:
            at.append("#[form(%s)]" % ", ".join(form))
        if role == "skip":
            at.append("#[serde(skip)]")
        if f["ty"] == _P("value"):
            at.append('#[serde(with = "valjson")]')
        ty = "T" if f.get("param") else _ty_rs(f["ty"])
        decl = ty if tuple_ else "%s: %s" % (f["rust"], ty)
        parts.append(" ".join(at + [decl]))
    return ", ".join(parts)


def _nested_opt(t):
    return t["c"] == "opt" and t["e"]["c"] == "opt"


def combo_rust(table):
    o = ["// GENERATED by checks/c16.py (combo_table) - do not edit; the same table generates specs/FormDocCombos.tla", ""]
    names = []
    concrete = {}
    for key, d in table:
        if d["kind"] == "struct" and any(_nested_opt(f["ty"]) for f in d["fields"]):
            # serde cannot tell Some(None) from None: a hand-made json rendering ({"some": ..}) instead
            param = next((f for f in d["fields"] if f.get("param")), None)
            conc = "%s<%s>" % (key, _ty_rs(param["ty"])) if param else key
            concrete[key] = conc
            o.append("#[derive(Form, Clone, Debug, PartialEq)]")
            o.append("struct %s%s { %s }" % (key, "<T>" if param else "", _fields_rs(d["fields"], False)))
            o.append("impl TJ for %s {" % conc)
            o.append("    fn tj_to(&self) -> J { json!({ %s }) }" % ", ".join(
                '"%s": %s' % (f["rust"], ("optopt_to(&self.%s)" if _nested_opt(f["ty"]) else "self.%s.tj_to()") % f["rust"]) for f in d["fields"]))
            o.append("    fn tj_from(j: &J) -> Result<Self, String> { Ok(%s { %s }) }" % (key, ", ".join(
                '%s: %s(&j["%s"])?' % (f["rust"], "optopt_from" if _nested_opt(f["ty"]) else "TJ::tj_from", f["rust"]) for f in d["fields"])))
            o.append("}")
            o.append("")
            continue
        names.append(key)
        o.append("#[derive(Form, Serialize, Deserialize, Clone, Debug, PartialEq)]")
        if d["kind"] == "struct":
            if d["tag_attr"]:
                o.append('#[form(tag = "%s")]' % d["tag"])
            tuple_ = d["shape"] != "named"
            body = _fields_rs(d["fields"], tuple_)
            o.append("struct %s(%s);" % (key, body) if tuple_ else "struct %s { %s }" % (key, body))
        else:
            o.append("enum %s {" % key)
            for v in d["variants"]:
                if v["tag_attr"]:
                    o.append('    #[form(tag = "%s")]' % v["tag"])
                tuple_ = v["shape"] != "named"
                body = _fields_rs(v["fields"], tuple_)
                o.append("    %s(%s)," % (v["vname"], body) if tuple_ else "    %s { %s }," % (v["vname"], body))
            o.append("}")
        o.append("")
    o.append("tj_serde!(%s);" % ", ".join(names))
    o.append("")
    o.append("fn dispatch_combo(ty: &str, case: &J) -> Option<J> {")
    o.append("    Some(match ty {")
    for n in names:
        o.append('        "%s" => run::<%s>(case),' % (n, n))
    for n, conc in concrete.items():
        o.append('        "%s" => run::<%s>(case),' % (n, conc))
    o.append("        _ => return None,")
    o.append("    })")
    o.append("}")
    return "\n".join(o) + "\n"


def _fields_tla(fields):
    return "<<" + ", ".join('[rust |-> "%s", name |-> "%s", role |-> "%s", ty |-> %s]' % (f["rust"], f["name"], f["role"], _ty_tla(f["ty"]))
                            for f in fields) + ">>"


def combo_tla(table):
    o = ["--------------------------- MODULE FormDocCombos ---------------------------",
         "(* GENERATED by checks/c16.py (combo_table) - do not edit.  The descriptions of the combination battery:     *)",
         "(* tag x header x body crossed, attribute count and field modifier rotated; the same table generates the     *)",
         "(* Rust types in harness/h_core/src/form_combos.rs.  Cells: *)"]
    for key, d in table:
        if d["kind"] == "struct":
            o.append("(*   %s  tag=%s header=%s body=%s attrs=%d modifier=%s *)" % ((key,) + tuple(d["cell"])))
        else:
            for v in d["variants"]:
                o.append("(*   %s::%s  tag=%s header=%s body=%s attrs=%d modifier=%s *)" % ((key, v["vname"]) + tuple(v["cell"])))
    o.append("")
    o.append("ComboKeys == {%s}" % ", ".join('"%s"' % k for k, _ in table))
    o.append("")
    o.append("ComboType(key) ==")
    first = True
    for key, d in table:
        if d["kind"] == "struct":
            rhs = '[kind |-> "struct", tag |-> "%s", shape |-> "%s", fields |-> %s]' % (d["tag"], d["shape"], _fields_tla(d["fields"]))
        else:
            rhs = '[kind |-> "enum", variants |-> <<' + ",\n        ".join(
                '[vname |-> "%s", tag |-> "%s", shape |-> "%s", fields |-> %s]' % (v["vname"], v["tag"], v["shape"], _fields_tla(v["fields"]))
                for v in d["variants"]) + ">>]"
        o.append('  %s key = "%s" -> %s' % ("CASE" if first else "  []", key, rhs))
        first = False
    o.append("")
    o.append("\\* (a constant: evaluated once)")
    o.append("ComboTypes == [key \\in ComboKeys |-> ComboType(key)]")
    o.append("=============================================================================")
    return "\n".join(o) + "\n"


def sync_generated():
    """(re)write the two generated files when the table has changed"""
    t = combo_table()
    for path, text in ((COMBO_RS, combo_rust(t)), (COMBO_TLA, combo_tla(t))):
        if not os.path.exists(path) or open(path).read() != text:
            with open(path, "w") as fh:
                fh.write(text)
    return t


# ----------------------------------------------------------------------------- concretisation pools

B64 = bytes(range(256))
POOLS = {
    # 0 .. i32::MAX: every MessagePack width (fixint / 8 / 16 / 32 bit)
    "i": [1, 127, 128, 255, 256, 65535, 65536, 2147483647, 42],       # (zero is its own leaf, class Z)
    "n": [-1, -32, -33, -128, -129, -32768, -32769, -2147483648],
    "g": [4294967296, 9007199254740992, 1099511627776],               # > u32::MAX, fits i64 (64 bit width)
    "L": [9223372036854775807],                                        # i64::MAX
    "h": [2147483648, 4294967295],                                     # (i32::MAX, u32::MAX]
    "G": [9223372036854775808, 18446744073709551615],                  # (i64::MAX, u64::MAX]
    "N": [-2147483649, -9223372036854775808],                          # [i64::MIN, i32::MIN)
    "B": [18446744073709551616, 10 ** 30, 2 ** 200],                   # beyond u64: big integers (MessagePack ext)
    "M": [-9223372036854775809, -(10 ** 30), -(2 ** 200)],
    "T": [0, 1000000, 1700000000000000, -1000000],                     # timestamps in micro-seconds: whole seconds
    "U": [1700000000123456, 999999, -1],                               # ... with a sub-second part
    "z": [0, 1, 999999999],                                            # nano-seconds
    "q": [1, 127, 128, 65536, 2147483647],                             # non-zero
    "r": ["/node", "swim:/a/b", "/a/b/c", "a/b?q=1#frag", "/unit/foo%20bar"],       # route uris
    "f": [0.5, -2.25, 1e-7, 123456.789, 1.5, 0.1, 3.5e38, 1.5e300, 2.5e-300, -0.0],   # (f32 range, beyond it, tiny, -0.0)
    "b": [True, False],
    "s": ["pooled", "hello world", "", "true", "@at", "é ñ", "q\"uo\\te", "line\nbreak", "1x", "-", "k v",
          "a" * 31, "b" * 32, "c" * 255, "d" * 256],                     # (str width boundaries 31/32, 255/256)
    "d": [b"", b"\x00", B64 + bytes(44), B64[:255], B64, B64[:31], B64[:32]],        # blobs: empty, 1 byte, 300 bytes, bin8/bin16
}
INT_CLASSES = ("i", "n", "g", "h", "G", "N", "B", "M", "T", "U", "z", "Z", "q", "c", "L")


class Sigma:
    """An injective assignment of concrete values to the leaf symbols (per class a seeded permutation)."""

    def __init__(self, seed):
        rng = random.Random(seed)
        self.perm = {}
        for c, pool in POOLS.items():
            p = list(pool)
            rng.shuffle(p)
            self.perm[c] = p

    def leaf(self, v):
        c = v["k"]
        if c == "x":
            return None
        if c == "t":
            return v["s"]
        if c == "Z":
            return 0
        if c == "c":
            return int(v["s"])
        if c == "S":
            return "w" * int(v["s"])
        if c == "D":
            return bytes(i % 251 for i in range(int(v["s"])))
        return self.perm[c][int(v["s"])]


def fmt_float(x):
    s = format(decimal.Decimal(repr(x)), "f")
    return s if "." in s else s + ".0"


_IDENT = re.compile(r"^[A-Za-z_][A-Za-z0-9_\-]*$")


def fmt_text(s):
    if _IDENT.match(s) and s not in ("true", "false"):
        return s
    out = ['"']
    for ch in s:
        if ch == '"':
            out.append('\\"')
        elif ch == "\\":
            out.append("\\\\")
        elif ch == "\n":
            out.append("\\n")
        elif ch == "\t":
            out.append("\\t")
        elif ch == "\r":
            out.append("\\r")
        elif ord(ch) < 0x20:
            out.append("\\u%04x" % ord(ch))
        else:
            out.append(ch)
    out.append('"')
    return "".join(out)


# ----------------------------------------------------------------------------- abstract value -> Recon text / model json

def leaf_text(v, sg):
    c = v["k"]
    x = sg.leaf(v)
    if c == "x":
        return ""
    if c in INT_CLASSES:
        return str(x)
    if c in ("d", "D"):
        return "%" + base64.b64encode(x).decode()
    if c == "f":
        return fmt_float(x)
    if c == "b":
        return "true" if x else "false"
    return fmt_text(x)


def render(v, sg, style, top=True):
    """Recon text of an abstract model value.  Styles differ in the concrete syntax only: all of them
    denote the same model value (checked: the harness reports whether the text parses to `built`)."""
    sep = {"ws": " ;\n "}.get(style, ",")
    if v["k"] != "rec":
        return leaf_text(v, sg)
    attrs, items = v["attrs"], v["items"]
    out = []
    for a in attrs:
        out.append("@" + fmt_text(a["n"]) + attr_body(a["v"], sg, style))
    body = sep.join(item_text(it, sg, style) for it in items)
    if not attrs:
        return ("{ %s }" if style == "ws" else "{%s}") % body
    if not items:
        return (" " if style == "ws" else "").join(out)
    if style == "bare" and top and len(items) == 1 and not items[0]["slot"] and items[0]["v"]["k"] not in ("rec", "x"):
        return "".join(out) + " " + body
    return (" " if style == "ws" else "").join(out) + ((" { %s }" if style == "ws" else "{%s}") % body)


def item_text(it, sg, style):
    if it["slot"]:
        colon = " : " if style == "ws" else ":"
        return render(it["key"], sg, style, False) + colon + render(it["v"], sg, style, False)
    return render(it["v"], sg, style, False)


def attr_body(v, sg, style):
    if v["k"] == "x":
        return "()" if style == "parens" else ""
    if v["k"] == "rec" and not v["attrs"]:
        items = v["items"]
        single_value = len(items) == 1 and not items[0]["slot"]
        if not items or single_value or style == "braced":
            # explicit braces (required to keep { } and {v} apart from () and (v))
            return "(" + render(v, sg, style, False) + ")"
        sep = {"ws": " , "}.get(style, ",")
        return "(" + sep.join(item_text(it, sg, style) for it in items) + ")"
    return "(" + render(v, sg, style, False) + ")"


def built(v, sg):
    """The model value in the harness encoding, with the numeric kinds the Recon parser produces."""
    c = v["k"]
    if c == "rec":
        return {"k": "rec", "attrs": [{"n": a["n"], "v": built(a["v"], sg)} for a in v["attrs"]],
                "items": [({"key": built(it["key"], sg), "v": built(it["v"], sg)} if it["slot"] else {"v": built(it["v"], sg)})
                          for it in v["items"]]}
    x = sg.leaf(v)
    if c == "x":
        return {"k": "extant"}
    if c in INT_CLASSES:
        if -2 ** 31 <= x < 2 ** 31:
            return {"k": "i32", "v": x}
        if -2 ** 63 <= x < 2 ** 63:
            return {"k": "i64", "v": x}
        if 0 <= x < 2 ** 64:
            return {"k": "u64", "v": x}
        return {"k": "bigint" if x < 0 else "biguint", "v": str(x)}
    if c in ("d", "D"):
        return {"k": "data", "v": list(x)}
    if c == "f":
        return {"k": "f64", "v": x}
    if c == "b":
        return {"k": "bool", "v": x}
    return {"k": "text", "v": x}


# ----------------------------------------------------------------------------- abstract instance -> serde json of the typed value

class Schema:
    def __init__(self, table):
        self.t = table

    def ty(self, t, x, sg):
        c = t["c"]
        if c == "prim":
            p = t["p"]
            if p == "value":
                return built(x, sg)
            v = sg.leaf(x)
            if p.endswith("w"):
                p = p[:-1]
            if p == "f64":
                return float(v)
            if p in ("bigint", "biguint"):
                return str(v)
            if p in ("blob", "wblob"):
                return list(v)
            return v
        if c == "opt" and t["e"]["c"] == "opt":
            # (serde renders Some(None) and None alike: the harness uses {"some": ..} for the outer option)
            return None if x["k"] == "none" else {"some": self.ty(t["e"], x["v"][0], sg)}
        if c == "opt":
            return None if x["k"] == "none" else self.ty(t["e"], x["v"][0], sg)
        if c == "quant":
            return "infinite" if x["k"] == "inf" else self.ty(t["e"], x["v"][0], sg)
        if c == "vec":
            return [self.ty(t["e"], e, sg) for e in x["v"]]
        if c == "tuple":
            return [self.ty(t["es"][i], e, sg) for i, e in enumerate(x["v"])]
        if c == "map":
            out = {}
            for k, v in x["v"]:
                kk = self.ty(t["key"], k, sg)
                out[kk if isinstance(kk, str) else json.dumps(kk, separators=(",", ":"))] = self.ty(t["val"], v, sg)
            return out
        if c == "named":
            return self.desc(self.t[t["n"]], x, sg)
        raise core.ToolError("type %r" % t)

    def fields(self, shape, fields, xs, sg):
        live = [f for f in fields if f["role"] != "skip"]
        vals = [self.ty(f["ty"], x, sg) for f, x in zip(live, xs)]
        if shape == "unit":
            return None
        if shape == "named":
            return {f["rust"]: v for f, v in zip(live, vals)}
        if shape == "newtype":
            return vals[0]
        return vals

    def desc(self, D, x, sg):
        k = D["kind"]
        if k == "struct":
            return self.fields(D["shape"], D["fields"], x["v"], sg)
        if k == "enum":
            V = D["variants"][x["var"] - 1]
            if V["shape"] == "unit":
                return V["vname"]
            return {V["vname"]: self.fields(V["shape"], V["fields"], x["v"], sg)}
        if k == "newtype":
            inner = self.ty(D["field"]["ty"], x["v"][0], sg)
            return inner if D["shape"] == "newtype" else {D["field"]["rust"]: inner}
        return self.ty(D["ty"], x, sg)

    def key(self, key, x, sg):
        return self.desc(self.t[key], x, sg)


def canon(j):
    return json.dumps(j, sort_keys=True, separators=(",", ":"))


def norm_model(j):
    """model json modulo integer kind and the order of slot-only bodies (HashMap iteration order)."""
    if j["k"] in ("i32", "i64", "u32", "u64", "bigint", "biguint"):
        return {"k": "int", "v": int(j["v"])}
    if j["k"] == "f64":
        return {"k": "f64", "v": float(j["v"])}
    if j["k"] != "rec":
        return j
    items = [({"key": norm_model(i["key"]), "v": norm_model(i["v"])} if "key" in i else {"v": norm_model(i["v"])}) for i in j.get("items", [])]
    if items and all("key" in i for i in items):
        items.sort(key=canon)
    return {"k": "rec", "attrs": [{"n": a["n"], "v": norm_model(a["v"])} for a in j.get("attrs", [])], "items": items}


# ----------------------------------------------------------------------------- step 1: generation by TLC

_KEYS = {}


def model_keys(wd):
    """the battery (AllKeys) and its parts, asked from the model itself (a TLC run without any type)"""
    if not _KEYS:
        res, errs = {}, []
        run_gen(wd, dict(name="keys", keys=[], scope=0, max_mut=0, mut_depth=0, frames=1), res, errs)
        if errs:
            raise errs[0]
        _KEYS["all"] = sorted(json.loads(res["keys"].tagged["SCHEMA"][0]).keys())
        _KEYS["pos"] = [k for k in _KEYS["all"] if "_" in k]
        _KEYS["combo"] = [k for k in _KEYS["all"] if re.match(r"^KO?E?\d+$", k)]
        _KEYS["wide"] = [k for k in _KEYS["all"] if re.match(r"^(KW|WMap|WVec|WStr$|WBlob$)", k)]
        s = open(os.path.join(core.SPECS, "FormDoc.tla")).read()
        _KEYS["reuse"] = re.findall(r'"([^"]+)"', re.search(r"ReuseKeys == \{(.*?)\}", s, re.S).group(1))
    return _KEYS


GEN_INVS = ["WellFormed", "ReadInvertsRender", "WrongTagRejected", "Emit"]
MUT_OPS = ["Commit", "dropItem", "dupItem", "swapItems", "dropAttr", "dupAttr", "swapAttrs", "wrongTag", "extraAttr", "extraItem", "renameKey",
           "unslot", "slotify", "wrongKind", "wrap", "unwrap"]


def defects():
    """the open findings the mechanism model mirrors / excuses: C16-F1 -> "F1" """
    return {f["id"].split("-")[-1] for f in core.open_findings(PROP)}


def tla_set(xs):
    return core.Raw("{" + ", ".join('"%s"' % x for x in sorted(xs)) + "}")


def run_gen(wd, job, res, errs, excused=None):
    try:
        c = core.cfg(constants={"Scope": job["scope"], "Defects": tla_set(defects()),
                                "Excused": tla_set(defects() if excused is None else excused),
                                "Keys": set(job["keys"]), "MaxFrames": job.get("frames", 1), "MaxMut": job["max_mut"],
                                "MutDepth": job["mut_depth"]},
                     invariants=[i for i in GEN_INVS if not (os.environ.get("C16_EXPLORE") and i == "ReadInvertsRender")], view="View")
        # -coverage makes TLC pathologically slow on the recursive operators of this module: off; the
        # per-operator statistics are computed from the DOC lines instead
        r = core.run_tlc("Gen_FormDoc", c, os.path.join(wd, job["name"]), workers=1, coverage=False, timeout=1500, xmx="6g",
                         keep_tagged_raw=True)
        r.stdout = ""
        res[job["name"]] = r
    except Exception as ex:  # noqa
        errs.append(ex)


def in_threads(fn, argss, width=GROUPS):
    for b in range(0, len(argss), width):
        th = [threading.Thread(target=fn, args=a) for a in argss[b:b + width]]
        for t in th:
            t.start()
        for t in th:
            t.join()


def probe_excuses(wd, out):
    """the excuses of ReadInvertsRender are keyed on open findings: without them the model must still exhibit the finding"""
    probes = {"F1": ["AttrMap"], "F3": ["BodyValue"], "F12": ["Body_duration"], "F14": ["KO09"], "F15": ["KO11"], "F16": ["KO21"]}
    pres, perr = {}, []
    in_threads(run_gen, [(wd, dict(name="probe" + f, keys=probes[f], scope=0, max_mut=0, mut_depth=0, frames=1), pres, perr, set())
                         for f in sorted(defects()) if f in probes])
    if perr:
        raise perr[0]
    for n, r in sorted(pres.items()):
        if r.ok:
            out.notes.append("model: finding %s is excused in ReadInvertsRender but the model no longer exhibits it" % n[5:])
        else:
            out.add(**{"model_exhibits_" + n[5:]: "TLC: invariant %s violated without the excuse" % r.violated})


# ----------------------------------------------------------------------------- step 2: the real code

def harness(wd, cases, tag, parts=4):
    """run the harness on the cases, split over `parts` processes."""
    n = len(cases)
    parts = max(1, min(parts, n))
    res = [None] * parts
    errs = []

    def work(i):
        try:
            part = cases[i::parts]
            inp = os.path.join(wd, "%s.%d.in.ndjson" % (tag, i))
            outp = os.path.join(wd, "%s.%d.out.ndjson" % (tag, i))
            core.write_ndjson(inp, part)
            core.run_harness(MEMBER, [BIN], stdin_path=inp, stdout_path=outp)
            r = core.read_ndjson(outp)
            if len(r) != len(part):
                raise core.ToolError("harness answered %d of %d cases" % (len(r), len(part)))
            res[i] = r
            os.remove(inp)
            os.remove(outp)
        except Exception as ex:  # noqa
            errs.append(ex)

    in_threads(work, [(i,) for i in range(parts)], width=parts)
    if errs:
        raise errs[0]
    out = [None] * n
    for i in range(parts):
        for j, r in enumerate(res[i]):
            out[i + j * parts] = r
    for c, r in zip(cases, out):
        if r.get("id") != c["id"]:
            raise core.ToolError("harness answers out of order")
        if "tool_error" in r:
            raise core.ToolError("harness: %s (case %s)" % (r["tool_error"], json.dumps(c)[:400]))
    return out


def acc(o):
    return bool(o and o.get("ok"))


def strip(c):
    return {k: v for k, v in c.items() if not k.startswith("_")}


SEQ_STYLES = ("std", "braced")      # the flattened and the nested layout of attribute bodies


def build_cases(docs, schema, job, seed, base):
    cases = []
    for di, d in enumerate(docs):
        if d.get("sess"):
            # frames decoded one after the other by one reused decoder (per reading path)
            sg = Sigma("%d/%s/0" % (seed, d["_h"]))
            frames = d["sess"] + [d["doc"]]
            for st in SEQ_STYLES:
                cases.append({"id": len(cases), "op": "seq", "ty": d["ty"], "texts": [render(f, sg, st) for f in frames],
                              "_doc": di, "_sg": 0, "_style": st})
            continue
        for si in range(job["sigmas"]):
            sg = Sigma("%d/%s/%d" % (seed, d["_h"], si))
            if not d["ops"]:
                x = schema.key(d["ty"], d["inst"], sg)
                cases.append({"id": len(cases), "op": "inst", "ty": d["ty"], "x": x, "_doc": di, "_sg": si})
            seen = set()
            for st in job["styles"]:
                text = render(d["doc"], sg, st)
                if text in seen:
                    continue
                seen.add(text)
                cases.append({"id": len(cases), "op": "doc", "ty": d["ty"], "text": text, "built": built(d["doc"], sg),
                              "_doc": di, "_sg": si, "_style": st})
                if st == "std" and not d["ops"] and text[-1:] in ("}", ")"):
                    # an unbalanced text (not a model value at all): neither path may accept it
                    cases.append({"id": len(cases), "op": "doc", "ty": d["ty"], "text": text[:-1], "_doc": di, "_sg": si, "_style": "cut"})
    return cases


# ----------------------------------------------------------------------------- step 3: the table and the laws

class Ids:
    """value identities within one row (the laws only compare values of the same row)"""

    def __init__(self):
        self.m = {}

    def id(self, j):
        s = canon(j)
        if s not in self.m:
            self.m[s] = len(self.m) + 1
        return self.m[s]


def doc_row(r, isx, x):
    """isx: the text is a printer's output that parses to exactly as_value(x)"""
    ids = Ids()
    vx = ids.id(x) if isx else 0
    p = bool(r.get("parse_ok"))
    d, m, c = acc(r.get("direct")), acc(r.get("via")), acc(r.get("conv"))
    return {"kind": "doc", "p": p, "d": d, "m": m, "c": c,
            "vd": ids.id(r["direct"]["v"]) if d else 0, "vm": ids.id(r["via"]["v"]) if m else 0,
            "vc": ids.id(r["conv"]["v"]) if c else 0, "isx": isx, "vx": vx}


def inst_row(r):
    ids = Ids()
    vx = ids.id(r["x"])
    eq = lambda o: acc(o) and ids.id(o["v"]) == vx
    return {"kind": "inst", "rt": acc(r["rt"]), "rt_eq": eq(r["rt"]), "rtc": acc(r["rtc"]), "rtc_eq": eq(r["rtc"]) and bool(r["into_same"]),
            "mp": acc(r["mp"]), "mp_eq": eq(r["mp"]) and r.get("mp_rest", 0) == 0 and r.get("mp_into_same", True)}


PANIC_INST = {"kind": "inst", "rt": False, "rt_eq": False, "rtc": False, "rtc_eq": False, "mp": False, "mp_eq": False}
PANIC_DOC = {"kind": "doc", "p": True, "d": True, "m": False, "c": False, "vd": 0, "vm": 0, "vc": 0, "isx": False, "vx": 0}
PRINTERS = ("std", "compact", "pretty")


def marker_class(b):
    """the size class of the first MessagePack marker byte"""
    if b is None:
        return ""
    if 0x80 <= b <= 0x8f:
        return "mapfix"
    if 0x90 <= b <= 0x9f:
        return "arrayfix"
    return {0xde: "map16", 0xdf: "map32", 0xdc: "array16", 0xdd: "array32"}.get(b, "other")


def explain_drift(what, ty, detail):
    """Differences between the reference reader M and the real code (on which both real paths agree) that come from what
    M deliberately does not model: it has no arithmetic and no URI syntax.  Everything else counts as model drift."""
    err = json.dumps(detail.get("obs"))
    if ("duration" in ty.lower() or "retry" in ty.lower()) and what.startswith("Read expects accept") and "Number out of range" in err:
        return "Duration: secs + nanos / 10^9 overflows u64 (M has no arithmetic)"
    if ("duration" in ty.lower() or "retry" in ty.lower()) and what == "Read expects another value":
        return "Duration: nanos >= 10^9 are carried into secs (M has no arithmetic)"
    if ty.endswith("_uri") and what.startswith("Read expects accept") and "URI" in err:
        return "RouteUri: the pooled string is not a valid route URI (M does not model URI syntax)"
    return None


class Table:
    """the observation table: rows go to chunk files for TLC; per row only what is needed to report it is kept"""

    def __init__(self, wd):
        self.wd = wd
        self.n = 0
        self.chunks = []          # (path, first id, count)
        self.buf = []
        self.info = []            # per row: (kind, ty, subject, printer index / style, ops)
        self.drift = []
        self.drift_n = collections.Counter()
        self.drift_explained = collections.Counter()
        self.stats = collections.Counter()
        self.unfaithful = {}
        self.nontrivial = set()
        self.last_op = collections.Counter()
        self.bridge_types = collections.Counter()
        self.samples = {}

    def add(self, row, inf):
        self.n += 1
        row["id"] = self.n
        self.buf.append(row)
        self.info.append(inf)
        if len(self.buf) >= CHUNK:
            self.flush()

    def flush(self):
        if self.buf:
            p = os.path.join(self.wd, "table%d.ndjson" % len(self.chunks))
            core.write_ndjson(p, self.buf)
            self.chunks.append((p, self.buf[0]["id"], len(self.buf)))
            self.buf = []

    def note_drift(self, what, ty, detail):
        why = explain_drift(what, ty, detail)
        if why:
            self.drift_explained[why] += 1
            return
        self.drift_n[(what, ty)] += 1
        if len(self.drift) < 300:
            detail.update({"what": what, "ty": ty})
            self.drift.append(detail)

    def digest(self, *parts):
        return hashlib.md5("\x00".join(parts).encode()).digest()

    def add_batch(self, docs, schema, cases, results, seed):
        st = self.stats
        for d in docs:
            self.last_op["Commit" if d.get("sess") else (d["ops"][-1] if d["ops"] else "Pick")] += 1
        for c, r in zip(cases, results):
            if c["op"] == "seq":
                self.add_seq(docs[c["_doc"]], schema, c, r, seed)
                continue
            d = docs[c["_doc"]]
            ty = c["ty"]
            ops = tuple(d["ops"])
            sg = Sigma("%d/%s/%d" % (seed, d["_h"], c["_sg"]))
            if r.get("panic"):
                st["panics"] += 1
                self.add(dict(PANIC_INST if c["op"] == "inst" else PANIC_DOC),
                         (c["op"], ty, c["x"] if c["op"] == "inst" else c["text"], "PANIC " + str(r["panic"]), ops))
                continue
            if c["op"] == "inst":
                x = r["x"]
                self.add(inst_row(r), ("inst", ty, c["x"], None, ops))
                self.nontrivial.add(self.digest("inst", ty, canon(c["x"])))
                st["inst_rows"] += 1
                if ty not in self.samples or ty == "HdrBoth":
                    self.samples[ty] = {"type": ty, "instance": c["x"], "as_value": r["asv"]}
                # M: the reference writer against as_value
                if canon(norm_model(r["asv"])) != canon(norm_model(built(d["doc"], sg))):
                    self.note_drift("Render != as_value", ty, {"x": x, "as_value": r["asv"], "render": built(d["doc"], sg)})
                tb = r.get("typed_bridge")
                if tb is not None and not (acc(tb) and canon(tb["v"]) == canon(x) and canon(r.get("typed_bridge_into")) == canon(tb)):
                    st["typed_value_through_bridge_differs"] += 1
                    self.bridge_types[ty] += 1
                mk_exp, mk_obs = d.get("marker", ""), marker_class(r.get("mp_first"))
                if mk_exp:
                    st["msgpack_body_marker:" + mk_exp] += 1
                    if mk_obs != mk_exp:
                        self.note_drift("MessagePack body marker: model %s, writer %s" % (mk_exp, mk_obs), ty, {"x": x})
                if not r.get("print_model_same", True):
                    st["typed_print_differs_from_model_print"] += 1
                mm = r.get("mp_as_model")
                if mm is not None and not (mm.get("ok") and mm.get("eq")):
                    st["msgpack_of_typed_value_is_not_the_model"] += 1
                # the printers' outputs: document rows that must read back as x on both paths
                for pi, pr in enumerate(r["printed"]):
                    faithful = bool(pr.get("val_is_asv"))
                    if not faithful:
                        st["printer_output_not_the_model"] += 1
                        self.unfaithful.setdefault(ty, {"ty": ty, "x": x, "printer": PRINTERS[pi], "text": pr["text"]})
                    self.add(doc_row(pr, faithful, x), ("printed", ty, c["x"], pi, ops))
                    if pr.get("parse_ok"):
                        self.nontrivial.add(self.digest("doc", ty, pr["text"]))
                    st["printed_rows"] += 1
                continue
            row = doc_row(r, False, None)
            faithful = bool(r.get("built_is_parsed"))
            self.add(row, ("doc", ty, c["text"], c["_style"], ops))
            if row["p"]:
                self.nontrivial.add(self.digest("doc", ty, c["text"]))
            st["doc_rows"] += 1
            st["faithful_rendering" if faithful else "unfaithful_rendering"] += 1
            agree = row["d"] == row["m"] and (not row["d"] or row["vd"] == row["vm"])
            if ops and row["p"] and agree and len(self.samples) < 400:
                self.samples.setdefault((ty, row["d"]), {"type": ty, "mutation": list(ops), "text": c["text"], "direct_accepts": row["d"],
                                                         "via_model_accepts": row["m"], "same_value": True})
            # the bridge fed from the value built without any text
            if faithful and (acc(r["built"]) != row["m"] or (row["m"] and canon(r["built"]["v"]) != canon(r["via"]["v"]))):
                self.note_drift("try_from_value(built) != try_from_value(parsed)", ty, {"text": c["text"]})
            # M: the reference reader (models the path through the model value)
            if faithful and agree:
                exp = d["exp"]
                if exp["ok"] != row["m"]:
                    self.note_drift("Read expects %s, both real paths %s" % ("accept" if exp["ok"] else "reject", "accept" if row["m"] else "reject"),
                                    ty, {"text": c["text"], "ops": list(ops), "obs": r.get("via"), "doc": d["doc"]})
                elif exp["ok"] and '"any"' in canon(exp["x"]):
                    st["reference_reader_leaves_the_value_unspecified"] += 1
                elif exp["ok"]:
                    ex = schema.key(ty, exp["x"], sg)
                    if canon(ex) != canon(r["via"]["v"]):
                        self.note_drift("Read expects another value", ty, {"text": c["text"], "ops": list(ops), "expected": ex, "obs": r["via"].get("v")})
                    else:
                        st["reference_reader_confirmed_accept"] += 1
                else:
                    st["reference_reader_confirmed_reject"] += 1
            # the third source of events (informative): MessagePack of the parsed value
            if row["p"] and (acc(r.get("mp")) != row["m"] or (row["m"] and canon(r["mp"]["v"]) != canon(r["via"]["v"]))):
                st["msgpack_reader_differs_from_bridge"] += 1


def _add_seq(self, d, schema, c, r, seed):
    """one row per frame: d = the decoder reused for every frame of the sequence, m = the model decoder reused likewise"""
    st = self.stats
    ty = c["ty"]
    sg = Sigma("%d/%s/0" % (seed, d["_h"]))
    if r.get("panic"):
        st["panics"] += 1
        self.add(dict(PANIC_DOC), ("seq", ty, (c["texts"], len(c["texts"]) - 1), "PANIC " + str(r["panic"]), ()))
        return
    st["frame_sequences"] += 1
    exps = d["exps"] + [d["exp"]]
    for fi, fr in enumerate(r["frames"]):
        row = doc_row(fr, False, None)
        self.add(row, ("seq", ty, (c["texts"], fi), c["_style"], tuple(d["ops"]) if fi == len(d["sess"]) else ()))
        st["frame_rows"] += 1
        if fi > 0:
            st["frames_on_a_reused_decoder"] += 1
            if row["p"]:
                self.nontrivial.add(self.digest("seq", ty, "\x01".join(c["texts"][:fi + 1])))
        agree = row["d"] == row["m"] and (not row["d"] or row["vd"] == row["vm"])
        # informative: the reused decoder against a fresh recognizer, and M (which has no memory)
        fresh = fr.get("fresh")
        if acc(fresh) != row["d"] or (row["d"] and canon(fresh["v"]) != canon(fr["direct"]["v"])):
            st["reused_decoder_differs_from_fresh_recognizer"] += 1
        if agree and row["p"] and c["_style"] == "std":
            exp = exps[fi]
            if exp["ok"] != row["m"]:
                # (renderings that are not faithful are already counted on the single documents)
                st["frame_differs_from_reference_reader"] += 1
            elif exp["ok"] and '"any"' not in canon(exp["x"]) and canon(schema.key(ty, exp["x"], sg)) != canon(fr["via"]["v"]):
                st["frame_differs_from_reference_reader"] += 1


Table.add_seq = _add_seq


def evaluate(wd, chunks):
    """TLC evaluates the laws on every row (one JVM per chunk, at most 4 at a time)."""
    res = [None] * len(chunks)
    errs = []

    def work(i):
        try:
            d = os.path.join(wd, "laws%d" % i)
            c = core.cfg(constants={"Scope": 0, "Defects": tla_set([])}, invariants=["TypeOK"], postcondition="Report")
            r = core.run_tlc("MC_FormDoc", c, d, workers=1, depth_first=True, env={"TABLE": chunks[i][0]}, timeout=1500, xmx="8g",
                             coverage=True)
            res[i] = r
        except Exception as ex:  # noqa
            errs.append(ex)

    in_threads(work, [(i,) for i in range(len(chunks))])
    if errs:
        raise errs[0]
    failed, tot = [], collections.Counter()
    cov = {}
    for i, r in enumerate(res):
        rep = r.tagged.get("LAW_RESULT")
        if not rep:
            raise core.ToolError("MC_FormDoc printed no LAW_RESULT:\n%s" % r.stdout[-3000:])
        rep = rep[-1]
        if rep["rows"] != chunks[i][2]:
            raise core.ToolError("MC_FormDoc evaluated %s of %s rows" % (rep["rows"], chunks[i][2]))
        failed += rep["failed"]
        for kk in ("rows", "inst", "doc", "unparsed", "both_accept", "both_reject"):
            tot[kk] += rep[kk]
        tot["states"] += r.distinct
        tot["transitions"] += r.generated
        for a, (dd, t) in r.coverage.items():
            o = cov.get(a, (0, 0))
            cov[a] = (o[0] + dd, o[1] + t)
        tot["wall"] = max(tot["wall"], r.wall)
    return failed, tot, cov


# ----------------------------------------------------------------------------- known findings

def kf_match(f, law, kind, ty, subject, bits):
    """A finding's signature is a list of clauses {"law", "op": inst|doc|printed|seq, "cases": {type: regex}, "direct"?, "via"?}: the regex
    is searched in the Recon text (doc rows) or in the canonical serde json of the instance (inst rows, and printed rows = the
    texts the printers produced for an instance); direct / via are the acceptance bits of the two reading paths that must have
    been observed."""
    for sig in f["signature"]:
        pattern = sig["cases"].get(ty, sig["cases"].get("*"))      # "*": any battery type
        if pattern is None:                                          # "K*": any battery type whose key starts with K
            pattern = next((v for k, v in sig["cases"].items() if k.endswith("*") and len(k) > 1 and ty.startswith(k[:-1])), None)
        if sig["law"] != law or sig["op"] != kind or pattern is None:
            continue
        # a panic of the code under test is only ever covered by a clause that names it
        if ("panic" in sig) != ("panic" in bits) or ("panic" in sig and sig["panic"] not in bits["panic"]):
            continue
        if re.search(pattern, subject, re.S) is None:
            continue
        if "direct" in sig and bits.get("d") != sig["direct"]:
            continue
        if "via" in sig and bits.get("m") != sig["via"]:
            continue
        if "prev_rejected" in sig and bits.get("prev_rejected") != sig["prev_rejected"]:   # an earlier frame on the same decoder
            continue
        return True
    return False


# ----------------------------------------------------------------------------- driver

def run(tier, out):
    wd = core.workdir(PROP)
    sync_generated()
    core.build_harness(MEMBER, BIN)
    seed = core.seed()
    mk = model_keys(wd)
    jobs = plan(tier, mk)
    res, errs = {}, []
    table = Table(wd)
    seen = set()
    schema = None
    gst = collections.Counter()
    gwall = 0.0
    probe_excuses(wd, out)
    for b in range(0, len(jobs), GROUPS):
        batch = jobs[b:b + GROUPS]
        in_threads(run_gen, [(wd, j, res, errs) for j in batch])
        if errs:
            raise errs[0]
        bw = 0.0
        for j in batch:
            r = res.pop(j["name"])
            if not r.ok:
                raise core.ToolError("the document model violates its own invariant %s (%s):\n%s" % (r.violated, j["name"], r.counterexample[:3000]))
            if schema is None:
                schema = Schema(json.loads(r.tagged["SCHEMA"][0]))
            gst["states"] += r.distinct
            gst["generated"] += r.generated
            bw = max(bw, r.wall)
            raw = r.tagged["DOC"]
            r.tagged = None
            # in pieces, so that memory stays bounded
            for lo in range(0, len(raw), 40000):
                docs = []
                for s in raw[lo:lo + 40000]:
                    d = json.loads(s)
                    h = hashlib.md5((d["ty"] + "\x00" + canon(d["doc"]) + "\x00" + (canon(d["inst"]) if not d["ops"] and not d.get("sess") else "")
                                     + "\x00" + (canon(d["sess"]) if d.get("sess") else "")).encode()).digest()
                    if h in seen:
                        continue
                    seen.add(h)
                    d["_h"] = h.hex()[:12]
                    docs.append(d)
                if not docs:
                    continue
                t0 = time.time()
                cases = build_cases(docs, schema, j, seed, table.n)
                t1 = time.time()
                results = harness(wd, [strip(c) for c in cases], "cases")
                t2 = time.time()
                table.add_batch(docs, schema, cases, results, seed)
                gst["t_render"] += t1 - t0
                gst["t_harness"] += t2 - t1
                gst["t_rows"] += time.time() - t2
                gst["documents"] += len(docs)
            raw = None
        gwall += bw
    table.flush()
    core.log("[C16] TLC generated %d distinct (type, document) pairs from %d states (generation wall %.1fs)" % (gst["documents"], gst["states"], gwall))
    failed, tot, cov = evaluate(wd, table.chunks)
    core.log("[C16] %d rows (%d instances, %d documents; %d accepted by both paths, %d rejected by both); laws broken on %d rows; drift %d" % (
        tot["rows"], tot["inst"], tot["doc"], tot["both_accept"], tot["both_reject"], len(failed), sum(table.drift_n.values())))
    gst["wall"] = gwall
    core.log("[C16] wall: generation %.0fs, rendering %.0fs, harness %.0fs, table %.0fs" % (gwall, gst["t_render"], gst["t_harness"], gst["t_rows"]))
    report(out, tier, jobs, table, failed, tot, cov, gst, wd)


def observe(wd, kind, ty, subject, extra):
    """re-run one reported row to get the full observation"""
    if kind == "doc":
        case = {"id": 0, "op": "doc", "ty": ty, "text": subject}
        return case, harness(wd, [case], "obs", parts=1)[0]
    if kind == "seq":
        case = {"id": 0, "op": "seq", "ty": ty, "texts": subject[0]}
        r = harness(wd, [case], "obs", parts=1)[0]
        return case, (r["frames"][subject[1]] if "frames" in r else r)
    case = {"id": 0, "op": "inst", "ty": ty, "x": subject}
    r = harness(wd, [case], "obs", parts=1)[0]
    if kind == "printed" and "printed" in r:
        pr = r["printed"][extra]
        return case, {"printer": PRINTERS[extra], "text": pr.get("text"), "direct": pr.get("direct"), "via": pr.get("via"), "conv": pr.get("conv"),
                      "parse_ok": pr.get("parse_ok")}
    return case, {kk: r.get(kk) for kk in ("rt", "rtc", "mp", "into_same", "asv", "panic")}


def report(out, tier, jobs, table, failed, tot, cov, gst, wd):
    findings = core.open_findings(PROP)
    hit = collections.Counter()
    per_sig = {}
    rows_by_id = {}
    # the failing rows' bits: re-read from the chunk files
    want = {f["id"] for f in failed}
    for f in failed:      # and the earlier frames of the same sequence (the rows just before)
        inf = table.info[f["id"] - 1]
        if inf[0] == "seq":
            want |= {f["id"] - k for k in range(1, inf[2][1] + 1)}
    if want:
        for p, first, cnt in table.chunks:
            if any(first <= i < first + cnt for i in want):
                for row in core.read_ndjson(p):
                    if row["id"] in want:
                        rows_by_id[row["id"]] = row
    fail_log = []
    reported = 0
    for f in failed:
        kind, ty, subject, extra, ops = table.info[f["id"] - 1]
        row = rows_by_id[f["id"]]
        laws = f["laws"]
        panic = isinstance(extra, str) and extra.startswith("PANIC")
        if panic:
            row = dict(row, panic=extra)
        if kind == "seq":
            # a frame of a sequence is a document: the same signatures apply to its text
            # (clauses with op "seq" apply to the 2nd and later frames only: a recognizer that has been reset)
            subj, mkinds = subject[0][subject[1]], (("seq", "doc") if subject[1] > 0 else ("doc",))
            if subject[1] > 0:
                # was a frame decoded earlier on the same decoder rejected by the direct path?
                row = dict(row, prev_rejected=any(not rows_by_id[f["id"] - k]["d"] for k in range(1, subject[1] + 1)))
        else:
            subj, mkinds = (subject if kind == "doc" else canon(subject)), (kind,)
        covering = [next((kf for kf in findings if any(kf_match(kf, law, mk, ty, subj, row) for mk in mkinds)), None) for law in laws]
        fail_log.append({"laws": laws, "kind": kind, "ty": ty, "subject": subject, "ops": list(ops), "row": row,
                         "known": [k["id"] if k else None for k in covering]})
        if all(k is not None for k in covering):
            for k in {k["id"]: k for k in covering}.values():
                hit[k["id"]] += 1
                per_sig.setdefault(k["id"], k)
            continue
        laws = [law for law, k in zip(laws, covering) if k is None]
        reported += 1
        if reported > 200:
            out.violations.append(("(further broken rows not written as replay files)", "(see %s)" % os.path.join(wd, "failed.json")))
            break
        case, obs = observe(wd, kind, ty, subject, extra if not panic else 0)
        what = "law %s broken for type %s on %s" % ("+".join(laws), ty, ("text %r" % subject) if kind == "doc" else
                                                   ("frame %d of the sequence %r decoded by one reused decoder" % (subject[1] + 1, subject[0])) if kind == "seq" else
                                                   ("instance %s%s" % (subj, " printed by print_recon%s" % ("", "_compact", "_pretty")[extra] if kind == "printed" else "")))
        what += (" " + extra) if panic else (" observed " + json.dumps(obs)[:600])
        out.violation(what, {"case": case, "laws": laws, "row": row, "observed": obs, "mutation": list(ops)})
    with open(os.path.join(wd, "failed.json"), "w") as fh:
        json.dump(fail_log, fh, indent=1)
    for kid, n in sorted(hit.items()):
        out.known_finding("%s (%d rows): %s" % (kid, n, per_sig[kid]["what"]))
    # model drift (notes only)
    with open(os.path.join(wd, "drift.json"), "w") as fh:
        json.dump(table.drift, fh, indent=1)
    for d in table.drift[:3]:
        out.notes.append("MODEL-DRIFT " + json.dumps(d)[:500])
    if table.unfaithful:
        # parse(print(x)) != as_value(x): a printer / parser matter (property C09), recorded but not demanded here
        out.notes.append("PRINT-NOT-FAITHFUL (C09 matter, no C16 law demands it): %d printer outputs do not parse to as_value(x); one per type: %s" % (
            table.stats["printer_output_not_the_model"], json.dumps(list(table.unfaithful.values()))[:1500]))
    never = sorted(set(MUT_OPS) - set(table.last_op))
    out.add(evaluations=table.n, distinct_nontrivial=len(table.nontrivial),
            rule="TLC enumerates battery type x instance (small scope) x mutation operator(s) from FormDoc.tla; each distinct (type, document) is "
                 "concretised from seeded boundary pools and rendered in up to %d Recon styles; one evaluation = one row of observations of the real "
                 "code on which TLC evaluates the laws.  distinct_nontrivial = distinct typed instances + distinct (type, text) pairs that parse as a model "
                 "value (so that both reading paths really ran), counted by hashing" % len(ALL_STYLES),
            battery_types=len(model_keys(wd)["all"]), documents=gst["documents"],
            gen_jobs=[{kk: (list(v) if isinstance(v, tuple) else v) for kk, v in j.items()} for j in jobs],
            gen_states=gst["states"], gen_transitions=gst["generated"], gen_wall_s=round(gst["wall"], 1),
            law_states=tot["states"], law_transitions=tot["transitions"], law_wall_s=round(tot["wall"], 1),
            law_action_coverage={a: {"distinct": d, "taken": t} for a, (d, t) in cov.items()},
            documents_per_last_operator=dict(table.last_op), actions_never_taken=never,
            rows_instance=tot["inst"], rows_document=tot["doc"], accepted_by_both=tot["both_accept"], rejected_by_both=tot["both_reject"],
            unparseable_texts=tot["unparsed"], laws_broken_rows=len(failed), known_finding_rows=sum(hit.values()),
            model_drift_explained=dict(table.drift_explained),
            model_drift=sum(table.drift_n.values()), model_drift_kinds={"%s [%s]" % k: n for k, n in table.drift_n.most_common(12)},
            harness_stats=dict(table.stats), typed_value_through_bridge_differs_by_type=dict(table.bridge_types),
            checker_cmd="tlc Gen_FormDoc (INVARIANTS %s) + h_core form + tlc MC_FormDoc (laws of FormDoc.tla section 7)" % " ".join(GEN_INVS))
    picks = [("HdrBoth", True), ("Shape", False), ("BodyNest", True), ("TwoAttrs", False)]
    for k in picks:
        if k in table.samples:
            out.sample(table.samples[k])
    if "HdrBoth" in table.samples:
        out.sample(table.samples["HdrBoth"])
    if not out.cov["samples"]:
        for k, v in list(table.samples.items())[:3]:
            out.sample(v)
    out.assumptions += ["serde_json renderings of the typed values are injective (used as value identity)",
                        "the Recon parser's Value output for a text is the 'model' of that text (C09 covers the parser itself)",
                        "scope: instances and mutations at small scope from FormDoc.tla; leaves from fixed boundary pools"]


def replay(path, out):
    wd = core.workdir(PROP + "_replay")
    core.build_harness(MEMBER, BIN)
    obj = json.load(open(path))["replay"]
    case = dict(obj["case"])
    case["id"] = 0
    r = harness(wd, [case], "replay", parts=1)[0]
    print("case:", json.dumps(case)[:2000])
    print("observed:", json.dumps(r)[:4000])
    if r.get("panic"):
        print("VIOLATION property=%s replay=%s" % (PROP, path))
        return 1
    rows = []
    if case["op"] == "inst":
        rows.append(inst_row(r))
        for pr in r["printed"]:
            rows.append(doc_row(pr, bool(pr.get("val_is_asv")), r["x"]))
    elif case["op"] == "seq":
        rows += [doc_row(fr, False, None) for fr in r["frames"]]
    else:
        rows.append(doc_row(r, False, None))
    for i, row in enumerate(rows):
        row["id"] = i + 1
    tp = os.path.join(wd, "table0.ndjson")
    core.write_ndjson(tp, rows)
    failed, tot, cov = evaluate(wd, [(tp, 1, len(rows))])
    print("laws broken:", json.dumps(failed))
    if failed:
        print("VIOLATION property=%s replay=%s" % (PROP, path))
        return 1
    return 0

"""C16 - Form: the typed, the model and the wire representation of a value agree.

Level: exploration (TLC-generated cases from an explicit TLA+ data model; laws evaluated by TLC).

 1. TLC enumerates specs/Gen_FormDoc.tla: battery type x instance (small scope) x abstract mutation
    operator (drop / duplicate / reorder field, wrong tag, extra attribute, wrong kind, ...), checks the
    model's own invariants (Read inverts Render, ...) and prints every distinct (type, document) with
    what the reference reader (M) expects.
 2. This module concretises the abstract leaves from boundary pools (seeded), renders every document
    as Recon text in several styles, and has the harness (h_core/src/bin/form.rs) run the REAL code:
    as_value / into_value / try_from_value / try_convert, the three Recon printers, both reading
    paths (parse_recognize::<T> and parse -> Value -> try_from_value), MessagePack write / read.
 3. The observations are written as a table; TLC (specs/MC_FormDoc.tla) evaluates the laws of the
    property (FormDoc.tla section 7) on every row.  A row that breaks a law is a VIOLATION unless it
    matches an open known finding.  A row on which both real reading paths agree with each other but
    not with the reference reader is MODEL-DRIFT (a note).
"""
import json, os, random, hashlib, threading, decimal, re, collections
from vlib import core

LEVEL = "exploration"
PROP = "C16"
MEMBER, BIN = "h_core", "form"

# ----------------------------------------------------------------------------- configuration

GROUPS = 4


def tier_cfg(tier):
    if tier == "quick":
        return dict(scope=0, max_mut=1, mut_depth=2, sigmas=1, styles=("std", "braced", "ws", "parens", "bare"), chunk=60000)
    return dict(scope=1, max_mut=2, mut_depth=2, sigmas=2, styles=("std", "braced", "ws", "parens", "bare"), chunk=150000,
                two_level_keys=THOROUGH_TWO_LEVEL)


# second-order mutants only for the types where the interplay of operators is interesting (cost)
THOROUGH_TWO_LEVEL = ["Two", "Tup", "Renamed", "WithAttr", "TwoAttrs", "HdrBody", "HdrSlots", "HdrOpt", "HdrBoth", "HdrVec",
                      "HdrNest", "BodyVec", "BodyStr", "BodyNest", "Opt", "TagField", "Shape", "OpSI", "ConvEnum", "NewT",
                      "WithValue", "BodyValue", "HdrValue", "OptI", "PairIS", "VecOptI", "Skippy", "SkipTup"]

# ----------------------------------------------------------------------------- concretisation pools

POOLS = {
    "i": [0, 1, 7, 42, 2147483647, 65535],
    "n": [-1, -2147483648, -17],
    "g": [4294967296, 9223372036854775807, 1099511627776],
    "f": [0.5, -2.25, 1e-7, 123456.789],
    "b": [True, False],
    "s": ["pooled", "hello world", "", "true", "@at", "é ñ", "q\"uo\\te", "line\nbreak", "1x", "-", "k v"],
}


class Sigma:
    """An injective assignment of concrete values to the leaf symbols (per class a seeded permutation)."""

    def __init__(self, seed):
        rng = random.Random(seed)
        self.perm = {}
        for c, pool in POOLS.items():
            p = list(pool)
            rng.shuffle(p)
            self.perm[c] = p

    def leaf(self, v):
        c = v["k"]
        if c == "x":
            return None
        if c == "t":
            return v["s"]
        return self.perm[c][int(v["s"])]


def fmt_float(x):
    s = format(decimal.Decimal(repr(x)), "f")
    return s if "." in s else s + ".0"


_IDENT = re.compile(r"^[A-Za-z_][A-Za-z0-9_\-]*$")


def fmt_text(s):
    if _IDENT.match(s) and s not in ("true", "false"):
        return s
    out = ['"']
    for ch in s:
        if ch == '"':
            out.append('\\"')
        elif ch == "\\":
            out.append("\\\\")
        elif ch == "\n":
            out.append("\\n")
        elif ch == "\t":
            out.append("\\t")
        elif ch == "\r":
            out.append("\\r")
        elif ord(ch) < 0x20:
            out.append("\\u%04x" % ord(ch))
        else:
            out.append(ch)
    out.append('"')
    return "".join(out)


# ----------------------------------------------------------------------------- abstract value -> Recon text / model json

def leaf_text(v, sg):
    c = v["k"]
    x = sg.leaf(v)
    if c == "x":
        return ""
    if c in ("i", "n", "g"):
        return str(x)
    if c == "f":
        return fmt_float(x)
    if c == "b":
        return "true" if x else "false"
    return fmt_text(x)


def render(v, sg, style, top=True):
    """Recon text of an abstract model value.  Styles differ in the concrete syntax only: all of them
    denote the same model value (checked: the harness reports whether the text parses to `built`)."""
    sep = {"ws": " ;\n "}.get(style, ",")
    if v["k"] != "rec":
        return leaf_text(v, sg)
    attrs, items = v["attrs"], v["items"]
    out = []
    for a in attrs:
        out.append("@" + fmt_text(a["n"]) + attr_body(a["v"], sg, style))
    body = sep.join(item_text(it, sg, style) for it in items)
    if not attrs:
        return ("{ %s }" if style == "ws" else "{%s}") % body
    if not items:
        return (" " if style == "ws" else "").join(out)
    if style == "bare" and top and len(items) == 1 and not items[0]["slot"] and items[0]["v"]["k"] not in ("rec", "x"):
        return "".join(out) + " " + body
    return (" " if style == "ws" else "").join(out) + ((" { %s }" if style == "ws" else "{%s}") % body)


def item_text(it, sg, style):
    if it["slot"]:
        colon = " : " if style == "ws" else ":"
        return render(it["key"], sg, style, False) + colon + render(it["v"], sg, style, False)
    return render(it["v"], sg, style, False)


def attr_body(v, sg, style):
    if v["k"] == "x":
        return "()" if style == "parens" else ""
    if v["k"] == "rec" and not v["attrs"]:
        items = v["items"]
        single_value = len(items) == 1 and not items[0]["slot"]
        if not items or single_value or style == "braced":
            # explicit braces (required to keep { } and {v} apart from () and (v))
            return "(" + render(v, sg, style, False) + ")"
        sep = {"ws": " , "}.get(style, ",")
        return "(" + sep.join(item_text(it, sg, style) for it in items) + ")"
    return "(" + render(v, sg, style, False) + ")"


def built(v, sg):
    """The model value in the harness encoding, with the numeric kinds the Recon parser produces."""
    c = v["k"]
    if c == "rec":
        return {"k": "rec", "attrs": [{"n": a["n"], "v": built(a["v"], sg)} for a in v["attrs"]],
                "items": [({"key": built(it["key"], sg), "v": built(it["v"], sg)} if it["slot"] else {"v": built(it["v"], sg)})
                          for it in v["items"]]}
    x = sg.leaf(v)
    if c == "x":
        return {"k": "extant"}
    if c in ("i", "n"):
        return {"k": "i32", "v": x}
    if c == "g":
        return {"k": "i64", "v": x}
    if c == "f":
        return {"k": "f64", "v": x}
    if c == "b":
        return {"k": "bool", "v": x}
    return {"k": "text", "v": x}


# ----------------------------------------------------------------------------- abstract instance -> serde json of the typed value

class Schema:
    def __init__(self, table):
        self.t = table

    def ty(self, t, x, sg):
        c = t["c"]
        if c == "prim":
            p = t["p"]
            if p == "value":
                return built(x, sg)
            v = sg.leaf(x)
            if p == "f64":
                return float(v)
            return v
        if c == "opt":
            return None if x["k"] == "none" else self.ty(t["e"], x["v"][0], sg)
        if c == "vec":
            return [self.ty(t["e"], e, sg) for e in x["v"]]
        if c == "tuple":
            return [self.ty(t["es"][i], e, sg) for i, e in enumerate(x["v"])]
        if c == "map":
            out = {}
            for k, v in x["v"]:
                kk = self.ty(t["key"], k, sg)
                out[kk if isinstance(kk, str) else json.dumps(kk)] = self.ty(t["val"], v, sg)
            return out
        if c == "named":
            return self.desc(self.t[t["n"]], x, sg)
        raise core.ToolError("type %r" % t)

    def fields(self, shape, fields, xs, sg):
        live = [f for f in fields if f["role"] != "skip"]
        vals = [self.ty(f["ty"], x, sg) for f, x in zip(live, xs)]
        if shape == "unit":
            return None
        if shape == "named":
            return {f["rust"]: v for f, v in zip(live, vals)}
        if shape == "newtype":
            return vals[0]
        return vals

    def desc(self, D, x, sg):
        k = D["kind"]
        if k == "struct":
            return self.fields(D["shape"], D["fields"], x["v"], sg)
        if k == "enum":
            V = D["variants"][x["var"] - 1]
            if V["shape"] == "unit":
                return V["vname"]
            return {V["vname"]: self.fields(V["shape"], V["fields"], x["v"], sg)}
        if k == "newtype":
            inner = self.ty(D["field"]["ty"], x["v"][0], sg)
            return inner if D["shape"] == "newtype" else {D["field"]["rust"]: inner}
        return self.ty(D["ty"], x, sg)

    def key(self, key, x, sg):
        return self.desc(self.t[key], x, sg)


def canon(j):
    return json.dumps(j, sort_keys=True, separators=(",", ":"))


def norm_model(j):
    """model json modulo integer kind and the order of slot-only bodies (HashMap iteration order)."""
    if j["k"] in ("i32", "i64", "u32", "u64"):
        return {"k": "int", "v": j["v"]}
    if j["k"] == "f64":
        return {"k": "f64", "v": float(j["v"])}
    if j["k"] != "rec":
        return j
    items = [({"key": norm_model(i["key"]), "v": norm_model(i["v"])} if "key" in i else {"v": norm_model(i["v"])}) for i in j.get("items", [])]
    if items and all("key" in i for i in items):
        items.sort(key=canon)
    return {"k": "rec", "attrs": [{"n": a["n"], "v": norm_model(a["v"])} for a in j.get("attrs", [])], "items": items}


# ----------------------------------------------------------------------------- step 1: generation by TLC

def all_keys():
    s = open(os.path.join(core.SPECS, "FormDoc.tla")).read()
    m = re.search(r"AllKeys == \{(.*?)\}", s, re.S)
    return re.findall(r'"([^"]+)"', m.group(1))


GEN_INVS = ["WellFormed", "ReadInvertsRender", "WrongTagRejected", "Emit"]


def defects():
    """the open findings the mechanism model mirrors / excuses: C16-F1 -> "F1" """
    return {f["id"].split("-")[-1] for f in core.open_findings(PROP)}


def tla_set(xs):
    return core.Raw("{" + ", ".join('"%s"' % x for x in sorted(xs)) + "}")


def run_gen(wd, name, keys, scope, max_mut, mut_depth, res, errs, excused=None):
    try:
        c = core.cfg(constants={"Scope": scope, "Defects": tla_set(defects()), "Excused": tla_set(defects() if excused is None else excused),
                                "Keys": set(keys), "MaxMut": max_mut, "MutDepth": mut_depth},
                     invariants=GEN_INVS, view="View")
        # -coverage makes TLC pathologically slow on the recursive operators of this module: off; the
        # per-operator statistics are computed from the DOC lines instead
        r = core.run_tlc("Gen_FormDoc", c, os.path.join(wd, name), workers=1, coverage=False, timeout=1500, xmx="6g")
        res[name] = r
    except Exception as ex:  # noqa
        errs.append(ex)


def generate(wd, tier, out):
    k = tier_cfg(tier)
    keys = all_keys()
    jobs = []
    per = (len(keys) + GROUPS - 1) // GROUPS
    # interleave so that the heavy types are spread over the groups
    for g in range(GROUPS):
        jobs.append(("gen%d" % g, keys[g::GROUPS], k["max_mut"] if tier == "quick" else 1))
    if tier != "quick":
        two = k["two_level_keys"]
        for g in range(GROUPS):
            jobs.append(("gen2_%d" % g, two[g::GROUPS], 2))
    res, errs = {}, []
    pending = list(jobs)
    while pending:
        batch, pending = pending[:GROUPS], pending[GROUPS:]
        th = [threading.Thread(target=run_gen, args=(wd, n, ks, k["scope"], mm, k["mut_depth"], res, errs)) for n, ks, mm in batch]
        for t in th:
            t.start()
        for t in th:
            t.join()
    if errs:
        raise errs[0]
    # the excuses are keyed on open findings: without them the model must still exhibit the finding
    probes = {"F1": ["AttrMap"], "F3": ["BodyValue"]}
    pres, perr = {}, []
    th = [threading.Thread(target=run_gen, args=(wd, "probe" + f, probes[f], k["scope"], 0, 0, pres, perr, set()))
          for f in sorted(defects()) if f in probes]
    for t in th:
        t.start()
    for t in th:
        t.join()
    if perr:
        raise perr[0]
    for n, r in pres.items():
        if r.ok:
            out.notes.append("model: finding %s is excused in ReadInvertsRender but the model no longer exhibits it" % n[5:])
        else:
            out.add(**{"model_exhibits_" + n[5:]: "TLC: invariant %s violated without the excuse" % r.violated})
    docs, schema = {}, None
    stats = dict(states=0, generated=0, wall=0.0)
    for n, ks, mm in jobs:
        r = res[n]
        if not r.ok:
            raise core.ToolError("the document model violates its own invariant %s (%s):\n%s" % (r.violated, n, r.counterexample[:3000]))
        schema = schema or r.tagged["SCHEMA"][0]
        stats["states"] += r.distinct
        stats["generated"] += r.generated
        stats["wall"] = max(stats["wall"], r.wall)
        for d in r.tagged["DOC"]:
            key = (d["ty"], canon(d["doc"]), canon(d["inst"]) if not d["ops"] else "")
            if key not in docs or len(d["ops"]) < len(docs[key]["ops"]):
                docs[key] = d
    return list(docs.values()), Schema(schema), stats


# ----------------------------------------------------------------------------- step 2: the real code

def harness(wd, cases, tag, parts=4):
    """run the harness on the cases, split over `parts` processes."""
    n = len(cases)
    res = [None] * parts
    errs = []

    def work(i):
        try:
            part = cases[i::parts]
            inp = os.path.join(wd, "%s.%d.in.ndjson" % (tag, i))
            outp = os.path.join(wd, "%s.%d.out.ndjson" % (tag, i))
            core.write_ndjson(inp, part)
            core.run_harness(MEMBER, [BIN], stdin_path=inp, stdout_path=outp)
            r = core.read_ndjson(outp)
            if len(r) != len(part):
                raise core.ToolError("harness answered %d of %d cases" % (len(r), len(part)))
            res[i] = r
        except Exception as ex:  # noqa
            errs.append(ex)

    th = [threading.Thread(target=work, args=(i,)) for i in range(parts)]
    for t in th:
        t.start()
    for t in th:
        t.join()
    if errs:
        raise errs[0]
    out = [None] * n
    for i in range(parts):
        for j, r in enumerate(res[i]):
            out[i + j * parts] = r
    for c, r in zip(cases, out):
        if r.get("id") != c["id"]:
            raise core.ToolError("harness answers out of order")
        if "tool_error" in r:
            raise core.ToolError("harness: %s (case %s)" % (r["tool_error"], json.dumps(c)[:400]))
    return out


class Interner:
    def __init__(self):
        self.ids = {}

    def id(self, j):
        s = canon(j)
        if s not in self.ids:
            self.ids[s] = len(self.ids) + 1
        return self.ids[s]


def acc(o):
    return bool(o and o.get("ok"))


def build_cases(docs, schema, tier):
    k = tier_cfg(tier)
    cases = []
    seed = core.seed()
    for di, d in enumerate(docs):
        d["_i"] = di
        for si in range(k["sigmas"]):
            sg = Sigma("%d/%d/%d" % (seed, di, si))
            if not d["ops"]:
                x = schema.key(d["ty"], d["inst"], sg)
                cases.append({"id": len(cases), "op": "inst", "ty": d["ty"], "x": x, "_doc": di, "_sg": si})
            seen = set()
            for st in k["styles"]:
                text = render(d["doc"], sg, st)
                if text in seen:
                    continue
                seen.add(text)
                cases.append({"id": len(cases), "op": "doc", "ty": d["ty"], "text": text, "built": built(d["doc"], sg),
                              "_doc": di, "_sg": si, "_style": st})
    return cases


def strip(c):
    return {k: v for k, v in c.items() if not k.startswith("_")}


# ----------------------------------------------------------------------------- step 3: the table and the laws

def make_rows(docs, schema, cases, results, tier):
    """rows for MC_FormDoc + side information per row (for reports, drift, known findings)."""
    seed = core.seed()
    ids = Interner()
    rows, info = [], []
    drift = []
    unfaithful_prints = []
    stats = collections.Counter()

    def add(row, inf):
        row["id"] = len(rows) + 1
        rows.append(row)
        info.append(inf)

    for c, r in zip(cases, results):
        d = docs[c["_doc"]]
        sg = Sigma("%d/%d/%d" % (seed, c["_doc"], c["_sg"]))
        if r.get("panic"):
            # a panic in the code under test: breaks every law of the row
            if c["op"] == "inst":
                add({"kind": "inst", "rt": False, "rt_eq": False, "rtc": False, "rtc_eq": False, "mp": False, "mp_eq": False},
                    {"case": strip(c), "panic": r["panic"], "doc": d})
            else:
                add({"kind": "doc", "p": True, "d": True, "m": False, "c": False, "vd": 0, "vm": 0, "vc": 0, "isx": False, "vx": 0},
                    {"case": strip(c), "panic": r["panic"], "doc": d})
            stats["panics"] += 1
            continue
        if c["op"] == "inst":
            x = r["x"]
            vx = ids.id(x)
            eq = lambda o: acc(o) and ids.id(o["v"]) == vx
            add({"kind": "inst", "rt": acc(r["rt"]), "rt_eq": eq(r["rt"]), "rtc": acc(r["rtc"]), "rtc_eq": eq(r["rtc"]) and r["into_same"],
                 "mp": acc(r["mp"]), "mp_eq": eq(r["mp"]) and r.get("mp_rest", 0) == 0},
                {"case": strip(c), "obs": {kk: r.get(kk) for kk in ("rt", "rtc", "mp", "into_same", "asv", "mp_as_model", "print_model_same")},
                 "doc": d})
            stats["inst_rows"] += 1
            # M: the reference writer against as_value
            if canon(norm_model(r["asv"])) != canon(norm_model(built(d["doc"], sg))):
                drift.append({"what": "Render != as_value", "ty": d["ty"], "x": x, "as_value": r["asv"], "render": built(d["doc"], sg)})
            if not r.get("print_model_same", True):
                stats["typed_print_differs_from_model_print"] += 1
            mm = r.get("mp_as_model")
            if mm is not None and not (mm.get("ok") and mm.get("eq")):
                stats["msgpack_bytes_not_the_model"] += 1
            # the printers' outputs: document rows that must read back as x on both paths
            for pi, pr in enumerate(r["printed"]):
                faithful = bool(pr.get("val_is_asv"))
                if not faithful:
                    stats["printer_output_not_the_model"] += 1
                    unfaithful_prints.append({"ty": c["ty"], "x": x, "printer": ("std", "compact", "pretty")[pi], "text": pr["text"]})
                add(doc_row(pr, ids, faithful, vx),
                    {"case": {"op": "doc", "ty": c["ty"], "text": pr["text"]}, "printer": ("std", "compact", "pretty")[pi], "x": x,
                     "inst_case": strip(c),
                     "obs": {kk: pr.get(kk) for kk in ("direct", "via", "conv", "mp", "parse_ok", "parse_err")}, "doc": d})
                stats["printed_rows"] += 1
        else:
            row = doc_row(r, ids, False, 0)
            faithful = bool(r.get("built_is_parsed"))
            add(row, {"case": strip(c), "style": c["_style"], "faithful": faithful,
                      "obs": {kk: r.get(kk) for kk in ("direct", "via", "conv", "mp", "parse_ok", "parse_err", "built")}, "doc": d})
            stats["doc_rows"] += 1
            stats["faithful" if faithful else "unfaithful_rendering"] += 1
            if row["p"] and row["d"] and row["m"]:
                stats["accepted_by_both"] += 1
            elif row["p"] and not row["d"] and not row["m"]:
                stats["rejected_by_both"] += 1
            # the bridge fed from the value built without any text
            if faithful and (acc(r["built"]) != row["m"] or (row["m"] and ids.id(r["built"]["v"]) != row["vm"])):
                drift.append({"what": "try_from_value(built) != try_from_value(parsed)", "ty": d["ty"], "text": c["text"]})
            # M: the reference reader
            if faithful and row["d"] == row["m"] and (not row["d"] or row["vd"] == row["vm"]):
                exp = d["exp"]
                if exp["ok"] != row["m"]:
                    drift.append({"what": "Read expects %s, both real paths %s" % ("accept" if exp["ok"] else "reject", "accept" if row["m"] else "reject"),
                                  "ty": d["ty"], "text": c["text"], "ops": d["ops"], "obs": r.get("via"), "doc": d["doc"]})
                elif exp["ok"]:
                    ex = schema.key(d["ty"], exp["x"], sg)
                    if ids.id(ex) != row["vm"]:
                        drift.append({"what": "Read expects another value", "ty": d["ty"], "text": c["text"], "ops": d["ops"],
                                      "expected": ex, "obs": r["via"].get("v")})
            # the third source of events (informative): MessagePack of the parsed value
            if row["p"] and (acc(r.get("mp")) != row["m"] or (row["m"] and ids.id(r["mp"]["v"]) != row["vm"])):
                stats["msgpack_reader_differs_from_bridge"] += 1
    return rows, info, drift, stats, unfaithful_prints


def doc_row(r, ids, isx, vx):
    """isx: the text is a printer's output that parses to exactly as_value(x), x having id vx"""
    p = bool(r.get("parse_ok"))
    d, m, c = acc(r.get("direct")), acc(r.get("via")), acc(r.get("conv"))
    return {"kind": "doc", "p": p, "d": d, "m": m, "c": c,
            "vd": ids.id(r["direct"]["v"]) if d else 0, "vm": ids.id(r["via"]["v"]) if m else 0,
            "vc": ids.id(r["conv"]["v"]) if c else 0, "isx": isx, "vx": vx}


def evaluate(wd, rows, tier):
    """TLC evaluates the laws on every row (chunks, at most 4 JVMs at a time)."""
    k = tier_cfg(tier)
    chunks = [rows[i:i + k["chunk"]] for i in range(0, len(rows), k["chunk"])]
    res = [None] * len(chunks)
    errs = []

    def work(i):
        try:
            d = os.path.join(wd, "laws%d" % i)
            os.makedirs(d, exist_ok=True)
            tp = os.path.join(d, "table.ndjson")
            core.write_ndjson(tp, chunks[i])
            c = core.cfg(constants={"Scope": 0, "Defects": tla_set([])}, invariants=["TypeOK"], postcondition="Report")
            res[i] = core.run_tlc("MC_FormDoc", c, d, workers=1, depth_first=True, env={"TABLE": tp}, timeout=1500, xmx="6g",
                                  coverage=True)
        except Exception as ex:  # noqa
            errs.append(ex)

    for b in range(0, len(chunks), 4):
        th = [threading.Thread(target=work, args=(i,)) for i in range(b, min(b + 4, len(chunks)))]
        for t in th:
            t.start()
        for t in th:
            t.join()
    if errs:
        raise errs[0]
    failed, tot = [], collections.Counter()
    cov = {}
    for i, r in enumerate(res):
        rep = r.tagged.get("LAW_RESULT")
        if not rep:
            raise core.ToolError("MC_FormDoc printed no LAW_RESULT:\n%s" % r.stdout[-3000:])
        rep = rep[-1]
        if rep["rows"] != len(chunks[i]):
            raise core.ToolError("MC_FormDoc evaluated %s of %s rows" % (rep["rows"], len(chunks[i])))
        failed += rep["failed"]
        for kk in ("rows", "inst", "doc", "unparsed", "both_accept", "both_reject"):
            tot[kk] += rep[kk]
        tot["states"] += r.distinct
        tot["transitions"] += r.generated
        for a, (dd, t) in r.coverage.items():
            o = cov.get(a, (0, 0))
            cov[a] = (o[0] + dd, o[1] + t)
        tot["wall"] = max(tot["wall"], r.wall)
    return failed, tot, cov


# ----------------------------------------------------------------------------- known findings

def kf_match(f, law, inf):
    """A finding's signature is a list of clauses {"law", "op": inst|doc, "cases": {type: regex}, "direct"?, "via"?}: the regex is
    searched in the Recon text (doc rows) or in the canonical serde json of the instance (inst rows, and printed rows = the
    texts the printers produced for an instance); direct / via are the
    acceptance bits of the two reading paths that must have been observed."""
    case = inf["case"]
    kind = "printed" if inf.get("printer") else case["op"]
    for sig in f["signature"]:
        if sig["law"] != law or sig["op"] != kind or case["ty"] not in sig["cases"]:
            continue
        subject = case.get("text") if kind == "doc" else canon(inf["x"] if kind == "printed" else case["x"])
        if re.search(sig["cases"][case["ty"]], subject, re.S) is None:
            continue
        obs = inf.get("obs") or {}
        if "direct" in sig and acc(obs.get("direct")) != sig["direct"]:
            continue
        if "via" in sig and acc(obs.get("via")) != sig["via"]:
            continue
        return True
    return False


# ----------------------------------------------------------------------------- driver

def run(tier, out):
    wd = core.workdir(PROP)
    core.build_harness(MEMBER, BIN)
    docs, schema, gst = generate(wd, tier, out)
    core.log("[C16] TLC generated %d distinct (type, document) pairs from %d states in %.1fs" % (len(docs), gst["states"], gst["wall"]))
    cases = build_cases(docs, schema, tier)
    results = harness(wd, [strip(c) for c in cases], "cases")
    rows, info, drift, st, unfaithful = make_rows(docs, schema, cases, results, tier)
    if unfaithful:
        # parse(print(x)) != as_value(x): a printer / parser matter (property C09), recorded but not demanded here
        seen = {}
        for u in unfaithful:
            seen.setdefault(u["ty"], u)
        out.notes.append("PRINT-NOT-FAITHFUL (C09 matter, no C16 law demands it): %d printer outputs do not parse to as_value(x); one per type: %s" % (
            len(unfaithful), json.dumps([{"ty": u["ty"], "x": u["x"], "text": u["text"]} for u in seen.values()])[:1500]))
    failed, tot, cov = evaluate(wd, rows, tier)
    core.log("[C16] %d rows (%d instances, %d documents; %d accepted by both paths, %d rejected by both); laws broken on %d rows; drift %d" % (
        tot["rows"], tot["inst"], tot["doc"], tot["both_accept"], tot["both_reject"], len(failed), len(drift)))
    report(out, tier, docs, rows, info, drift, st, failed, tot, cov, gst, wd)


def report(out, tier, docs, rows, info, drift, st, failed, tot, cov, gst, wd):
    findings = core.open_findings(PROP)
    hit = collections.Counter()
    per_sig = {}
    for f in failed:
        inf = info[f["id"] - 1]
        laws = f["laws"]
        covering = [next((kf for kf in findings if kf_match(kf, law, inf)), None) for law in laws]
        if not inf.get("panic") and all(k is not None for k in covering):
            for k in {k["id"]: k for k in covering}.values():
                hit[k["id"]] += 1
                per_sig.setdefault(k["id"], k)
            continue
        laws = [law for law, k in zip(laws, covering) if k is None] if not inf.get("panic") else laws
        subject = inf["case"].get("text", None)
        what = "law %s broken for type %s on %s" % ("+".join(laws), inf["case"]["ty"],
                                                   ("text %r" % subject) if subject is not None else ("instance %s" % canon(inf["case"]["x"])))
        if inf.get("panic"):
            what += " PANIC " + inf["panic"]
        else:
            what += " observed " + json.dumps(inf["obs"])[:600]
        out.violation(what, {"case": inf.get("inst_case", inf["case"]), "laws": laws, "row": rows[f["id"] - 1], "observed": inf.get("obs"),
                             "origin": {"ops": inf["doc"]["ops"], "inst": inf["doc"]["inst"]}})
    with open(os.path.join(wd, "failed.json"), "w") as fh:
        json.dump([{"laws": f["laws"], "ty": info[f["id"] - 1]["case"]["ty"], "case": info[f["id"] - 1]["case"],
                    "printer": info[f["id"] - 1].get("printer"), "ops": info[f["id"] - 1]["doc"]["ops"],
                    "obs": info[f["id"] - 1].get("obs"), "panic": info[f["id"] - 1].get("panic")} for f in failed], fh, indent=1)
    for kid, n in hit.items():
        out.known_finding("%s (%d rows): %s" % (kid, n, per_sig[kid]["what"]))
    # model drift (notes only)
    dk = collections.Counter((d["what"], d["ty"]) for d in drift)
    with open(os.path.join(wd, "drift.json"), "w") as fh:
        json.dump(drift[:5000], fh, indent=1)
    for d in drift[:3]:
        out.notes.append("MODEL-DRIFT " + json.dumps(d)[:500])
    # statistics of the generator: documents per operator
    per_op = collections.Counter()
    for d in docs:
        per_op["+".join(d["ops"]) if d["ops"] else "pick"] += 1
    first_op = collections.Counter((d["ops"][-1] if d["ops"] else "Pick") for d in docs)
    never = sorted(set(MUT_OPS) - set(first_op))
    nontrivial = set()
    for inf, row in zip(info, rows):
        if row["kind"] == "inst":
            nontrivial.add(("inst", inf["case"]["ty"], canon(inf["case"]["x"])))
        elif row["p"]:
            nontrivial.add(("doc", inf["case"]["ty"], inf["case"]["text"]))
    out.add(evaluations=len(rows), distinct_nontrivial=len(nontrivial),
            rule="TLC enumerates battery type x instance (small scope) x mutation operator from FormDoc.tla; each distinct (type, document) is "
                 "concretised from seeded boundary pools and rendered in up to %d Recon styles; one evaluation = one row of observations of the real "
                 "code on which TLC evaluates the laws.  distinct_nontrivial = distinct typed instances + distinct (type, text) pairs that parse as a model "
                 "value (so that both reading paths really ran), counted by hashing" % len(tier_cfg(tier)["styles"]),
            battery_types=len(set(d["ty"] for d in docs)), documents=len(docs),
            gen_states=gst["states"], gen_transitions=gst["generated"], gen_wall_s=round(gst["wall"], 1),
            law_states=tot["states"], law_transitions=tot["transitions"], law_wall_s=round(tot["wall"], 1),
            law_action_coverage={a: {"distinct": d, "taken": t} for a, (d, t) in cov.items()},
            documents_per_last_operator=dict(first_op), actions_never_taken=never,
            rows_instance=tot["inst"], rows_document=tot["doc"], accepted_by_both=tot["both_accept"], rejected_by_both=tot["both_reject"],
            unparseable_texts=tot["unparsed"], laws_broken_rows=len(failed), known_finding_rows=sum(hit.values()),
            model_drift=len(drift), model_drift_kinds={"%s [%s]" % k: n for k, n in dk.most_common(12)},
            harness_stats=dict(st),
            checker_cmd="tlc Gen_FormDoc (INVARIANTS %s) + h_core form + tlc MC_FormDoc (laws of FormDoc.tla section 7)" % " ".join(GEN_INVS))
    shown, types_shown = 0, set()
    for inf, row in zip(info, rows):
        ty = inf["case"]["ty"]
        if row["kind"] == "doc" and inf["doc"]["ops"] and row["p"] and shown < 4 and (shown % 2 == 0) == row["d"] and ty not in types_shown \
                and row["d"] == row["m"]:
            out.sample({"type": ty, "mutation": inf["doc"]["ops"], "text": inf["case"]["text"], "direct_accepts": row["d"],
                        "via_model_accepts": row["m"], "same_value": row["vd"] == row["vm"]})
            shown += 1
            types_shown.add(ty)
    for inf, row in zip(info, rows):
        if row["kind"] == "inst" and inf["case"]["ty"] == "HdrBoth":
            out.sample({"type": inf["case"]["ty"], "instance": inf["case"]["x"], "as_value": inf["obs"]["asv"], "row": row})
            break
    out.assumptions += ["serde_json renderings of the typed values are injective (used as value identity)",
                        "the Recon parser's Value output for a text is the 'model' of that text (C09 covers the parser itself)",
                        "scope: instances and mutations at small scope from FormDoc.tla; leaves from fixed boundary pools"]


MUT_OPS = ["dropItem", "dupItem", "swapItems", "dropAttr", "dupAttr", "swapAttrs", "wrongTag", "extraAttr", "extraItem", "renameKey",
           "unslot", "slotify", "wrongKind", "wrap", "unwrap"]


def replay(path, out):
    wd = core.workdir(PROP + "_replay")
    core.build_harness(MEMBER, BIN)
    obj = json.load(open(path))["replay"]
    case = dict(obj["case"])
    case["id"] = 0
    r = harness(wd, [case], "replay", parts=1)[0]
    print("case:", json.dumps(case)[:2000])
    print("observed:", json.dumps(r)[:4000])
    ids = Interner()
    rows = []
    if r.get("panic"):
        print("VIOLATION property=%s replay=%s" % (PROP, path))
        return 1
    if case["op"] == "inst":
        vx = ids.id(r["x"])
        eq = lambda o: acc(o) and ids.id(o["v"]) == vx
        rows.append({"kind": "inst", "rt": acc(r["rt"]), "rt_eq": eq(r["rt"]), "rtc": acc(r["rtc"]), "rtc_eq": eq(r["rtc"]) and r["into_same"],
                     "mp": acc(r["mp"]), "mp_eq": eq(r["mp"]) and r.get("mp_rest", 0) == 0})
        for pr in r["printed"]:
            rows.append(doc_row(pr, ids, bool(pr.get("val_is_asv")), vx))
    else:
        rows.append(doc_row(r, ids, False, 0))
    for i, row in enumerate(rows):
        row["id"] = i + 1
    failed, tot, cov = evaluate(wd, rows, "quick")
    print("laws broken:", json.dumps(failed))
    if failed:
        print("VIOLATION property=%s replay=%s" % (PROP, path))
        return 1
    return 0

"""Component level (configuration K) for C01 / C03 / C04 / C14: the synchronous core of the agent runtime's
write task (WriteTaskState + Links + RemoteTracker/Uplinks).

B3: TLC checks specs/WriteTask.tla (mechanism M, one action per call of the write task, writer lending,
    special queue, write queue with stale entries, value/supply/map backpressure) against the P invariants
    FramesOk (link state machine, nothing fabricated, order, exactly once), CaughtUp (never stale / nothing
    lost / replica converges / synced delivered once the writer is back), NothingWaiting, LinksRegistered.
B1: the state graph is dumped; a transition cover plus seeded random walks is replayed on the real
    swimos_runtime::verif_hooks::WriteTaskHarness; scheduled writes are really written to byte channels and
    decoded; schedule sets and frames must equal the model's.
B2: executions that differ from M are validated against specs/Trace_WriteTask.tla (P only).
"""
import json, os, random
from vlib import core
from vlib import replay as rp

INPUT_KEYS = {"k", "r", "lane", "target", "resp"}
INVS = ["FramesOk", "CaughtUp", "NothingWaiting", "LinksRegistered", "InitDump"]
KINDS = {"KindV": {"v": "value"}, "KindVS": {"v": "value", "s": "supply"}, "KindVM": {"v": "value", "m": "map"},
         "KindM": {"m": "map"}, "KindS": {"s": "supply"}}


def configs(tier):
    if tier == "quick":
        return [
            dict(Remotes={1}, KindOf="KindV", Keys={1}, MaxPush=3, MaxSpecial=2),
            dict(Remotes={1}, KindOf="KindS", Keys={1}, MaxPush=3, MaxSpecial=2),
            dict(Remotes={1}, KindOf="KindM", Keys={1, 2}, MaxPush=2, MaxSpecial=2),
            dict(Remotes={1, 2}, KindOf="KindV", Keys={1}, MaxPush=2, MaxSpecial=1),
        ]
    return [
        dict(Remotes={1}, KindOf="KindV", Keys={1}, MaxPush=4, MaxSpecial=3),
        dict(Remotes={1, 2}, KindOf="KindV", Keys={1}, MaxPush=2, MaxSpecial=2),
        dict(Remotes={1}, KindOf="KindM", Keys={1, 2}, MaxPush=3, MaxSpecial=2),
        dict(Remotes={1}, KindOf="KindS", Keys={1}, MaxPush=4, MaxSpecial=3),
        dict(Remotes={1}, KindOf="KindVS", Keys={1}, MaxPush=2, MaxSpecial=2),
        dict(Remotes={1}, KindOf="KindVM", Keys={1}, MaxPush=2, MaxSpecial=2),
        dict(Remotes={1, 2}, KindOf="KindS", Keys={1}, MaxPush=2, MaxSpecial=2),
        dict(Remotes={1, 2}, KindOf="KindM", Keys={1}, MaxPush=2, MaxSpecial=2),
        # model checking only (the state graph is too large to dump and replay edge by edge)
        dict(Remotes={1, 2}, KindOf="KindV", Keys={1}, MaxPush=3, MaxSpecial=3, b3_only=True),
        dict(Remotes={1, 2}, KindOf="KindS", Keys={1}, MaxPush=3, MaxSpecial=2, b3_only=True),
        # (their state graphs have 0.7 M / 1.5 M edges: dumping and replaying them needed 25 GB)
        dict(Remotes={1}, KindOf="KindVS", Keys={1}, MaxPush=3, MaxSpecial=2, b3_only=True),
        dict(Remotes={1}, KindOf="KindVM", Keys={1}, MaxPush=3, MaxSpecial=2, b3_only=True),
    ]


def mk_cfg(k, extra=None):
    consts = {"Remotes": k["Remotes"], "Lanes": set(KINDS[k["KindOf"]].keys()), "Keys": k["Keys"],
              "MaxPush": k["MaxPush"], "MaxSpecial": k["MaxSpecial"]}
    c = core.cfg(constants=consts, **(extra or {}))
    return c.replace("CONSTANTS\n", "CONSTANTS\n  KindOf <- %s\n" % k["KindOf"])


def norm_act(a):
    a = dict(a)
    if "sched" in a:
        a["sched"] = sorted(a["sched"])
    return a


def to_trace(case, result, nremotes):
    """P-level events for Trace_WriteTask.tla from the inputs of the case and what the real code did."""
    acts, obs = case["acts"], result.get("obs", [])
    ev = [{"e": "reset"}]
    inflight = {}          # r -> True while a write is in flight (observed: scheduled and not yet done)
    # look-ahead: frames of the next done per remote after position i
    def next_done_frames(i, r):
        for j in range(i + 1, min(len(acts), len(obs))):
            if acts[j]["k"] == "done" and acts[j]["r"] == r:
                return obs[j].get("frames", [])
            if acts[j]["k"] == "fail" and acts[j]["r"] == r:
                return []
        return []
    for i, a in enumerate(acts):
        if i >= len(obs):
            break
        o = obs[i]
        k = a["k"]
        if k == "attach":
            ev.append({"e": "attach", "r": a["r"]})
            inflight[a["r"]] = False
        elif k == "link":
            ev.append({"e": "link", "r": a["r"], "lane": a["lane"]})
        elif k == "unlink":
            q = bool(inflight.get(a["r"]))
            fr = [f for f in next_done_frames(i, a["r"]) if f.get("lane") == a["lane"]] if q else []
            ev.append({"e": "unlink", "r": a["r"], "lane": a["lane"], "queued": q, "infl": fr})
        elif k == "unknown":
            ev.append({"e": "unknown", "r": a["r"]})
        elif k == "prune":
            ev.append({"e": "prune", "r": a["r"]})
        elif k == "event":
            ev.append({"e": "push", "lane": a["lane"], "target": a.get("target", 0), "resp": a["resp"]})
        elif k == "lanefail":
            qs, infl = [], []
            for r in range(1, nremotes + 1):
                q = bool(inflight.get(r))
                qs.append(q)
                infl.append([f for f in next_done_frames(i, r) if f.get("lane") == a["lane"]] if q else [])
            ev.append({"e": "lanefail", "lane": a["lane"], "queued": qs, "infl": infl})
        elif k == "fail":
            ev.append({"e": "fail", "r": a["r"]})
            inflight[a["r"]] = False
        elif k == "done":
            ev.append({"e": "done", "r": a["r"], "frames": o.get("frames", []), "drained": not o.get("sched")})
            inflight[a["r"]] = False
        for r in o.get("sched", []) or []:
            inflight[r] = True
    return ev


def has_raw(result):
    for o in result.get("obs", []):
        for f in o.get("frames", []) or []:
            b = f.get("body")
            if isinstance(b, dict) and "raw" in b:
                return f
    return None


def run_k(tier, out, wd, prop="C04", only=None):
    os.makedirs(wd, exist_ok=True)
    rng = random.Random(core.seed())
    core.build_harness("h_runtime", "writetask")
    stats = dict(states=0, transitions=0, cases=0, steps=0, drift=0)
    n_tv = [0]
    for ci, k in enumerate(configs(tier)):
        if only and k["KindOf"] not in only:
            continue
        kinds = KINDS[k["KindOf"]]
        if k.get("b3_only"):
            c = mk_cfg(k, dict(invariants=[i for i in INVS if i != "InitDump"], view="View"))
            r = core.run_tlc("MC_WriteTask", c, os.path.join(wd, "mc%d" % ci), workers=8, timeout=3600, xmx="12g")
            if not r.ok:
                raise core.ToolError("WriteTask.tla: M violates P in TLC (%s %s) for %s:\n%s" % (r.status, r.violated, k, r.counterexample[-3000:]))
            stats["states"] += r.distinct
            stats["transitions"] += r.generated
            core.log("[K-WriteTask] %s (model checking only): %d states, %d transitions, invariants hold" % (
                k["KindOf"] + "x%d" % len(k["Remotes"]), r.distinct, r.generated))
            continue
        c = mk_cfg(k, dict(invariants=INVS, view="View", action_constraints=["EdgeDump"]))
        r = core.run_tlc("MC_WriteTask", c, os.path.join(wd, "mc%d" % ci), workers=1, timeout=1800, xmx="8g")
        if not r.ok:
            raise core.ToolError("WriteTask.tla: M violates P in TLC (%s %s) for %s:\n%s" % (r.status, r.violated, k, r.counterexample[-3000:]))
        g = core.Graph(r.tagged["EDGE"], init_views=r.tagged["INIT"])
        stats["states"] += r.distinct
        stats["transitions"] += g.n_edges
        r.tagged.pop("EDGE", None)
        paths = g.covering_paths(extend=3, rng=rng)
        paths += g.random_walks(300 if tier == "quick" else 3000, 14 if tier == "quick" else 22, rng)
        n_edges, n_paths = g.n_edges, len(paths)
        del g
        nrem = max(k["Remotes"])

        def pv(case, result, k=k, nrem=nrem):
            if result.get("panic"):
                return {"accepted": False, "detail": "panic in code under test: %s" % result["panic"]}
            raw = has_raw(result)
            if raw:
                return {"accepted": False, "detail": "a frame carries a body no lane produced: %s" % json.dumps(raw)}
            n_tv[0] += 1
            ev = to_trace(case, result, nrem)
            consts = {"Remotes": k["Remotes"], "Lanes": set(KINDS[k["KindOf"]].keys()), "Keys": k["Keys"],
                      "MaxPush": k["MaxPush"], "MaxSpecial": k["MaxSpecial"]}
            extra = "CONSTANTS\n  KindOf <- %s\n" % k["KindOf"]
            res = core.trace_validate("MC_Trace_WriteTask", ev, os.path.join(wd, "tv%d" % n_tv[0]), constants=consts, extra_cfg=extra)
            m = res["matched"]
            return {"accepted": res["accepted"], "kf": res.get("kf", []),
                    "detail": "P (Trace_WriteTask) rejects the recorded execution at event %s: %s" % (m, json.dumps(ev[m]) if 0 <= m < len(ev) else None)}

        # replay in chunks: the cases of a large graph (millions of calls) are never all in memory at once
        CHUNK = 40000
        st = dict(conform=0, drift=0, rejected=0, steps=0)
        cases = []
        for c0 in range(0, n_paths, CHUNK):
            cases = [{"id": "%d.%d" % (ci, c0 + i), "cfg": {"kinds": kinds}, "acts": [norm_act(a) for a in p if a["k"] != "init"]}
                     for i, p in enumerate(paths[c0:c0 + CHUNK])]
            for j in range(c0, min(c0 + CHUNK, n_paths)):
                paths[j] = None
            results = rp.run_cases("h_runtime", "writetask", cases, wd, tag="wt%d_%d" % (ci, c0 // CHUNK), input_keys=INPUT_KEYS)
            s1 = rp.conformance(out, cases, results, INPUT_KEYS, pv, "WriteTask %s" % json.dumps({a: (sorted(b) if isinstance(b, set) else b) for a, b in k.items()}),
                                max_validate=25)
            for key in st:
                st[key] += s1[key]
            del results
        stats["cases"] += st["conform"] + st["drift"]
        stats["steps"] += st["steps"]
        stats["drift"] += st["drift"]
        core.log("[K-WriteTask] %s: %d states %d edges; %d paths (%d calls): conform=%d drift=%d rejected=%d" % (
            k["KindOf"] + "x%d" % len(k["Remotes"]), r.distinct, n_edges, n_paths, st["steps"], st["conform"], st["drift"], st["rejected"]))
        if cases and not stats.get("sampled"):
            stats["sampled"] = 1
            out.sample({"writetask_calls_with_expected_results": cases[len(cases) // 2]["acts"][:8]})
    out.add(states=stats["states"], transitions=stats["transitions"], traces_validated_against_impl=stats["cases"],
            writetask_replayed_calls=stats["steps"], writetask_model_drift=stats["drift"])
    return stats


def replay(path, out):
    obj = json.load(open(path))["replay"]
    wd = core.workdir("KWT_replay")
    case = obj["case"]
    res = rp.run_cases("h_runtime", "writetask", [case], wd, tag="replay", input_keys=INPUT_KEYS)[0]
    d = rp.first_diff(case["acts"], res.get("obs", []), INPUT_KEYS)
    print("first divergence from M at step:", d)
    if d is not None:
        print("expected:", json.dumps(case["acts"][d]))
        print("observed:", json.dumps(res.get("obs", [None] * (d + 1))[d]) if d < len(res.get("obs", [])) else res.get("panic"))
    return 1 if d is not None else 0

"""C08 - downlink local state equals the fold of what it received (client and agent-hosted downlinks).

specs/DownlinkState.tla holds P (pure operators: reference fold, allowed successor states, allowed
callbacks) and M (the client and the hosted downlink stepped in lock step, one action per branch of
the real code, each recording the callbacks / termination flag the implementation must produce).

B3  TLC checks M |= P: FoldLawHosted / FoldLawClient over a history variable, MRefinesP (action
    property), ImplsAgree, the callback laws - (a) on every input sequence up to a length bound
    (state contains the history: states = sequences) and (b) on the complete state graph.
B1  (a) every one of those sequences and (b) a transition cover of the state graph + seeded random
    walks (including inputs outside the link grammar, for absence of panics) are replayed on the real
    swimos_downlink DownlinkTask (value / map / event) and on the real agent-hosted downlinks; the
    callbacks with their arguments and the termination flag must equal M's expectation step by step.
B2  every execution that differs from M, plus a sample of conforming ones, is evaluated by
    specs/Trace_DownlinkState.tla (P as a trace evaluator, one TLC run for the whole batch):
    rejected => VIOLATION, accepted only through a listed deviation step => KNOWN-FINDING,
    accepted => MODEL-DRIFT note.
Client and hosted observations of the same well-behaved sequence are also compared with each other.
Losing the link without an `unlinked` is an input too: "link_lost" how=write (an own write after the output failed:
hosted WriterFailed -> reconnect -> connect() on fresh channels, or drop) / how=read (input closed); every covering
path of the state graph ends with a distinguishing suffix ((re)link, sync, one event) so that the replica left behind
by the last covered transition is observed.
The IO mode of the downlinks is part of the explored space: the inputs include "drop_handles" (every
write handle dropped, at any point, also before the first notification) and "out_fail" (the reader of
the downlink's output channel dropped; later own writes then fail), each seen by the task either on its
own or together with the next input (cfg.env_settle); all laws must hold unchanged afterwards.
"""
import json, os, os, random
from vlib import core
from vlib import replay as rp

PROP = "C08"
INPUT_KEYS = {"k", "key", "val", "n", "how"}
INVS = ["TypeOK", "FoldLawHosted", "FoldLawClient", "UnlinkedHoldsNothing", "ImplsAgree", "SyncedExactlyAtSync",
        "SyncedSeesState", "QuietWhenNotSynced", "TerminatesOnUnlinked", "LegalIffGrammar"]
PROPS = ["MRefinesP", "EnvStepsInvisible"]
IMPLS = ("client", "hosted")
ALL_ACTIONS = ["OnLinked", "OnSynced", "OnUnlinked", "OnUpdate", "OnRemove", "OnClear", "OnTake", "OnDrop",
               "OnValueEvent", "OnEventEvent", "LocalWrite", "DropHandles", "OutFail", "LinkLostWrite", "LinkLostRead",
               "AfterStop", "IllegalStep", "Chaos"]
BOOLS = {True, False}
KINDS = {"map", "value", "event"}
TRACE_NK, TRACE_NV = 3, 3
MAX_REPLAY_FILES = 20


def seq_configs(tier):
    """(a) exhaustive enumeration of input sequences by TLC (history in the state).
    EnvFaults adds the environment inputs "every write handle dropped" / "output channel failed" at any
    point of the sequence (the client's run_io then runs its read-only copy of the read loop)."""
    if tier == "quick":
        return [dict(Kinds=KINDS, EwnsSet=BOOLS, TouSet=BOOLS, NK=2, NV=2, Counts={1}, LocalWrites=False,
                     Illegal=False, EnvFaults=True, MaxLen=4),
                dict(Kinds={"value", "event"}, EwnsSet=BOOLS, TouSet=BOOLS, NK=1, NV=2, Counts=set(), LocalWrites=True,
                     Illegal=False, EnvFaults=True, MaxLen=5)]
    return [dict(Kinds={"map"}, EwnsSet=BOOLS, TouSet=BOOLS, NK=2, NV=2, Counts={1}, LocalWrites=False,
                 Illegal=False, EnvFaults=True, MaxLen=5),
            dict(Kinds={"map"}, EwnsSet=BOOLS, TouSet={False}, NK=2, NV=2, Counts={1, 2}, LocalWrites=True,
                 Illegal=False, EnvFaults=True, MaxLen=4),
            dict(Kinds={"map"}, EwnsSet=BOOLS, TouSet={False}, NK=3, NV=1, Counts={0, 1, 2, 3}, LocalWrites=False,
                 Illegal=False, EnvFaults=False, MaxLen=5),
            dict(Kinds={"value", "event"}, EwnsSet=BOOLS, TouSet=BOOLS, NK=1, NV=2, Counts=set(), LocalWrites=True,
                 Illegal=False, EnvFaults=True, MaxLen=6),
            dict(Kinds={"value", "event"}, EwnsSet=BOOLS, TouSet=BOOLS, NK=1, NV=2, Counts=set(), LocalWrites=True,
                 Illegal=False, EnvFaults=False, MaxLen=7)]


def graph_configs(tier):
    """(b) complete state graph (VIEW hides the history), every edge labelled with M's outputs."""
    if tier == "quick":
        return [dict(Kinds=KINDS, EwnsSet=BOOLS, TouSet=BOOLS, NK=3, NV=2, Counts={0, 1, 2, 3}, LocalWrites=False,
                     Illegal=True, EnvFaults=True, MaxLen=0),
                dict(Kinds={"map", "value"}, EwnsSet=BOOLS, TouSet={False}, NK=2, NV=2, Counts={1}, LocalWrites=True,
                     Illegal=False, EnvFaults=True, MaxLen=0)]
    return [dict(Kinds=KINDS, EwnsSet=BOOLS, TouSet=BOOLS, NK=3, NV=2, Counts={0, 1, 2, 3, 4}, LocalWrites=False,
                 Illegal=True, EnvFaults=True, MaxLen=0),
            dict(Kinds={"map", "value"}, EwnsSet=BOOLS, TouSet=BOOLS, NK=2, NV=2, Counts={0, 1, 2, 3}, LocalWrites=True,
                 Illegal=True, EnvFaults=True, MaxLen=0),
            dict(Kinds={"map"}, EwnsSet=BOOLS, TouSet={False}, NK=3, NV=3, Counts={1, 2}, LocalWrites=False,
                 Illegal=False, EnvFaults=True, MaxLen=0)]


# ----------------------------------------------------------------------------- cases

def make_cases(traces, tag, rng):
    """One case per implementation for every TLC behaviour (list of lastAct records)."""
    cases = []
    for n, tr in enumerate(traces):
        if not tr:
            continue
        cf = tr[0]["cf"]
        pool = rng.randrange(3)
        # environment inputs (handles dropped, output failed) seen by the task on their own / together with the next input
        env_settle = rng.random() < 0.5
        for impl in IMPLS:
            acts = []
            legal = True
            for a in tr:
                act = {k: v for k, v in a.items() if k in INPUT_KEYS}
                legal = legal and bool(a.get("legal"))
                if legal:
                    exp = a[impl[0]]
                    act["cbs"], act["done"] = exp["cbs"], exp["done"]
                else:
                    act["legal"] = False
                acts.append(act)
            cases.append({"id": "%s%d.%s" % (tag, n, impl[0]), "seq": "%s%d" % (tag, n),
                          "cfg": {"kind": cf["kind"], "impl": impl, "ewns": cf["ewns"], "tou": cf["tou"], "pool": pool,
                                  "env_settle": env_settle},
                          "acts": acts})
    return cases


def well_behaved(case):
    """value / map downlink, link grammar respected, no own writes, no take / drop; a link lost by closing the input is
    reported by the hosted downlink (on_unlinked) and not by the client task, so it is excluded as well."""
    return case["cfg"]["kind"] in ("map", "value") and all(
        a.get("legal", True) and not a["k"].startswith("w_") and a["k"] not in ("take", "drop")
        and not (a["k"] == "link_lost" and a.get("how") == "read") for a in case["acts"])


def expected(act):
    return None if act.get("legal") is False else {"cbs": act["cbs"], "done": act["done"]}


def first_diff(case, res):
    """first step at which the real downlink differs from M (None: conforms as far as M says anything)."""
    if res.get("panic"):
        return 0
    obs = res.get("obs", [])
    for i, a in enumerate(case["acts"]):
        e = expected(a)
        if e is None:
            return None          # outside the link grammar from here on: only panics matter
        if i >= len(obs) or obs[i] != e:
            return i
    return None


def to_events(case, res):
    c = case["cfg"]
    ev = [{"k": "reset", "id": case["id"], "kind": c["kind"], "impl": c["impl"], "ewns": c["ewns"], "tou": c["tou"]}]
    obs = res.get("obs", [])
    for i, a in enumerate(case["acts"]):
        if i >= len(obs):
            break
        e = {k: v for k, v in a.items() if k in INPUT_KEYS}
        e["cbs"], e["done"] = obs[i]["cbs"], obs[i]["done"]
        ev.append(e)
    if res.get("panic") or len(obs) < len(case["acts"]):
        ev.append({"k": "panic"})
    return ev


# ----------------------------------------------------------------------------- P (trace evaluator)

def enabled_findings():
    return {f["id"]: f for f in core.open_findings(PROP)}


def p_evaluate(pairs, wd, name):
    """One TLC run of Trace_DownlinkState over many recorded cases.
    Returns (rejected: id -> REJECT record, kf: id -> [finding ids], stats)."""
    if not pairs:
        return {}, {}, {"cases": 0, "total": 0}
    events = []
    for c, r in pairs:
        events += to_events(c, r)
    events.append({"k": "end"})
    d = os.path.join(wd, name)
    os.makedirs(d, exist_ok=True)
    tp = os.path.join(d, "trace.ndjson")
    core.write_ndjson(tp, events)
    cfg = core.cfg(spec="TraceSpec", constants={"NK": TRACE_NK, "NV": TRACE_NV, "EnabledFindings": set(enabled_findings())},
                   invariants=["Totals"], postcondition="TraceAccepted")
    r = core.run_tlc("Trace_DownlinkState", cfg, d, workers=1, depth_first=True, env={"TRACE": tp}, coverage=False,
                     timeout=1500)
    tr = r.tagged.get("TRACE_RESULT")
    if not tr or tr[-1]["consumed"] != tr[-1]["total"] or tr[-1]["cases"] != len(pairs):
        raise core.ToolError("Trace_DownlinkState did not evaluate the whole batch: %s\n%s" % (tr, r.stdout[-2000:]))
    rejected = {x["id"]: x for x in r.tagged.get("REJECT", [])}
    kf = {x["id"]: sorted(x["kf"]) for x in r.tagged.get("KFHIT", [])}
    if len(rejected) != tr[-1]["rejected"] or len(kf) != tr[-1]["kfhits"]:
        raise core.ToolError("Trace_DownlinkState: verdict lines do not match the totals %s" % tr[-1])
    return rejected, kf, dict(tr[-1], wall=round(r.wall, 1))


# ----------------------------------------------------------------------------- the check

def run_tlc_checked(module, cfg, wd, what):
    r = core.run_tlc(module, cfg, wd, workers=1, timeout=1500)
    if not r.ok:
        # M breaks P inside TLC: a defect of the specification (M is meant to satisfy P), not a verdict about the code
        raise core.ToolError("M violates P in TLC (%s %s) for %s:\n%s" % (r.status, r.violated, what, r.counterexample[:3000]))
    return r


def g_extend(g, node, n, rng):
    out = []
    for _ in range(n):
        nxt = g.succ.get(node) if node is not None else None
        if not nxt:
            break
        a, node = nxt[rng.randrange(len(nxt))]
        out.append(a)
    return out


def end_node(g, path):
    """the node of the state graph a path of edge labels ends in (labels carry cf, so the initial state is determined)."""
    if not path:
        return None
    first = core.canon(path[0])
    cur = None
    for i in g.inits:
        if any(core.canon(a) == first for a, _ in g.succ.get(i, ())):
            cur = i
            break
    for a in path:
        if cur is None:
            return None
        ca = core.canon(a)
        cur = next((t for b, t in g.succ.get(cur, ()) if core.canon(b) == ca), None)
    return cur


def probe(g, node, steps=3):
    """A distinguishing suffix: inputs that make the replica reached by a path observable - (re)link, sync, then one
    event whose callback carries the map / the previous value.  Without it a wrong replica left behind by the last
    covered transition (e.g. not discarded when the link was lost) would go unnoticed."""
    out = []
    for _ in range(steps):
        if node is None:
            break
        st = json.loads(node)[1]
        edges = g.succ.get(node, ())
        want = {"U": ("linked",), "L": ("synced", "update", "event"), "S": ("update", "event")}.get(st)
        if not want:
            break
        pick = None
        for k in want:
            pick = next(((a, t) for a, t in edges if a.get("k") == k and a.get("legal", True)), None)
            if pick:
                break
        if not pick:
            break
        out.append(pick[0])
        node = pick[1]
        if st == "S":
            break
    return out


def generate(tier, wd, rng, stats):
    cases = []
    cov = stats["coverage"]

    def add_cov(r):
        for a, (d, t) in r.coverage.items():
            o = cov.get(a, (0, 0))
            cov[a] = (o[0] + d, o[1] + t)

    for ci, k in enumerate(seq_configs(tier)):
        c = core.cfg(constants=k, invariants=INVS + ["LeafDump"], properties=PROPS)
        r = run_tlc_checked("MC_DownlinkState", c, os.path.join(wd, "seq%d" % ci), k)
        add_cov(r)
        traces = r.tagged["REPLAY"]
        stats["states"] += r.distinct
        stats["transitions"] += sum(t for a, (d, t) in r.coverage.items() if a in ALL_ACTIONS)
        stats["sequences"] += len(traces)
        new = make_cases(traces, "s%d_" % ci, rng)
        cases += new
        core.log("[C08] sequences %s: %d states, %d sequences of length %d, depth %d (%.1fs)" % (
            {x: k[x] for x in ("Kinds", "NK", "NV", "Counts", "LocalWrites", "EnvFaults")}, r.distinct, len(traces), k["MaxLen"], r.depth, r.wall))
    for ci, k in enumerate(graph_configs(tier)):
        c = core.cfg(constants=k, invariants=INVS + ["InitDump"], properties=PROPS, view="View",
                     action_constraints=["EdgeDump"])
        r = run_tlc_checked("MC_DownlinkState", c, os.path.join(wd, "graph%d" % ci), k)
        add_cov(r)
        g = core.Graph(r.tagged["EDGE"], init_views=r.tagged["INIT"])
        stats["states"] += r.distinct
        stats["transitions"] += g.n_edges
        stats["graph_edges"] += g.n_edges
        # transition cover; every covering path is followed by a distinguishing suffix, then by a few random steps
        paths = []
        for pth in g.covering_paths(extend=0, rng=rng):
            pth = pth + probe(g, end_node(g, pth))
            pth = pth + g_extend(g, end_node(g, pth), 2 if tier == "quick" else 5, rng)
            paths.append(pth)
        nwalk, depth = (150, 14) if tier == "quick" else (3000, 30)
        paths += g.random_walks(nwalk, depth, rng)
        new = make_cases(paths, "g%d_" % ci, rng)
        cases += new
        core.log("[C08] graph %s: %d states, %d edges, %d paths (%.1fs)" % (
            {x: k[x] for x in ("Kinds", "NK", "NV", "Counts", "LocalWrites", "Illegal")}, r.distinct, g.n_edges, len(paths), r.wall))
    return cases


def judge(out, cases, results, wd, sample_conforming, rng):
    """Compare with M, let P decide the rest, compare the implementations with each other."""
    by_id = {c["id"]: (c, r) for c, r in zip(cases, results)}
    divergent, conforming = [], []
    for c, r in zip(cases, results):
        d = first_diff(c, r)
        (conforming if d is None else divergent).append((c, r))
    sample = conforming if len(conforming) <= sample_conforming else rng.sample(conforming, sample_conforming)
    rejected, kf, tstats = p_evaluate(divergent + sample, wd, "p_eval")
    st = {"cases": len(cases), "conform": len(conforming), "divergent": len(divergent), "drift": 0, "rejected": 0,
          "known": 0, "p_cases": tstats["cases"], "p_events": tstats["total"], "p_wall": tstats.get("wall", 0),
          "steps": sum(len(c["acts"]) for c in cases), "impl_pairs": 0, "impl_mismatch": 0}
    findings = enabled_findings()
    kf_hits = {}
    for c, r in divergent + sample:
        cid = c["id"]
        d = first_diff(c, r)
        if cid in rejected:
            st["rejected"] += 1
            rj = rejected[cid]
            exp = expected(c["acts"][d]) if d is not None and d < len(c["acts"]) else None
            got = r.get("obs", [])[d] if d is not None and d < len(r.get("obs", [])) else None
            msg = ("%s %s downlink (events_when_not_synced=%s terminate_on_unlinked=%s): P rejects the recorded execution at input %s; "
                   "replica states P still allowed: %s%s; first difference from M at step %s: expected %s, real code gave %s" % (
                       c["cfg"]["impl"], c["cfg"]["kind"], c["cfg"]["ewns"], c["cfg"]["tou"], json.dumps(rj.get("ev")),
                       json.dumps(rj.get("states")), (" PANIC " + str(r["panic"])) if r.get("panic") else "",
                       d, json.dumps(exp), json.dumps(got)))
            if st["rejected"] <= MAX_REPLAY_FILES:     # every rejection is counted; the first ones get a replay file
                out.violation(msg, {"component": "dlstate", "case": c, "observed": r})
        elif cid in kf:
            st["known"] += 1
            for f in kf[cid]:
                kf_hits.setdefault(f, []).append(cid)
        elif d is not None:
            st["drift"] += 1
            if st["drift"] <= 3:
                out.notes.append("MODEL-DRIFT: case %s step %s expected %s observed %s" % (
                    cid, d, json.dumps(expected(c["acts"][d])), json.dumps(r.get("obs", [None] * (d + 1))[d])))
    for f, ids in sorted(kf_hits.items()):
        c0, r0 = by_id[ids[0]]
        out.known_finding("%s %s" % (f, findings[f]["what"]))
        out.sample({"known_finding": f, "cases_hit": len(ids),
                    "first_case": {"cfg": c0["cfg"], "inputs": [{k: v for k, v in a.items() if k in INPUT_KEYS} for a in c0["acts"]],
                                   "observed": r0.get("obs")}}, cap=12)
    st["kf_cases"] = {f: len(ids) for f, ids in kf_hits.items()}
    st["rejected_by"] = {}
    for cid in rejected:
        cfg = by_id[cid][0]["cfg"]
        key = "%s/%s" % (cfg["kind"], cfg["impl"])
        st["rejected_by"][key] = st["rejected_by"].get(key, 0) + 1
    # client vs hosted on the same well-behaved sequence
    for c, r in zip(cases, results):
        if c["cfg"]["impl"] != "client" or not well_behaved(c):
            continue
        other = by_id.get(c["seq"] + ".h")
        if other is None:
            continue
        st["impl_pairs"] += 1
        if r.get("obs") != other[1].get("obs") or r.get("panic") or other[1].get("panic"):
            ids = (c["id"], other[0]["id"])
            if any(i in rejected or i in kf for i in ids):
                continue        # already a violation / attributed to a known finding of one side
            st["impl_mismatch"] += 1
            if st["impl_mismatch"] > MAX_REPLAY_FILES:
                continue
            out.violation("client and hosted %s downlinks differ on a well-behaved notification sequence: client %s hosted %s" % (
                c["cfg"]["kind"], json.dumps(r.get("obs")), json.dumps(other[1].get("obs"))),
                {"component": "dlstate-pair", "case": c, "observed": r, "other_case": other[0], "other_observed": other[1]})
    return st


def run(tier, out):
    rng = random.Random(core.seed())
    wd = core.workdir(PROP)
    core.build_harness("h_runtime", "dlstate")
    stats = {"states": 0, "transitions": 0, "sequences": 0, "graph_edges": 0, "coverage": {}}
    cases = generate(tier, wd, rng, stats)
    results = rp.run_cases("h_runtime", "dlstate", cases, wd, tag="dl", input_keys=INPUT_KEYS)
    st = judge(out, cases, results, wd, 1500 if tier == "quick" else 12000, rng)
    # the agent's own view: hosted downlinks and join lanes driven by the real agent task (configuration E)
    from checks import e_join
    e_join.run_e(tier, out, os.path.join(wd, "ejoin"), prop="C08")
    # the channel that carries the agent's local sets to a hosted value downlink (CircularBuffer.tla, K level)
    from checks import k_circbuf
    k_circbuf.run_k(tier, out, os.path.join(wd, "kcirc"), prop="C08")
    core.log("[C08] replayed %d cases (%d inputs) on the real downlinks: conform=%d divergent=%d (known=%d drift=%d rejected=%d); "
             "P evaluated %d cases / %d events in %.1fs; client-vs-hosted pairs=%d mismatches=%d" % (
                 st["cases"], st["steps"], st["conform"], st["divergent"], st["known"], st["drift"], st["rejected"],
                 st["p_cases"], st["p_events"], st["p_wall"], st["impl_pairs"], st["impl_mismatch"]))
    cov = stats["coverage"]
    never = [a for a in ALL_ACTIONS if cov.get(a, (0, 0))[1] == 0]
    by_kind = {}
    for c in cases:
        key = "%s/%s" % (c["cfg"]["kind"], c["cfg"]["impl"])
        by_kind[key] = by_kind.get(key, 0) + 1
    for c, r in list(zip(cases, results))[:: max(1, len(cases) // 4)][:4]:
        out.sample({"cfg": c["cfg"], "inputs_with_expected_outputs": c["acts"][:6], "observed": r.get("obs", [])[:6]}, cap=12)
    out.add(states=stats["states"], transitions=stats["transitions"], traces_validated_against_impl=st["cases"],
            sequences_enumerated_by_tlc=stats["sequences"], graph_edges_covered=stats["graph_edges"],
            replayed_inputs=st["steps"], cases_by_kind_impl=by_kind, conform_to_M=st["conform"], divergent_from_M=st["divergent"],
            model_drift=st["drift"], rejected_by_P=st["rejected"], rejected_by_kind_impl=st["rejected_by"], known_finding_cases=st["kf_cases"],
            p_trace_cases_evaluated=st["p_cases"], p_trace_events_evaluated=st["p_events"],
            client_vs_hosted_pairs_compared=st["impl_pairs"], client_vs_hosted_mismatches=st["impl_mismatch"],
            action_coverage={a: {"distinct": d, "taken": t} for a, (d, t) in cov.items()}, actions_never_taken=never,
            exhaustive=True,
            rule="a case = one input sequence (notifications + own writes) x config flags x implementation, replayed on the real "
                 "downlink; all sequences up to the length bound, a transition cover of the state graph and seeded random walks",
            checker_cmd="tlc MC_DownlinkState (INVARIANTS %s PROPERTY %s) + h_runtime dlstate + tlc Trace_DownlinkState" % (
                " ".join(INVS), " ".join(PROPS)))
    out.assumptions += [
        "the client map downlink applies its own writes to its replica optimistically, the hosted one does not; P accepts both "
        "(DESIGN.md C08 interpretation)",
        "take / drop removals may be reported as on_remove per entry (any order, any map between stepwise and final) or, when "
        "nothing is left, as on_clear",
        "the hosted downlinks are driven the way AgentModel's task drives them (await_ready, next_event, run handler) with a fake "
        "agent context; the agent task's own scheduling is not part of this check",
        "inputs outside the link grammar are explored for absence of panics only",
    ]
    if never:
        out.notes.append("actions never taken: %s" % never)


# ----------------------------------------------------------------------------- replay

def replay(path, out):
    obj = json.load(open(path))["replay"]
    if obj.get("component") == "e_join":
        from checks import e_join
        return e_join.replay(path, out)
    if obj.get("component") in ("circbuf", "circbuf-stress"):
        from checks import k_circbuf
        return k_circbuf.replay(path, out)
    wd = core.workdir(PROP + "_replay")
    core.build_harness("h_runtime", "dlstate")
    pairs = [(obj["case"], None)]
    if obj.get("other_case"):
        pairs.append((obj["other_case"], None))
    cases = [c for c, _ in pairs]
    results = rp.run_cases("h_runtime", "dlstate", cases, wd, tag="replay", input_keys=INPUT_KEYS)
    rejected, kf, _ = p_evaluate(list(zip(cases, results)), wd, "p_eval")
    bad = False
    for c, r in zip(cases, results):
        print("case %s %s" % (c["id"], json.dumps(c["cfg"])))
        for i, a in enumerate(c["acts"]):
            o = r.get("obs", [])
            print("  %2d %-40s expected %s\n     %-40s observed %s" % (
                i, json.dumps({k: v for k, v in a.items() if k in INPUT_KEYS}), json.dumps(expected(a)), "",
                json.dumps(o[i] if i < len(o) else None)))
        if r.get("panic"):
            print("  PANIC: %s" % r["panic"])
        print("  first difference from M at step: %s" % first_diff(c, r))
        if c["id"] in rejected:
            print("  P verdict: REJECTED at %s" % json.dumps(rejected[c["id"]]))
            bad = True
        elif c["id"] in kf:
            for f in kf[c["id"]]:
                print("KNOWN-FINDING: property=%s %s %s" % (PROP, f, enabled_findings()[f]["what"]))
        else:
            print("  P verdict: accepted")
    if len(cases) == 2 and results[0].get("obs") != results[1].get("obs") and not (set(c["id"] for c in cases) & set(kf)):
        print("  client and hosted observations differ")
        bad = True
    if bad:
        print("VIOLATION property=%s replay=%s" % (PROP, path))
        return 1
    return 0

"""stand-alone entry for the component-level write task check:  ./check KWT"""
from vlib import core
from checks import k_writetask
LEVEL = "model_checking"


def run(tier, out):
    k_writetask.run_k(tier, out, core.workdir("KWT"))
    out.add(rule="WriteTask.tla transition cover replayed on the real write task core")


def replay(path, out):
    return k_writetask.replay(path, out)

"""C18 - routing is deterministic: patterns invert, ambiguity is detected.

Specifications: specs/Route.tla (data model of patterns / URIs with percent-decoding, the mechanism of
unapply / apply / are_ambiguous / PlaneBuilder::build / Routes::find_route, and the laws),
specs/MC_Route.tla (case dumps), specs/Gen_Route.tla (the pattern parser's ParseState machine against the
pattern grammar; enumerates every string, malformed ones included).

B3  TLC checks the laws on the mechanism exhaustively at small scope: round trip, no empty binding,
    "overlap => reported ambiguous" (overlap is also checked against its definition, \\E URI), accepted
    table resolves every URI to at most one route, find_route = the match; parser = grammar.  The known
    open deviations F8c, F8d, F8f are excused by their shape; one extra run per finding WITHOUT its excuse must
    produce a counterexample (so no excuse is vacuous).  F8a, F8b, F8e are repaired in /repo (7530ccc, f104ab0):
    the mechanism model follows the repaired code and no law excuses them.
    Seeded `tlc -simulate` of the same specification draws long patterns (5 segments) and large tables (5 routes,
    half of them position-wise variants of a route already present) for depth.
B1  every state of those runs is a case: (pattern + maps + synthesised URIs), (route table + pairs +
    witness URIs), (pattern string).  The abstract symbols are concretised from pools (themes), the
    operations are run on the real swimos_route, and
      * the laws are evaluated over what the real code returned (P) -> VIOLATION / KNOWN-FINDING,
      * the complete results are compared with what the specification computes (M) -> MODEL-DRIFT note.
    Route tables are additionally submitted to the real server (ServerBuilder::add_route / build, i.e.
    PlaneBuilder::build) through the optional `swimos_server_app` feature of the harness binary.

Known findings (known_findings/C18.json) are matched by the SHAPE of the input (computed by the specification:
Route.tla F8a..F8f) together with the characteristic symptom in what the real code returned; a law broken in any
other way is a VIOLATION.
"""
import concurrent.futures, json, os, re, time
from vlib import core
from vlib import replay as rp

PROP = "C18"
# deviations of the mechanism model that Route.tla / Gen_Route.tla still excuse (the open findings).  F8a, F8b (7530ccc) and
# F8e (f104ab0) are repaired in /repo: the model follows the repaired code and nothing excuses them.
ALL_FINDINGS = ["F8c", "F8d", "F8f"]
LAWS = ["TypeOK", "LawRoundTrip", "LawApplyMissing", "LawNoEmptyBinding", "LawRegenerate", "LawDuplicateNamesDoNotInvert",
        "LawAmbiguityComplete", "LawWitness",
        "LawOverlapCharacterised", "LawResolveUnique", "LawBuildRejects"]
GEN_LAWS = ["GenTypeOK", "SegmentsInBounds", "ErrorInBounds", "ParserAcceptsGrammar", "ParserReadsAsGrammar"]
R = core.Raw


def tset(xs):
    return R("{" + ", ".join('"%s"' % x if isinstance(x, str) else ("TRUE" if x else "FALSE") for x in xs) + "}")


# ----------------------------------------------------------------------------- percent coding as the crate does it

UNRESERVED = set("ABCDEFGHIJKLMNOPQRSTUVWXYZabcdefghijklmnopqrstuvwxyz0123456789-_.~")   # complement of URL_ENCODE
PATH_CHARS = set("ABCDEFGHIJKLMNOPQRSTUVWXYZabcdefghijklmnopqrstuvwxyz0123456789~$-_.+!*'(),:@&=;")  # is_path_char
HEX = set("0123456789abcdefABCDEF")


def url_encode(s):
    return "".join(c if c in UNRESERVED else "".join("%%%02X" % b for b in c.encode("utf-8")) for c in s)


def pct_octets(s):
    """percent_decode_str: the decoded octets (what literal segments are compared by)"""
    b = s.encode("utf-8")
    out = bytearray()
    i = 0
    while i < len(b):
        if b[i] == 0x25 and i + 2 < len(b) and chr(b[i + 1]) in HEX and chr(b[i + 2]) in HEX:
            out.append(int(b[i + 1:i + 3].decode(), 16))
            i += 3
        else:
            out.append(b[i])
            i += 1
    return bytes(out)


def pct_decode(s):
    """percent_decode_str(..).decode_utf8_lossy(): the text a parameter is bound to"""
    b = s.encode("utf-8")
    out = bytearray()
    i = 0
    while i < len(b):
        if b[i] == 0x25 and i + 2 < len(b) and chr(b[i + 1]) in HEX and chr(b[i + 2]) in HEX:
            out.append(int(b[i + 1:i + 3].decode(), 16))
            i += 3
        else:
            out.append(b[i])
            i += 1
    return out.decode("utf-8", errors="replace")


def uri_legal_text(s):
    """every character may occur in a RouteUri path segment (path character or a complete escape)"""
    i = 0
    while i < len(s):
        c = s[i]
        if c == "%":
            if i + 2 < len(s) and s[i + 1] in HEX and s[i + 2] in HEX:
                i += 3
                continue
            return False
        if c not in PATH_CHARS:
            return False
        i += 1
    return True


def route_legal(r):
    """every character of a produced route may occur in a RouteUri (scheme / path)"""
    return all(uri_legal_text(x) for x in r.split("/"))


def scheme_legal(s):
    return bool(s) and s[0].isascii() and s[0].isalpha() and all(c.isascii() and (c.isalnum() or c in "+-.") for c in s)


# ----------------------------------------------------------------------------- concretisation pools

def theme(a, ae, b, du, ul, dv, dw, wl, dt, x, y, xe, s, t, sr, inv, pv):
    i1, i1l, i2 = inv       # escapes of octets that are not valid UTF-8: two spellings of one, and a different one
    th = {
        "seg": {"a": a, "ae": ae, "b": b, "ue": url_encode(du), "ul": ul, "ur": du,
                "v": dv, "we": url_encode(dw), "wl": wl, "tr": dt, "e": "",
                "i1": i1, "i1l": i1l, "i2": i2, "rf": url_encode(pct_decode(i1)),
                "pe": url_encode(pv), "pr": pv},
        "dec": {"a": pct_decode(a), "b": pct_decode(b), "u": du, "v": dv, "w": dw, "t": dt, "r": pct_decode(i1),
                "p": pv, "q": pct_decode(pv)},
        "name": {"x": x, "y": y, "xe": xe},
        "scheme": {"s": s, "t": t, "sr": sr},
    }
    sg, dc = th["seg"], th["dec"]
    # the relations the TLA+ data model assumes (SymDec, EncOf, UriLegalSym, NameDec, SchemeLegal)
    assert pct_decode(ae) == dc["a"] and a == url_encode(dc["a"]) and a != ae and "~" not in a
    assert pct_decode(sg["ue"]) == du and pct_decode(ul) == du and len({sg["ue"], ul, du}) == 3
    assert uri_legal_text(a) and uri_legal_text(ae) and uri_legal_text(b) and uri_legal_text(sg["ue"]) and uri_legal_text(ul)
    assert not uri_legal_text(du) and "/" not in du and ":" not in du
    assert url_encode(dv) == dv and uri_legal_text(dv)
    assert pct_decode(wl) == dw and wl != sg["we"] and uri_legal_text(wl) and uri_legal_text(sg["we"]) and ":" not in wl
    assert "~" in dt and url_encode(dt) == dt and uri_legal_text(dt)
    # SymOct / SymDec on the invalid-UTF-8 symbols: one lossy text (it contains U+FFFD), three different octet strings,
    # none of them valid UTF-8 except "rf", which is the canonical encoding of that text
    rf = sg["rf"]
    assert pct_decode(i1) == pct_decode(i1l) == pct_decode(i2) == pct_decode(rf) == dc["r"] and "\ufffd" in dc["r"]
    assert pct_octets(i1) == pct_octets(i1l) and len({pct_octets(i1), pct_octets(i2), pct_octets(rf)}) == 3 and len({i1, i1l, i2, rf}) == 4
    for z in (i1, i2):
        try:
            pct_octets(z).decode("utf-8")
            raise AssertionError("valid UTF-8: " + z)
        except UnicodeDecodeError:
            pass
    assert pct_octets(rf).decode("utf-8") == dc["r"] and all(uri_legal_text(z) for z in (i1, i1l, i2, rf))
    # "p": a value text that looks percent-encoded itself (unreserved characters and well-formed %XX only, at least one
    # triple): data, so apply must escape its '%'; read verbatim it would be another text ("q")
    assert all(c in UNRESERVED or c == "%" for c in pv) and uri_legal_text(pv) and "%" in pv
    assert pct_decode(pv) != pv and url_encode(pv) != pv and pct_decode(url_encode(pv)) == pv
    assert len(set(dc.values())) == 9 and all(dc.values())
    assert all(":" not in z and "/" not in z for z in (a, ae, b, ul, wl))
    assert pct_decode(x) == x and pct_decode(y) == y and pct_decode(xe) == x and len({x, y, xe}) == 3
    assert all(":" not in n and "/" not in n and n for n in (x, y, xe))
    assert scheme_legal(s) and scheme_legal(t) and s != t and not scheme_legal(sr) and sr[0].isalpha()
    assert all(":" not in z and "/" not in z for z in (s, t, sr))
    return th


THEMES = [
    theme("a", "%61", "b", "é", "%c3%a9", "v", "hello world!", "hello%20world!", "a~b",
          "id", "name", "%69d", "swim", "warp", "a_b", ("caf%E9", "caf%e9", "caf%E8"), "%41"),
    theme("node-1", "node%2D1", "unit%2Ffoo", "日本", "%e6%97%a5%E6%9C%AC", "x.y_z-0", "%41/é?#",
          "%2541%2F%c3%a9%3f%23", "~", "x", "x1", "%78", "a+b.c-d", "S", "a b", ("%FF", "%fF", "%FE"), "100%25"),
    theme("A", "%41", "a", "a b", "%61%20b", "0", ":x%4g", "%3ax%254g", "~~",
          "a", "A", "%61", "h", "H", "x~", ("%C3", "%c3", "%C2"), "a%2Fb"),
    theme("meta.node", "meta%2Enode", "%61", "x?y#z", "x%3fy%23z", "Z9", "a+b&c=d", "a%2bb%26c%3dd", "-~-",
          "node_id", "lane", "node%5Fid", "swimos", "swimo", "s_", ("%C0%AF", "%c0%af", "%C1%AF"), "%2f"),
    theme("z", "%7A", "zz", "50%", "5%30%25", "v1", "%zz", "%25%7a%7A", "x~y",
          "p q", "é", "p%20q", "w3", "w4", "a^", ("%C3%A9%E9x", "%c3%a9%e9%78", "%C3%A9%E8x"), "x%00y"),
    theme("q", "%71", "Q", "\U0001f600", "%f0%9f%98%80", "w", "\u0000\n", "%00%0a", "~0",
          "k", "kk", "%6b", "x", "y", "z z", ("%E6%97", "%e6%97", "%E6%98"), "%e2%82%ac"),
]

CHAR_THEMES = [
    {"a": "a", "b": "b", "1": "1"},
    {"a": "Z", "b": "q", "1": "é"},
    {"a": "x", "b": "y", "1": "%"},
    {"a": "a", "b": "A", "1": "日"},
    {"a": "s", "b": "t", "1": "-"},
    {"a": "m", "b": "n", "1": "~"},
    {"a": "c", "b": "d", "1": "?"},
    {"a": "g", "b": "h", "1": "\U0001f600"},
    {"a": "e", "b": "f", "1": " "},
    {"a": "u", "b": "w", "1": "#"},
    {"a": "c", "b": "f", "1": "%E9"},       # an escape of an octet that is not valid UTF-8 (three characters per "1")
    {"a": "k", "b": "l", "1": "%FF"},
    {"a": "o", "b": "p", "1": "%C3"},       # a truncated two-octet sequence
]


def render_pattern(p, th):
    s = (th["scheme"][p["sc"]] + ":") if p["sc"] else ""
    if p["abs"]:
        s += "/"
    return s + "/".join(th["seg"][g["s"]] if g["t"] == "lit" else ":" + th["name"][g["s"]] for g in p["segs"])


def render_uri(u, th):
    s = (th["scheme"][u["sc"]] + ":") if u["sc"] else ""
    if u["abs"]:
        s += "/"
    return s + "/".join(th["seg"][x] for x in u["segs"])


def fn(x):
    """a TLA+ function with a string domain arrives as an object, the empty one as []"""
    if x == "none" or x is None:
        return None
    if isinstance(x, list):
        assert not x
        return {}
    return x


# ----------------------------------------------------------------------------- triage

class Tally:
    def __init__(self, out, open_ids, record=True):
        self.out, self.open_ids, self.record = out, open_ids, record
        self.ops = 0
        self.cases = 0
        self.accepted_cases = 0
        self.drift = 0
        self.known = {}          # finding id -> [count, example]
        self.violations = 0
        self.law_evals = {}      # law -> evaluations on real observations
        self.scheme_cov = {}     # (schemes of two routes really matching one URI) x (scheme of that URI) -> count
        self.verdicts = []       # for --replay

    def law(self, name, n=1):
        self.law_evals[name] = self.law_evals.get(name, 0) + n

    def drift_note(self, text):
        self.drift += 1
        if self.drift <= 5 and self.record:
            self.out.notes.append("MODEL-DRIFT " + text)
        self.verdicts.append(("drift", text))

    def reject(self, law, text, candidates, ctx):
        """the real code's observation is rejected by law `law`.  candidates: findings whose shape is present
        in the input AND whose characteristic symptom is what was observed."""
        hit = [c for c in candidates if c in self.open_ids]
        if hit:
            for c in hit:
                k = self.known.setdefault(c, [0, None])
                k[0] += 1
                if k[1] is None:
                    k[1] = text
            self.verdicts.append(("known " + ",".join(hit), law + ": " + text))
            return False
        self.violations += 1
        self.verdicts.append(("VIOLATION", law + ": " + text))
        if self.record and self.violations <= 25:
            self.out.violation("%s: %s" % (law, text), ctx)
        return True


def ctx_of(kind, rec, ti, case, res):
    return {"component": "Route", "kind": kind, "rec": rec, "theme": ti, "case": case, "observed": res}


def check_regenerate(T, ps, pat_scheme, us, o, ctx):
    """L2': the pattern matched the URI `us` (path `o["path"]` as RouteUri reads it) and apply() of the bindings gave
    o["re"]: segment by segment the regenerated route must carry the same decoded text as the URI, with the same
    leading '/'.  (A text with a repeated parameter name, if the parser lets it through, fails exactly here: the map
    keeps one of the two values.)"""
    if not isinstance(o.get("s"), dict) or o.get("path") is None:
        return
    T.law("Regenerate")
    re_ = o.get("re")
    if not isinstance(re_, str):
        T.reject("Regenerate", "pattern %r matches %r with %s but apply of these bindings fails: %s" % (
            ps, us, json.dumps(o["s"], ensure_ascii=False), json.dumps(re_)), [], ctx)
        return
    body = re_[len(pat_scheme) + 1:] if pat_scheme is not None and re_.startswith(pat_scheme + ":") else re_
    path = o["path"]

    def texts(x):
        return [pct_decode(z) for z in (x[1:] if x.startswith("/") else x).split("/")]
    if body.startswith("/") != path.startswith("/") or texts(body) != texts(path):
        T.reject("Regenerate", "pattern %r matches %r with bindings %s, but apply of these bindings gives %r: the pattern does not invert" % (
            ps, us, json.dumps(o["s"], ensure_ascii=False), re_), [], ctx)


# ----------------------------------------------------------------------------- PAT: one pattern, maps, URIs

def cval(v, th):
    if v == "-":
        return None
    if v == "":
        return ""
    return th["dec"][v]


def build_pat(rec, ti, cid):
    th = THEMES[ti]
    ps = render_pattern(rec["p"], th)
    acts = [{"k": "parse", "p": ps}]
    for ar in rec["apply"]:
        acts.append({"k": "apply", "p": ps, "vals": [cval(v, th) for v in ar["vals"]]})
    for ur in rec["uris"]:
        acts.append({"k": "unapply", "p": ps, "u": render_uri(ur["u"], th)})
    return {"id": cid, "acts": acts}


def conc_bind(b, th, key):
    b = fn(b)
    if b is None:
        return None
    return {key(n): th["dec"][c] for n, c in b.items()}


def eval_pat(rec, ti, case, res, T):
    th = THEMES[ti]
    p = rec["p"]
    shapes = set(rec["shapes"])
    ps = case["acts"][0]["p"]
    ctx = ctx_of("PAT", rec, ti, case, res)
    if res.get("panic") is not None or "obs" not in res:
        T.reject("NoPanic", "panic in code under test on pattern %r: %s" % (ps, res.get("panic")), [], ctx)
        return
    obs = res["obs"]
    T.ops += len(obs)
    o = o0 = obs[0]
    names = [th["name"][n] for n in rec["names"]]
    if not o.get("ok"):
        if shapes & {"F8c", "F8d", "F8f"}:
            T.drift_note("parser rejects %r (shape %s) which the mechanism model accepts" % (ps, sorted(shapes)))
        else:
            T.reject("PatternsParse", "well-formed pattern %r rejected by RoutePattern::parse_str (offset %s)" % (ps, o.get("off")), [], ctx)
        return
    exp_parse = {"scheme": th["scheme"][p["sc"]] if p["sc"] else None, "abs": p["abs"], "params": names, "display": ps}
    got_parse = {k: o.get(k) for k in exp_parse}
    if got_parse != exp_parse:
        T.drift_note("parse(%r) reads %s, specification %s" % (ps, json.dumps(got_parse), json.dumps(exp_parse)))
    real_params = o.get("params", [])
    same_names = len(real_params) == len(names)

    def by_real(raw_name_sym):
        i = rec["names"].index(raw_name_sym)
        return real_params[i] if same_names else th["name"][raw_name_sym]

    def by_raw(n):
        return th["name"][n]

    def decoded_keys(m):
        """the bindings as the code before 7530ccc keyed them (percent-decoded names): the symptom of F8b"""
        return {pct_decode(k_) for k_ in m}

    k = 1
    for ar in rec["apply"]:
        o = obs[k]
        k += 1
        if "bad" in o:
            continue
        m_used = o.get("m_used", {})
        complete = all((n in m_used and m_used[n] != "") for n in real_params)
        T.law("RoundTrip")
        if "r" in o:
            if o.get("rt") != m_used or o.get("rt_uri") != m_used:
                cand = []
                bad_shapes = shapes & {"F8c", "F8d", "F8f"}
                if "F8b" in shapes and o.get("rt") is not None and set(o["rt"]) == decoded_keys(m_used) != set(m_used):
                    cand.append("F8b")
                if "F8c" in shapes and th["seg"]["ur"] in o["r"] and not route_legal(o["r"]):
                    cand.append("F8c")      # the literal that no RouteUri can hold is in the produced route, verbatim
                if "F8f" in shapes and (not o.get("uri_ok") or o.get("uscheme") != exp_parse["scheme"]):
                    cand.append("F8f")      # RouteUri does not read the pattern's scheme as a scheme
                if "F8d" in shapes and o.get("rt") is None and o["r"].endswith(":"):
                    cand.append("F8d")
                if ar.get("f8e") and th["dec"]["t"] in o["r"] and not bad_shapes:
                    cand.append("F8e")      # only when nothing else about the pattern explains the failure
                T.reject("RoundTrip", "pattern %r: apply(%s) = %r but unapply_str of that = %s (path read: %r)" % (
                    ps, json.dumps(m_used, ensure_ascii=False), o["r"], json.dumps(o.get("rt"), ensure_ascii=False), o.get("path")), cand, ctx)
            elif ar["ok"]:
                if o["r"] != render_uri(ar["r"], th):
                    T.drift_note("apply on %r gives %r, mechanism model %r" % (ps, o["r"], render_uri(ar["r"], th)))
                elif conc_bind(ar.get("rt"), th, by_raw) != m_used:
                    T.drift_note("round trip on %r holds although the mechanism model predicts %s" % (ps, ar.get("rt")))
            else:
                T.drift_note("apply on %r succeeds with %s" % (ps, json.dumps(m_used)))
        else:
            if complete:
                T.reject("RoundTrip", "pattern %r: apply fails (%s) although every parameter has a non-empty value %s" % (
                    ps, o.get("missing"), json.dumps(m_used, ensure_ascii=False)), [], ctx)
            elif ar["ok"] or o.get("missing") != ", ".join(th["name"][n] for n in ar["missing"]):
                T.drift_note("apply on %r reports missing %r, mechanism model %s" % (ps, o.get("missing"), ar.get("missing")))
    for ur in rec["uris"]:
        o = obs[k]
        us = case["acts"][k]["u"]
        k += 1
        if "bad" in o:
            continue
        T.law("MatchIsFunctionOfUri")
        if not o.get("stable"):
            T.reject("MatchIsFunctionOfUri", "pattern %r, URI %r: repeated / re-parsed / unapply_route_uri calls disagree: %s" % (ps, us, json.dumps(o)), [], ctx)
            continue
        got = o.get("s")
        T.law("NoEmptyBinding")
        if isinstance(got, dict) and any(v == "" for v in got.values()):
            T.reject("NoEmptyBinding", "pattern %r binds an empty segment of %r: %s" % (ps, us, json.dumps(got)), [], ctx)
            continue
        check_regenerate(T, ps, o0.get("scheme"), us, o, ctx)
        exp_p = conc_bind(ur["bp"], th, by_real) if ur["m"] else None
        exp_m = conc_bind(ur["bm"], th, by_raw) if ur["m"] else None
        T.law("MatchAsSpecified")
        if got != exp_p:
            cand = ["F8b"] if ("F8b" in shapes and got is not None and exp_p is not None
                               and set(got) == decoded_keys(exp_p) != set(exp_p)) else []
            T.reject("MatchAsSpecified", "pattern %r, URI %r: unapply gives %s, specification %s" % (
                ps, us, json.dumps(got, ensure_ascii=False), json.dumps(exp_p, ensure_ascii=False)), cand, ctx)
        elif got != exp_m:
            T.drift_note("unapply(%r, %r) = %s, mechanism model %s" % (ps, us, json.dumps(got), json.dumps(exp_m)))
        elif not o.get("uri_ok"):
            T.drift_note("RouteUri rejects the well-formed %r" % us)


# ----------------------------------------------------------------------------- TAB: a route table

def build_tab(rec, ti, cid):
    th = THEMES[ti]
    ps = [render_pattern(p, th) for p in rec["ps"]]
    pairs = sorted((pr["i"], pr["j"]) for pr in rec["pairs"])
    acts = [{"k": "amb", "p": ps[i - 1], "q": ps[j - 1]} for (i, j) in pairs]
    us = sorted(rec["us"], key=lambda x: core.canon(x["u"]))
    acts.append({"k": "table", "ps": ps, "us": [render_uri(x["u"], th) for x in us]})
    if SERVER["bin"]:
        acts.append({"k": "server", "ps": ps})
    return {"id": cid, "acts": acts}


def eval_tab(rec, ti, case, res, T):
    ctx = ctx_of("TAB", rec, ti, case, res)
    if res.get("panic") is not None or "obs" not in res:
        T.reject("NoPanic", "panic in code under test on table %s: %s" % (case["acts"][-1].get("ps"), res.get("panic")), [], ctx)
        return
    obs = res["obs"]
    T.ops += len(obs)
    ti_ = [i for i, a in enumerate(case["acts"]) if a["k"] == "table"][0]
    si_ = [i for i, a in enumerate(case["acts"]) if a["k"] == "server"]
    srv = obs[si_[0]] if si_ else None
    ps = case["acts"][ti_]["ps"]
    ustr = case["acts"][ti_]["us"]
    if any("bad" in o for o in obs):
        if any(rec_shapes(p) & {"F8c", "F8d", "F8f"} for p in rec["ps"]):
            T.drift_note("table %s: a pattern with a known shape is rejected by the parser" % ps)
        else:
            T.reject("PatternsParse", "a well-formed pattern of %s is rejected by RoutePattern::parse_str" % ps, [], ctx)
        return
    pairs = sorted(rec["pairs"], key=lambda pr: (pr["i"], pr["j"]))
    amb = {}
    for pr, o in zip(pairs, obs[:ti_]):
        amb[(pr["i"] - 1, pr["j"] - 1)] = (o, pr)
    tab = obs[ti_]
    us = sorted(rec["us"], key=lambda x: core.canon(x["u"]))
    clash = False
    for x, r, u in zip(us, tab["res"], ustr):
        exp_all = sorted(i - 1 for i in x["all"])
        T.law("MatchAsSpecified")
        if r["all"] != exp_all:
            T.reject("MatchAsSpecified", "routes %s, URI %r: matched by %s, specification %s" % (ps, u, r["all"], exp_all), [], ctx)
            # no `continue`: the laws below are about what the real code matched, whatever the specification expected
        if r["first"] != (min(r["all"]) if r["all"] else None):
            T.reject("FindRoute", "routes %s, URI %r: first match %s of %s" % (ps, u, r["first"], r["all"]), [], ctx)
        # L3 on what the real code did: two routes really match u => are_ambiguous must say so, both ways
        for ai in range(len(r["all"])):
            for bi in range(ai + 1, len(r["all"])):
                i, j = r["all"][ai], r["all"][bi]
                o, pr = amb[(i, j)]
                T.law("AmbiguityComplete")
                si, sj, su = rec["ps"][i]["sc"], rec["ps"][j]["sc"], x["u"]["sc"]
                pk = "none,none" if not si and not sj else "none,s" if not si or not sj else "s,s" if si == sj else "s,t"
                T.scheme_cov[pk + " | uri " + ("none" if not su else "s")] = T.scheme_cov.get(pk + " | uri " + ("none" if not su else "s"), 0) + 1
                if not (o["lr"] and o["rl"]):
                    cand = ["F8a"] if (pr["f8a"] and not o["lr"] and not o["rl"]) else []
                    T.reject("AmbiguityComplete", "%r and %r both match %r but are_ambiguous = %s / %s (reversed)" % (
                        ps[i], ps[j], u, o["lr"], o["rl"]), cand, ctx)
        if len(r["all"]) > 1:
            clash = clash or (u, r["all"])
    # L4: a table that build() accepts resolves every URI to at most one definition
    T.law("ResolveUnique")
    if tab["accepted"] and clash:
        u, al = clash
        unrep = [amb[(al[x], al[y])] for x in range(len(al)) for y in range(x + 1, len(al))
                 if not (amb[(al[x], al[y])][0]["lr"] and amb[(al[x], al[y])][0]["rl"])]
        f8a = bool(unrep) and all(pr["f8a"] for (_, pr) in unrep)
        T.reject("ResolveUnique", "no pair of %s is reported ambiguous (PlaneBuilder::build's criterion) although %r resolves to routes %s" % (ps, u, al),
                 ["F8a"] if f8a else [], ctx)
    # the same law on the real server: ServerBuilder::build -> PlaneBuilder::build
    if srv is not None and "accepted" in srv:
        T.law("ResolveUnique(server)")
        if srv["accepted"] and clash:
            u, al = clash
            unrep = [amb[(al[x], al[y])] for x in range(len(al)) for y in range(x + 1, len(al))
                     if not (amb[(al[x], al[y])][0]["lr"] and amb[(al[x], al[y])][0]["rl"])]
            f8a = bool(unrep) and all(pr["f8a"] for (_, pr) in unrep)
            T.reject("ResolveUnique", "the server (ServerBuilder::build) accepts the routes %s although %r resolves to routes %s" % (ps, u, al),
                     ["F8a"] if f8a else [], ctx)
        flagged = sorted(srv["error"].split(": [", 1)[1].rstrip("]").split(", ")) if srv.get("error") and ": [" in srv["error"] else []
        if srv["accepted"] != tab["accepted"] or (not srv["accepted"] and flagged != sorted(ps[i] for i in tab["amb"])):
            T.drift_note("ServerBuilder::build(%s): accepted=%s %s; pairwise are_ambiguous gives accepted=%s ambiguous=%s" % (
                ps, srv["accepted"], srv.get("error"), tab["accepted"], tab["amb"]))
    elif srv is not None and "other_error" in srv:
        T.drift_note("ServerBuilder::build(%s) fails with %s" % (ps, srv["other_error"]))
    # mechanism level
    for (i, j), (o, pr) in amb.items():
        if o["lr"] != pr["ambM"] or o["rl"] != pr["ambM"]:
            T.drift_note("are_ambiguous(%r, %r) = %s/%s, mechanism model %s" % (ps[i], ps[j], o["lr"], o["rl"], pr["ambM"]))
    if tab["accepted"] != rec["accM"] or tab["amb"] != sorted(i - 1 for i in rec["tabAmbM"]):
        T.drift_note("build(%s) accepted=%s ambiguous=%s, mechanism model %s %s" % (ps, tab["accepted"], tab["amb"], rec["accM"], rec["tabAmbM"]))


# ----------------------------------------------------------------------------- BAD: a text repeating a parameter name

BAD_VALS = ["v", "hello world!", "é", "a%2Fb", "%4g", "z"]


def build_bad(rec, ti, cid):
    th = THEMES[ti]
    ps = render_pattern(rec["p"], th)
    us = sorted(render_uri(u, th) for u in rec["uris"])
    return {"id": cid, "acts": [{"k": "parse", "p": ps}, {"k": "apply", "p": ps, "vals": BAD_VALS[:len(rec["names"])]}] +
            [{"k": "unapply", "p": ps, "u": u} for u in us]}


def eval_bad(rec, ti, case, res, T):
    """The specification says ParseError.  If the real parser takes the text, it is a pattern and the laws apply to it."""
    ctx = ctx_of("BAD", rec, ti, case, res)
    ps = case["acts"][0]["p"]
    if res.get("panic") is not None or "obs" not in res:
        T.reject("NoPanic", "panic in code under test on pattern text %r: %s" % (ps, res.get("panic")), [], ctx)
        return
    obs = res["obs"]
    T.ops += len(obs)
    o0 = obs[0]
    if not o0.get("ok"):
        return                      # rejected, as specified
    T.drift_note("parser accepts %r, which repeats a parameter name (parameters() = %s)" % (ps, o0.get("params")))
    a = obs[1]
    T.law("RoundTrip")
    if "r" in a and (a.get("rt") != a.get("m_used") or a.get("rt_uri") != a.get("m_used")):
        T.reject("RoundTrip", "pattern %r: apply(%s) = %r but unapply_str of that = %s" % (
            ps, json.dumps(a.get("m_used"), ensure_ascii=False), a["r"], json.dumps(a.get("rt"), ensure_ascii=False)), [], ctx)
    for act, o in zip(case["acts"][2:], obs[2:]):
        if isinstance(o.get("s"), dict) and any(v == "" for v in o["s"].values()):
            T.reject("NoEmptyBinding", "pattern %r binds an empty segment of %r" % (ps, act["u"]), [], ctx)
        check_regenerate(T, ps, o0.get("scheme"), act["u"], o, ctx)


def rec_shapes(p):
    s = set()
    if not p["segs"]:
        s.add("F8d")
    if any(g["t"] == "lit" and g["s"] == "ur" for g in p["segs"]):
        s.add("F8c")
    if p["sc"] == "sr":
        s.add("F8f")
    if any(g["t"] == "par" and g["s"] == "xe" for g in p["segs"]):
        s.add("F8b")
    return s


# ----------------------------------------------------------------------------- STR: a pattern string (parser)

STR_VALS = ["100%25", "%4g", "é/%41\ufffd"]


def str_probe(rec, chars):
    """a URI for the segments the parser MODEL read (also when it then rejected the string for a repeated name): the
    literal texts, and a different value at every parameter position; None if the literals cannot occur in a URI"""
    if not rec["segs"] or (rec["sc"] >= 0 and not scheme_legal("".join(chars[:rec["sc"]]))):
        return None
    segs = []
    for n, g in enumerate(rec["segs"]):
        t = "".join(chars[g["b"]:g["e"]])
        if g["par"]:
            segs.append("p%d" % n)
        elif uri_legal_text(t):
            segs.append(t)
        else:
            return None
    return (("".join(chars[:rec["sc"]]) + ":") if rec["sc"] >= 0 else "") + ("/" if rec["abs"] else "") + "/".join(segs)


def build_str(rec, ti, cid):
    ct = CHAR_THEMES[ti]
    chars = [ct.get(c, c) for c in rec["s"]]
    s = "".join(chars)
    acts = [{"k": "parse", "p": s}, {"k": "apply", "p": s, "vals": STR_VALS}]
    u = str_probe(rec, chars)
    if u is not None:
        acts.append({"k": "unapply", "p": s, "u": u})
    return {"id": cid, "acts": acts}


def eval_str(rec, ti, case, res, T):
    ct = CHAR_THEMES[ti]
    ctx = ctx_of("STR", rec, ti, case, res)
    s = case["acts"][0]["p"]
    if res.get("panic") is not None or "obs" not in res:
        T.reject("NoPanic", "RoutePattern::parse_str(%r) / apply panics: %s" % (s, res.get("panic")), [], ctx)
        return
    o, a = res["obs"][:2]
    T.ops += len(res["obs"])
    if len(res["obs"]) > 2 and o.get("ok") and "bad" not in res["obs"][2]:
        pr = res["obs"][2]
        if isinstance(pr.get("s"), dict) and any(v == "" for v in pr["s"].values()):
            T.reject("NoEmptyBinding", "pattern %r binds an empty segment of %r" % (s, case["acts"][2]["u"]), [], ctx)
        check_regenerate(T, s, o.get("scheme"), case["acts"][2]["u"], pr, ctx)
    chars = [ct.get(c, c) for c in rec["s"]]

    def boff(n):
        return len("".join(chars[:n]).encode("utf-8"))

    def text(g):
        return "".join(chars[g["b"]:g["e"]])
    scheme = "".join(chars[:rec["sc"]]) if rec["sc"] >= 0 else None
    # could this text occur in a RouteUri?  (decided on the concrete string and on the scheme the real parser reports,
    # not on the model's reading, which is not to be trusted for a string the model rejects)
    sch_legal = o.get("scheme") is None or scheme_legal(o["scheme"])
    body = s[len(o["scheme"]) + 1:] if o.get("scheme") is not None else s
    legal = route_legal(body)
    if o.get("ok"):
        # whatever the parser accepts is a pattern: the round trip law applies to it
        T.law("RoundTrip")
        m_used = a.get("m_used", {})
        if "r" not in a:
            T.reject("RoundTrip", "pattern %r: apply fails (%s) on the complete map %s" % (s, a.get("missing"), json.dumps(m_used)), [], ctx)
        elif a.get("rt") != m_used or a.get("rt_uri") != m_used:
            cand = []
            if not legal and not route_legal(a["r"]):
                cand.append("F8c")          # text that no RouteUri can hold is in the produced route, verbatim
            if not sch_legal and (not a.get("uri_ok") or a.get("uscheme") != o.get("scheme")):
                cand.append("F8f")
            if rec["ok"] and not rec["segs"] and a.get("rt") is None and a["r"].endswith(":"):
                cand.append("F8d")
            if any(pct_decode(n) != n for n in o.get("params", [])) and a.get("rt") is not None:
                cand.append("F8b")
            T.reject("RoundTrip", "pattern %r: apply(%s) = %r but unapply_str of that = %s" % (
                s, json.dumps(m_used, ensure_ascii=False), a["r"], json.dumps(a.get("rt"), ensure_ascii=False)), cand, ctx)
    elif rec["ok"] and rec["g"] and legal and (scheme is None or scheme_legal(scheme)):
        T.reject("PatternsParse", "well-formed pattern %r rejected by RoutePattern::parse_str (offset %s)" % (s, o.get("off")), [], ctx)
        return
    # mechanism level: same verdict, same reading, same error offset (bytes)
    if rec["ok"]:
        exp = {"ok": True, "scheme": scheme, "abs": rec["abs"], "params": [text(g) for g in rec["segs"] if g["par"]]}
    else:
        exp = {"ok": False, "off": boff(rec["off"])}
    got = {k: o.get(k) for k in exp}
    if got != exp:
        T.drift_note("parse_str(%r) = %s, parser model %s" % (s, json.dumps(got), json.dumps(exp)))


KINDS = {"PAT": (build_pat, eval_pat), "TAB": (build_tab, eval_tab), "STR": (build_str, eval_str), "BAD": (build_bad, eval_bad)}

# ----------------------------------------------------------------------------- the harness binary

SERVER = {"bin": None, "note": None}


def build_route_harness(wd):
    """h_core/route is built twice: plainly (core.build_harness; also relocates the harness for VERIF_REPO), then with
    the optional dependency on swimos_server_app so that the `server` operation drives the real ServerBuilder /
    PlaneBuilder.  The featured binary is copied into the work directory (another check building h_core would
    relink target/debug/route without the feature).  If the server crate does not build, the check goes on without
    the `server` operation and says so in the evidence."""
    import shutil, subprocess
    core.build_harness("h_core", "route")
    if os.environ.get("VERIF_C18_NO_SERVER"):
        # for quick mutant trials against a scratch repository: skip the (long, first time) build of the server crate
        SERVER["bin"], SERVER["note"] = None, "server binding switched off by VERIF_C18_NO_SERVER"
        return
    t0 = time.time()
    p = subprocess.run(["cargo", "build", "--offline", "-p", "h_core", "--bin", "route", "--features", "swimos_server_app"],
                       cwd=core.HARNESS, env=core.cargo_env(), stdout=subprocess.PIPE, stderr=subprocess.STDOUT, text=True,
                       timeout=3600)
    if p.returncode != 0:
        SERVER["bin"] = None
        SERVER["note"] = "server binding unavailable (cargo build --features swimos_server_app failed): " + " | ".join(p.stdout.splitlines()[-5:])
        core.log("[C18] " + SERVER["note"][:300])
        core._built.discard(("h_core", "route"))
        core.build_harness("h_core", "route")
        return
    dst = os.path.join(wd, "route_with_server")
    shutil.copy2(core.harness_bin("route"), dst)
    SERVER["bin"] = dst
    core.log("[build] h_core route --features swimos_server_app ok in %.1fs" % (time.time() - t0))


def run_cases(cases, wd, tag):
    if not SERVER["bin"]:
        return rp.run_cases("h_core", "route", cases, wd, tag=tag, strip=False)
    import subprocess
    inp, outp = os.path.join(wd, tag + ".in.ndjson"), os.path.join(wd, tag + ".out.ndjson")
    core.write_ndjson(inp, cases)
    with open(inp) as fin, open(outp, "w") as fout:
        p = subprocess.run([SERVER["bin"]], stdin=fin, stdout=fout, stderr=subprocess.PIPE, text=True, timeout=3600,
                           env=core.coverage_env(dict(os.environ, RUST_BACKTRACE="0"), "route"))
    if p.returncode != 0:
        raise core.ToolError("harness route exited %s:\n%s" % (p.returncode, p.stderr[-4000:]))
    res = core.read_ndjson(outp)
    if len(res) != len(cases):
        raise core.ToolError("harness route answered %d of %d cases" % (len(res), len(cases)))
    return res


# ----------------------------------------------------------------------------- TLC configurations

def route_cfg(lits, pars, schemes, absf, maxsegs, maxroutes, findings=ALL_FINDINGS, deep=False, dump=True):
    k = dict(LitSyms=tset(lits), ParSyms=tset(pars), Schemes=tset(schemes), AbsFlags=tset(absf), MaxSegs=maxsegs,
             MaxRoutes=maxroutes, Findings=tset(findings), DeepOverlap=deep)
    invs = list(LAWS) + (["PatDump", "TabDump", "BadDump"] if dump else [])
    return core.cfg(constants=k, invariants=invs, properties=["FindIsTheMatch"], view="View")


def gen_cfg(maxlen, findings=ALL_FINDINGS, dump=True):
    k = dict(Chars=tset(["/", ":", "a", "b", "1"]), MaxLen=maxlen, Findings=tset(findings))
    return core.cfg(init="GenInit", next_="GenNext", constants=k, invariants=GEN_LAWS + (["StrDump"] if dump else []))


def sim_cfg():
    k = dict(LitSyms=tset(["a", "ae", "b", "ue", "ul", "ur", "i1", "i1l", "i2", "rf"]), ParSyms=tset(["x", "y", "xe"]),
             Schemes=tset(["", "s", "t", "sr"]), AbsFlags=tset([True, False]), MaxSegs=5, MaxRoutes=5, Findings=tset(ALL_FINDINGS), DeepOverlap=False)
    return core.cfg(next_="SimNext", constants=k, invariants=[l for l in LAWS if l != "TypeOK"] + ["PatDump", "TabDump"],
                    properties=["FindIsTheMatch"])


def plan(tier):
    """(name, module, cfg text, workers, themes per record[, simulate])"""
    L6 = ["a", "ae", "b", "ue", "ul", "ur"]
    if tier == "quick":
        return [
            ("simulation", "MC_Route", sim_cfg(), 1, 1, "num=400"),
            ("patterns", "MC_Route", route_cfg(L6, ["x", "y", "xe"], ["", "s", "sr"], [True, False], 2, 1), 1, 6),
            ("patterns3", "MC_Route", route_cfg(["a", "ae", "ur"], ["x", "xe"], ["", "s"], [True, False], 3, 1), 1, 2),
            ("pairs", "MC_Route", route_cfg(["a", "ae", "b"], ["x", "y"], ["", "s"], [True, False], 2, 2), 1, 1),
            # escapes of octets that are not valid UTF-8 (%E9 / %e9 / %E8 / %EF%BF%BD): one lossy text, different octets.
            # Literals are compared by octets - in unapply and in are_ambiguous alike.
            ("patterns-octets", "MC_Route", route_cfg(["a", "i1", "i1l", "i2", "rf", "ur"], ["x"], ["", "s"], [True, False], 2, 1), 1, 6),
            ("pairs-octets", "MC_Route", route_cfg(["a", "i1", "i1l", "i2", "rf"], ["x"], [""], [True], 2, 2), 1, 3),
            ("tables-octets", "MC_Route", route_cfg(["i1", "i2", "rf"], ["x"], [""], [True], 1, 3), 1, 2),
            ("overlap-def-octets", "Route", route_cfg(["i1", "i1l", "i2", "rf"], ["x"], ["", "s"], [True, False], 2, 2, deep=True, dump=False), 2, 0),
            # schemes: a URI without a scheme matches a pattern of ANY scheme, so 's:/a' and 't:/a' overlap - needs two
            # explicit scheme symbols, all of (none, s) (s, s) (s, t), and witnesses with no scheme / s / t
            ("pairs-schemes", "MC_Route", route_cfg(["a", "b"], ["x"], ["", "s", "t"], [True, False], 2, 2), 1, 2),
            ("tables-schemes", "MC_Route", route_cfg(["a"], ["x"], ["", "s", "t"], [True], 2, 3), 1, 1),
            ("pairs3", "MC_Route", route_cfg(["a", "ae", "ur"], ["x"], [""], [True], 3, 2), 1, 1),
            ("tables", "MC_Route", route_cfg(["a", "ae", "b"], ["x"], [""], [True], 2, 3), 1, 1),
            ("overlap-def", "Route", route_cfg(["a", "ae", "b"], ["x"], ["", "s", "t"], [True, False], 2, 2, deep=True, dump=False), 2, 0),
            ("parser", "Gen_Route", gen_cfg(6), 1, 2),
        ]
    return [
        ("simulation", "MC_Route", sim_cfg(), 1, 2, "num=20000"),
        ("patterns", "MC_Route", route_cfg(L6, ["x", "y", "xe"], ["", "s", "t", "sr"], [True, False], 3, 1), 1, 6),
        ("pairs", "MC_Route", route_cfg(["a", "ae", "b", "ue", "ur"], ["x", "y", "xe"], ["", "s", "t"], [True, False], 2, 2), 1, 2),
        ("pairs3", "MC_Route", route_cfg(["a", "ae", "b", "ur"], ["x", "y"], [""], [True], 3, 2), 1, 2),
        ("patterns-octets", "MC_Route", route_cfg(["a", "i1", "i1l", "i2", "rf", "ur"], ["x", "xe"], ["", "s"], [True, False], 3, 1), 1, 6),
        ("pairs-octets", "MC_Route", route_cfg(["a", "ae", "i1", "i1l", "i2", "rf", "ur"], ["x", "y"], ["", "s"], [True, False], 2, 2), 1, 3),
        ("tables-octets", "MC_Route", route_cfg(["a", "i1", "i2", "rf"], ["x"], [""], [True], 2, 3), 1, 2),
        ("overlap-def-octets", "Route", route_cfg(["a", "i1", "i1l", "i2", "rf"], ["x"], ["", "s"], [True, False], 2, 2, deep=True, dump=False), 4, 0),
        ("tables", "MC_Route", route_cfg(["a", "ae", "b"], ["x"], [""], [True], 2, 4), 1, 2),
        ("tables-mixed", "MC_Route", route_cfg(["a", "ae"], ["x"], ["", "s", "t"], [True, False], 2, 3), 1, 2),
        ("overlap-def", "Route", route_cfg(["a", "ae", "b", "ue", "ur"], ["x", "xe"], ["", "s", "t"], [True, False], 2, 2, deep=True, dump=False), 4, 0),
        ("parser", "Gen_Route", gen_cfg(8), 1, 4),
    ]


def counterexample_runs():
    """one small run per finding WITHOUT its excuse: TLC must find the law it breaks on the mechanism"""
    runs = []
    for f in ALL_FINDINGS:
        rest = [x for x in ALL_FINDINGS if x != f]
        runs.append((f, "Route", route_cfg(["a", "ae", "ur"], ["x", "xe"], ["", "s", "sr"], [True, False], 2, 2, findings=rest, dump=False)))
    runs.append(("F8d-parser", "Gen_Route", gen_cfg(3, findings=[], dump=False)))
    return runs


# ----------------------------------------------------------------------------- run

def pick_themes(kind, idx, n, rng_salt):
    pool = CHAR_THEMES if kind == "STR" else THEMES
    if n >= len(pool):
        return list(range(len(pool)))
    start = (idx * 7 + rng_salt) % len(pool)
    return [(start + i * (len(pool) // n or 1)) % len(pool) for i in range(n)]


def run_records(kind, recs, nthemes, wd, tag, T, salt):
    build, evaluate = KINDS[kind]
    cases, meta = [], []
    for idx, rec in enumerate(recs):
        for ti in pick_themes(kind, idx, nthemes, salt):
            cid = "%s.%d.%d" % (tag, idx, ti)
            cases.append(build(rec, ti, cid))
            meta.append((rec, ti))
    CH = 20000
    for lo in range(0, len(cases), CH):
        chunk = cases[lo:lo + CH]
        results = run_cases(chunk, wd, "%s_%d" % (tag, lo // CH))
        for case, res, (rec, ti) in zip(chunk, results, meta[lo:lo + CH]):
            v0, k0 = T.violations, sum(x[0] for x in T.known.values())
            evaluate(rec, ti, case, res, T)
            T.cases += 1
            if T.violations == v0:
                T.accepted_cases += 1
    return len(cases)


def run(tier, out):
    wd = core.workdir(PROP)
    # the server runtime's use of the route table: which agent instance an envelope reaches (ServerPlane.tla)
    from checks import k_server
    k_server.run_k(tier, out, os.path.join(wd, "kserver"), prop=PROP)
    build_route_harness(wd)
    open_ids = {f["id"] for f in core.open_findings(PROP)}
    T = Tally(out, open_ids)
    salt = core.seed()
    pl = plan(tier)
    cx = counterexample_runs()
    t0 = time.time()

    def tlc_job(job):
        name, module, cfgtext, workers = job[0], job[1], job[2], (job[3] if len(job) > 3 else 1)
        sim = job[5] if len(job) > 5 else None
        try:
            return core.run_tlc(module, cfgtext, os.path.join(wd, "tlc_" + name), workers=workers, timeout=3000,
                                xmx="6g" if tier == "thorough" else "3g", simulate=sim,
                                extra=["-depth", "10", "-seed", str(core.seed())] if sim else ())
        except core.ToolError as ex:
            return ex

    with concurrent.futures.ThreadPoolExecutor(max_workers=3 if tier == "quick" else 3) as ex:
        fut_main = [ex.submit(tlc_job, j) for j in pl]
        fut_cx = [ex.submit(tlc_job, j) for j in cx]
        tot_states = tot_trans = 0
        sim_states = [0]
        cov = {}
        runs_info = []
        n_cases = 0
        for job, fu in zip(pl, fut_main):
            r = fu.result()
            name, module, nthemes = job[0], job[1], job[4]
            if isinstance(r, Exception):
                raise r
            if not r.ok:
                raise core.ToolError("the mechanism model breaks a law beyond the excused findings in run '%s' (%s %s):\n%s" % (
                    name, r.status, r.violated, r.counterexample[:3000]))
            if len(job) > 5:
                # simulation: TLC reports only "The number of states generated"; behaviours repeat records
                m = re.search(r"The number of states generated: (\d+)", r.stdout)
                r.generated = int(m.group(1)) if m else 0
                for kind in ("PAT", "TAB"):
                    seen, uniq = set(), []
                    for x in r.tagged.get(kind, []):
                        c = core.canon(x)
                        if c not in seen:
                            seen.add(c)
                            uniq.append(x)
                    r.tagged[kind] = uniq
                r.distinct = len(r.tagged.get("PAT", [])) + len(r.tagged.get("TAB", []))
                sim_states[0] += r.generated
            else:
                tot_states += r.distinct
                tot_trans += r.generated
            for a, (d, t) in r.coverage.items():
                o = cov.get(a, (0, 0))
                cov[a] = (o[0] + d, o[1] + t)
            info = {"run": name, "module": module, "states": r.distinct, "transitions": r.generated, "depth": r.depth,
                    "tlc_wall_s": round(r.wall, 1)}
            for kind in ("PAT", "TAB", "STR", "BAD"):
                recs = r.tagged.get(kind, [])
                if recs and nthemes:
                    n = run_records(kind, recs, nthemes, wd, "%s_%s" % (name, kind), T, salt)
                    n_cases += n
                    info[kind + "_records"] = len(recs)
                    info[kind + "_cases"] = n
                    if kind == "PAT" and name == "patterns":
                        smp = recs[len(recs) // 2]
                        out.sample({"kind": "PAT (abstract record from TLC)", "p": smp["p"], "shapes": smp["shapes"],
                                    "apply": smp["apply"][:2], "uris": smp["uris"][:3]})
                        out.sample({"kind": "PAT concretised", "acts": build_pat(smp, 0, "sample")["acts"][:6]})
                    if kind == "TAB" and name in ("tables",):
                        smp = recs[len(recs) // 2]
                        out.sample({"kind": "TAB (abstract record from TLC)", "rec": smp})
                        out.sample({"kind": "TAB concretised", "acts": build_tab(smp, 1, "sample")["acts"]})
                    if kind == "STR":
                        out.sample({"kind": "STR", "recs": recs[len(recs) // 3: len(recs) // 3 + 3],
                                    "concretised": [build_str(x, 1, "s")["acts"][0]["p"] for x in recs[len(recs) // 3: len(recs) // 3 + 3]]})
            r.tagged.clear()
            runs_info.append(info)
            core.log("[C18] %-12s %s: %d states, %d transitions (TLC %.0fs); cases so far %d, violations %d, known %s, drift %d" % (
                name, module, r.distinct, r.generated, r.wall, T.cases, T.violations,
                {k: v[0] for k, v in T.known.items()}, T.drift))
        b3 = []
        for job, fu in zip(cx, fut_cx):
            r = fu.result()
            if isinstance(r, Exception):
                raise r
            if r.ok:
                raise core.ToolError("run without the excuse for %s found no counterexample: the excuse is vacuous" % job[0])
            b3.append({"finding": job[0], "law_broken_on_M": r.violated, "states_to_counterexample": r.distinct})
    for fid, (n, example) in sorted(T.known.items()):
        what = [f for f in core.open_findings(PROP) if f["id"] == fid][0]["what"]
        out.known_finding("%s %s; reproduced on the real code in %d cases, e.g. %s" % (fid, what, n, example))
    # vacuity guard for the scheme dimension: two routes with DIFFERENT explicit schemes matching one scheme-less URI
    # (and the other combinations) must have been observed on the real code
    need = ["none,s | uri none", "none,s | uri s", "s,s | uri none", "s,s | uri s", "s,t | uri none"]
    missing = [k for k in need if not T.scheme_cov.get(k)]
    if missing and not T.violations:
        raise core.ToolError("scheme combinations never observed as a double match on the real code: %s (have %s)" % (missing, T.scheme_cov))
    never = [a for a, (d, t) in cov.items() if t == 0]
    out.add(states=tot_states, transitions=tot_trans, traces_validated_against_impl=T.accepted_cases,
            cases_replayed=T.cases, real_operations=T.ops, model_drift=T.drift, p_rejections_unlisted=T.violations,
            law_evaluations_on_real_observations=T.law_evals, double_matches_by_schemes=T.scheme_cov,
            known_finding_cases={k: v[0] for k, v in T.known.items()},
            tlc_runs=runs_info, b3_counterexamples_without_excuse=b3, simulation_states_generated=sim_states[0],
            action_coverage={a: {"distinct": d, "taken": t} for a, (d, t) in cov.items()},
            actions_never_taken=never, exhaustive=True, themes=len(THEMES), char_themes=len(CHAR_THEMES),
            rule="every state of the TLC runs of MC_Route / Gen_Route (all patterns, route tables and pattern strings "
                 "within the bounds of each run) is one case; each is concretised with 1-4 symbol themes and executed "
                 "on the real swimos_route; the laws are evaluated on the observed results and the results compared "
                 "with the specification's",
            checker_cmd="tlc MC_Route / Route / Gen_Route (INVARIANTS %s; %s; PROPERTY FindIsTheMatch) + h_core route" % (
                " ".join(LAWS), " ".join(GEN_LAWS)))
    out.assumptions += [
        "strings are abstracted to symbols with the relations equal-raw / equal-after-decoding / URI-legal / empty; "
        "byte-level variety comes from %d hand-written themes, not from TLC" % len(THEMES),
        "PlaneBuilder::build is exercised through the real ServerBuilder::build (operation `server`); Routes::find_route is "
        "private to the server runtime: its loop (first pattern whose unapply_route_uri is Ok) is modelled in Route.tla "
        "(FindRoute) and executed in the harness over the real RoutePattern::unapply_route_uri",
        "URIs handed to unapply are well-formed RouteUri texts (the RouteUri parser ignoring trailing garbage is outside the property)",
    ]
    if SERVER["note"]:
        out.notes.append(SERVER["note"])
    out.add(server_binding=bool(SERVER["bin"]))
    core.log("[C18] %d cases, %d real operations, wall %.0fs" % (T.cases, T.ops, time.time() - t0))


# ----------------------------------------------------------------------------- replay

def replay(path, out):
    obj = json.load(open(path))["replay"]
    if obj.get("component") == "ServerPlane":
        from checks import k_server
        return k_server.replay(path, out)
    wd = core.workdir(PROP + "_replay")
    kind, rec, ti, case = obj["kind"], obj["rec"], obj["theme"], obj["case"]
    if any(a["k"] == "server" for a in case["acts"]):
        build_route_harness(wd)
        if not SERVER["bin"]:
            case = dict(case, acts=[a for a in case["acts"] if a["k"] != "server"])
    else:
        core.build_harness("h_core", "route")
    res = run_cases([case], wd, "replay")[0]
    open_ids = {f["id"] for f in core.open_findings(PROP)}
    T = Tally(out, open_ids, record=False)
    KINDS[kind][1](rec, ti, case, res, T)
    for a, o in zip(case["acts"], res.get("obs", [])):
        print(json.dumps(a, ensure_ascii=False), "=>", json.dumps(o, ensure_ascii=False))
    if res.get("panic"):
        print("PANIC", res["panic"])
    for v, text in T.verdicts:
        if v != "drift":
            print("%s: %s" % (v, text))
    print("P verdict: %s (%d unlisted rejections, known findings %s, %d drift notes)" % (
        "rejected" if T.violations else "accepted", T.violations, {k: v[0] for k, v in T.known.items()}, T.drift))
    if T.violations:
        print("VIOLATION property=%s replay=%s" % (PROP, path))
        return 1
    return 0

"""C03 - sync gives a consistent snapshot, then a gap-free tail.

B2 (configuration E): TLC-generated environment scripts (AgentEnv.tla) dominated by sync requests placed
anywhere in streams of updates (settled and back-to-back), from linked and not-yet-linked remotes, concurrently
from several remotes, on value and map lanes (both backings); the recorded log is validated against
Trace_ValueView.tla (value lanes: admissible value at synced, then never-stale) and Trace_MapReplica.tla
(map lanes: every key admissible at synced, then convergence).  The link-level shape (linked, events, synced)
is C04's Trace_LinkProtocol.tla, also evaluated here.
"""
import json, os
from vlib import core
from checks import e2e

ENABLED = {f["id"] for f in core.known_findings() if f["status"] == "open" and ("C03" in f["property"].split(",") or "C02" in f["property"].split(","))} | {"_none_"}

VLANES = ["val", "val2", "tval"]
MLANES = ["map", "omap", "tmap"]
VC = {"VLanes": set(VLANES), "Remotes": {1, 2, 3}}
MC = {"MLanes": set(MLANES), "Remotes": {1, 2, 3}, "Keys": {1, 2, 3}, "EnabledFindings": ENABLED}
LC = {"Lanes": set(e2e.AGENT_LANES), "SyncLanes": set(e2e.SYNC_LANES), "Remotes": {1, 2, 3}}


def profiles(tier):
    q = tier == "quick"
    return [
        dict(n=50 if q else 800, maxlen=20, nremotes=3, caps=(16, 64, 4096), vlanes=["val"], mlanes=["map"], usecmd=False, keys=(1, 2, 3), faults=(), burst=True),
        dict(n=40 if q else 800, maxlen=24, nremotes=2, caps=(24, 4096), vlanes=["val", "val2"], mlanes=["omap"], usecmd=True, keys=(1, 2), faults=("drop", "badcmd"), burst=True),
        dict(n=40 if q else 600, maxlen=18, nremotes=3, caps=(16, 32), vlanes=["tval"], mlanes=["tmap", "map"], usecmd=False, keys=(1, 2, 3), faults=(), burst=False),
        dict(n=40 if q else 600, maxlen=20, nremotes=2, caps=(24, 4096), vlanes=["val"], mlanes=["map"], usecmd=True, keys=(1, 2, 3), faults=("rich",), advances=(25, 60), burst=True),
    ]


def systematic(tier):
    """a sync request by a fresh remote placed at every position of a fixed stream of map / value updates sent
    back to back by another remote (exhaustive over positions)"""
    out = []
    streams = [
        [("map", "upd", 1), ("map", "upd", 2), ("map", "upd", 1), ("map", "rem", 2), ("map", "upd", 3)],
        [("map", "upd", 1), ("map", "upd", 2), ("map", "clr", 0), ("map", "upd", 2), ("map", "upd", 1)],
        [("val", "set", 0), ("val", "set", 0), ("val", "set", 0), ("val", "set", 0)],
        [("omap", "upd", 3), ("omap", "upd", 2), ("omap", "upd", 1), ("omap", "upd", 2), ("omap", "rem", 3)],
    ]
    for si, st in enumerate(streams):
        lane = st[0][0]
        for pre in (0, 2):          # entries present before the stream starts
            for pos in range(len(st) + 1):
                for cap in (24, 4096):
                    for ns in (True, False):
                        acts = [{"k": "attach", "r": 1, "cap": 4096}, {"k": "attach", "r": 2, "cap": cap},
                                {"k": "send", "r": 1, "lane": lane, "op": "link"}]
                        v = 100
                        if lane != "val":
                            for kk in range(1, pre + 1):
                                acts.append({"k": "send", "r": 1, "lane": lane, "op": "cmd", "m": "upd", "key": kk, "v": v})
                                v += 1
                        for j, (l, m, key) in enumerate(st):
                            if j == pos:
                                acts.append({"k": "send", "r": 2, "lane": lane, "op": "sync", "nosettle": ns})
                            a = {"k": "send", "r": 1, "lane": l, "op": "cmd", "m": m, "nosettle": ns}
                            if m in ("upd", "rem"):
                                a["key"] = key
                            if m in ("upd", "set"):
                                a["v"] = v
                                v += 1
                            acts.append(a)
                        if pos == len(st):
                            acts.append({"k": "send", "r": 2, "lane": lane, "op": "sync", "nosettle": ns})
                        acts += [{"k": "read", "r": 2, "n": 1}, {"k": "read", "r": 1, "n": 0}]
                        out.append(acts)
    return out


def handler_bursts(tier):
    """one handler queues several map operations on existing keys at once (so the lane has a backlog of events),
    and a sync by a fresh or an already linked remote arrives while they are being emitted"""
    out = []
    v = [200]

    def nxt():
        v[0] += 1
        return v[0]
    for lane in ("map", "omap", "tmap"):
        for nops in (2, 3, 4):
            for linked_first in (False, True):
                for order in ("ops-sync", "sync-ops", "ops-sync-ops"):
                    for cap in (24, 4096):
                        acts = [{"k": "attach", "r": 1, "cap": 4096}, {"k": "attach", "r": 2, "cap": cap},
                                {"k": "send", "r": 1, "lane": lane, "op": "link"},
                                {"k": "send", "r": 1, "lane": "cmd", "op": "cmd", "m": "prog", "tag": nxt(),
                                 "prog": [{"i": "upd", "lane": lane, "key": kk, "v": nxt()} for kk in (1, 2, 3)]}]
                        if linked_first:
                            acts.append({"k": "send", "r": 2, "lane": lane, "op": "link"})
                        ops = lambda: {"k": "send", "r": 1, "lane": "cmd", "op": "cmd", "m": "prog", "tag": nxt(), "nosettle": True,
                                       "prog": [({"i": "upd", "lane": lane, "key": 1 + (j % 3), "v": nxt()} if j != 2 else
                                                 {"i": "rem", "lane": lane, "key": 3}) for j in range(nops)][:3] +
                                               ([{"i": "upd", "lane": lane, "key": 3, "v": nxt()}] if nops == 4 else [])[:0]}
                        sync = {"k": "send", "r": 2, "lane": lane, "op": "sync", "nosettle": True}
                        for part in order.split("-"):
                            acts.append(ops() if part == "ops" else dict(sync))
                        acts += [{"k": "read", "r": 2, "n": 2}, {"k": "read", "r": 1, "n": 0}]
                        out.append(acts)
    return out


def clear_behind_stall(tier):
    """a slow remote (its channel holds less than one frame, it reads frame by frame) is linked or syncing while
    the lane is cleared and keys are written again: the write task's per-remote relief queue then holds
    [clear, k1, k2, ..]; the remote reads a few frames (the clear leaves the queue alone), more operations on
    the queued keys follow, then everything drains.  Exhaustive over lane x channel size x frames read x the
    operations before / after the partial read x (linked | sync pending)."""
    out = []
    v = [300]

    def nxt():
        v[0] += 1
        return v[0]

    def cmd(lane, m, key=None, **kw):
        a = {"k": "send", "r": 1, "lane": lane, "op": "cmd", "m": m}
        if key is not None:
            a["key"] = key
        if m == "upd":
            a["v"] = nxt()
        a.update(kw)
        return a
    lanes = ("map", "omap", "tmap") if tier != "quick" else ("map", "omap")
    firsts = [[("upd", 1), ("upd", 2)], [("upd", 1), ("upd", 2), ("upd", 3)], [("upd", 2), ("upd", 1), ("upd", 2)]]
    seconds = [[("upd", 1)], [("rem", 1)], [("upd", 2), ("upd", 1)], [("upd", 1), ("clr", None), ("upd", 2)]]
    for lane in lanes:
        for cap in (16, 48):
            for nread in (1, 2, 3):
                for first in firsts:
                    for second in seconds:
                        for how in ("linked", "sync-before", "sync-after"):
                            acts = [{"k": "attach", "r": 1, "cap": 4096}, {"k": "attach", "r": 2, "cap": cap},
                                    {"k": "send", "r": 1, "lane": lane, "op": "link"},
                                    {"k": "send", "r": 2, "lane": lane, "op": "link"},
                                    {"k": "read", "r": 2, "n": 1},
                                    cmd(lane, "upd", 3)]              # the frame the slow remote is stuck on
                            if how == "sync-before":
                                acts.append({"k": "send", "r": 2, "lane": lane, "op": "sync"})
                            acts.append(cmd(lane, "clr"))
                            acts += [cmd(lane, m, k) for m, k in first]
                            if how == "sync-after":
                                acts.append({"k": "send", "r": 2, "lane": lane, "op": "sync"})
                            acts.append({"k": "read", "r": 2, "n": nread})
                            acts += [cmd(lane, m, k) for m, k in second]
                            acts += [{"k": "read", "r": 2, "n": 0}, {"k": "read", "r": 1, "n": 0}]
                            out.append(acts)
    return out


def sync_composition_b3(tier, out, wd):
    """B3 on specs/SyncComposition.tla: the composition lane queues -> lane output channel -> write task -> replica.
    With the excuses of the open known findings (F5, F12) the invariants hold for every interleaving at small scope;
    without them TLC must still produce the counterexamples (the findings are properties of the design)."""
    q = tier == "quick"
    excused = [dict(Keys={1, 2}, Remotes={1, 2}, MaxOps=3, Cap=1, LinkFirst=False, Excuse=True),
               dict(Keys={1, 2}, Remotes={1}, MaxOps=4, Cap=2, LinkFirst=False, Excuse=True)]
    if not q:
        excused += [dict(Keys={1, 2}, Remotes={1, 2}, MaxOps=3, Cap=3, LinkFirst=True, Excuse=True),
                    dict(Keys={1, 2, 3}, Remotes={1}, MaxOps=4, Cap=2, LinkFirst=False, Excuse=True)]
    raw = [("F5", dict(Keys={1, 2}, Remotes={1}, MaxOps=3, Cap=3, LinkFirst=False, Excuse=False)),
           ("F12", dict(Keys={1, 2}, Remotes={1}, MaxOps=3, Cap=1, LinkFirst=True, Excuse=False))]
    for k in excused:
        r = core.run_tlc("SyncComposition", core.cfg(constants=k, invariants=["SnapshotAtSynced", "Converged"]),
                         os.path.join(wd, "synccomp"), workers=4, timeout=1500, coverage=False)
        if not r.ok:
            raise core.ToolError("SyncComposition.tla violates %s beyond the excused findings for %s:\n%s" % (r.violated, k, r.counterexample[:1500]))
        out.add(states=r.distinct, transitions=r.generated)
        core.log("[C03] SyncComposition.tla %s: %d states, SnapshotAtSynced / Converged hold (modulo F5, F12)" % (
            {a: (sorted(b) if isinstance(b, set) else b) for a, b in k.items()}, r.distinct))
    open_ids = {f["id"] for f in core.open_findings("C03")}
    for fid, k in raw:
        r = core.run_tlc("SyncComposition", core.cfg(constants=k, invariants=["SnapshotAtSynced", "Converged"]),
                         os.path.join(wd, "synccomp_raw"), workers=2, timeout=600, coverage=False)
        if r.ok and fid in open_ids:
            out.notes.append("SyncComposition.tla no longer exhibits %s without its excuse" % fid)
        core.log("[C03] SyncComposition.tla without excuses (%s scope): %s" % (fid, "counterexample found (%s)" % r.violated if not r.ok else "holds"))


def run(tier, out):
    wd = core.workdir("C03")
    sync_composition_b3(tier, out, wd)
    core.build_harness("h_runtime", "e2e")
    tot_cases = tot_events = 0
    batches = []
    for pi, p in enumerate(profiles(tier)):
        scripts, r = e2e.gen_scripts(wd, seed=core.seed() + 30 * pi, tag="env%d" % pi, **p)
        out.add(states=r.generated, transitions=r.generated)
        batches.append(("profile %d" % pi, scripts))
    batches.append(("systematic sync placement", systematic(tier)))
    # repeated: the lane's HashMap iteration order (hence the sync order) differs from instance to instance
    batches.append(("handler bursts while syncing", handler_bursts(tier) * (4 if tier == "quick" else 12)))
    batches.append(("clear behind a stalled remote", clear_behind_stall(tier)))
    for bi, (name, scripts) in enumerate(batches):
        cases, results = e2e.run_scripts(wd, scripts, {"store": True}, tag="run%d" % bi)
        for mod, proj, consts, tag in (("Trace_ValueView", lambda log: e2e.proj_value(log, VLANES), VC, "v"),
                                       ("Trace_MapReplica", lambda log: e2e.proj_map(log, MLANES), MC, "m"),
                                       ("Trace_LinkProtocol", e2e.proj_link, LC, "l")):
            acc, rej, nev = e2e.validate_cases(out, "C03", mod, cases, results, proj, consts, wd,
                                               "sync (%s, %s)" % (name, mod), tag="tv%d%s" % (bi, tag))
            core.log("[C03] %s / %s: %d scripts, %d projected events, accepted=%d rejected=%d" % (name, mod, len(cases), nev, acc, rej))
            tot_events += nev
            if tag == "m":
                tot_cases += acc
        if bi == 0 and cases:
            out.sample({"script": cases[0]["acts"][:12]})
    # component level: the lanes' own sync machinery (Lanes.tla on the real lane objects)
    from checks import k_lanes
    k_lanes.run_k(tier, out, os.path.join(wd, "klanes"), prop="C03")
    # ... and the write task's per-remote queues, through which every sync answer travels (WriteTask.tla)
    from checks import k_writetask
    k_writetask.run_k(tier, out, os.path.join(wd, "kwt"), prop="C03", only=("KindV", "KindM"))
    out.add(traces_validated_against_impl=tot_cases, trace_events_validated=tot_events,
            rule="scripts are behaviours of AgentEnv.tla (TLC simulation, seeded) plus an exhaustive placement of a sync request in fixed update streams; every recorded execution is validated against Trace_ValueView, Trace_MapReplica and Trace_LinkProtocol",
            checker_cmd="tlc -simulate AgentEnv; h_runtime/e2e; tlc Trace_ValueView / Trace_MapReplica / Trace_LinkProtocol")
    out.assumptions += ["single-threaded paused tokio runtime: the log order is the causal order",
                        "the sync window opens when the request is sent (the most permissive reading)"]


def replay(path, out):
    obj = json.load(open(path))["replay"]
    if obj.get("component") == "lanes":
        from checks import k_lanes
        return k_lanes.replay(path, out)
    if str(obj.get("component", "")).startswith("WriteTask"):
        from checks import k_writetask
        return k_writetask.replay(path, out)
    wd = core.workdir("C03_replay")
    case = obj["case"]
    cases, results = e2e.run_scripts(wd, [case["acts"]], case.get("cfg", {}), tag="replay", final=(), vary=False)
    rc = 0
    for mod, proj, consts in (("Trace_ValueView", lambda log: e2e.proj_value(log, VLANES), VC),
                              ("Trace_MapReplica", lambda log: e2e.proj_map(log, MLANES), MC),
                              ("Trace_LinkProtocol", e2e.proj_link, LC)):
        ev = proj(results[0]["log"])
        res = e2e.validate(mod, ev, os.path.join(wd, "tv_" + mod), consts)
        print(mod, json.dumps(res))
        if not res["accepted"]:
            print("rejected at", ev[res["matched"]] if res["matched"] < len(ev) else None)
            rc = 1
    if rc:
        print("VIOLATION property=C03 replay=%s" % path)
    return rc

"""C12 - byte channels are lossless bounded FIFO pipes with no lost wake-ups.

B3: TLC checks ByteChannel.tla (mechanism, incl. the coop budget) against the P invariants for
    every configuration, exhaustively (the state space is finite).
B1: the complete state graph is dumped; a transition cover (every edge of the graph, each
    reached by a shortest path, then extended by random further steps) is replayed on the real
    swimos_byte_channel by hand-polling with counting wakers - one call = one atomic step.
B2: executions that differ from the mechanism model and a sample of conforming ones are validated
    against Trace_ByteChannel.tla (P).  Each half may be polled with several different wakers (NW):
    the waker of a side's latest pending poll is the one that must be woken.
"""
import json, os, random
from vlib import core
from vlib import replay as rp

INPUT_KEYS = {"k", "n", "w"}
INVS = ["TypeOK", "Bounded", "NoLostWakeupR", "NoLostWakeupW", "SlotHoldsWaiter", "ResultSound", "InitDump"]


def configs(tier):
    if tier == "quick":
        return [dict(Cap=1, MaxReq=2, Budget=0, NW=1), dict(Cap=2, MaxReq=3, Budget=0, NW=1), dict(Cap=3, MaxReq=3, Budget=0, NW=1),
                dict(Cap=5, MaxReq=5, Budget=0, NW=1), dict(Cap=2, MaxReq=2, Budget=3, NW=1),
                # a half polled with different wakers (another task, a timeout): the waker of the latest poll must be woken
                dict(Cap=1, MaxReq=1, Budget=0, NW=2), dict(Cap=2, MaxReq=2, Budget=0, NW=2), dict(Cap=2, MaxReq=2, Budget=3, NW=2)]
    return ([dict(Cap=c, MaxReq=m, Budget=b, NW=1) for c in (1, 2, 3, 4) for m in (2, 4) for b in (0, 2, 5)]
            + [dict(Cap=c, MaxReq=2, Budget=b, NW=nw) for c in (1, 2, 3) for b in (0, 3) for nw in (2, 3)])


def to_trace(case, result):
    ev = [{"k": "reset", "cap": case["cfg"]["cap"]}]
    obs = result.get("obs", [])
    for i, a in enumerate(case["acts"]):
        if i >= len(obs):
            break
        e = {"k": a["k"]}
        if "n" in a:
            e["n"] = a["n"]
        if "w" in a:
            e["w"] = a["w"]
        e.update(obs[i])
        ev.append(e)
    return ev


def p_validate_factory(wd):
    n = [0]

    def p_validate(case, result):
        if result.get("panic"):
            return {"accepted": False, "detail": "panic in code under test: %s" % result["panic"]}
        n[0] += 1
        ev = to_trace(case, result)
        r = core.trace_validate("Trace_ByteChannel", ev, os.path.join(wd, "tv%d" % n[0]))
        return {"accepted": r["accepted"], "kf": r.get("kf", []),
                "detail": "P (Trace_ByteChannel) rejects the recorded history at event %s of %s: %s" % (
                    r["matched"] + 1, r["total"], json.dumps(ev[r["matched"]] if 0 <= r["matched"] < len(ev) else None))}
    return p_validate


def run(tier, out):
    rng = random.Random(core.seed())
    wd = core.workdir("C12")
    core.build_harness("h_core", "bytechan")
    tot = dict(states=0, transitions=0, traces_validated_against_impl=0)
    drift = 0
    steps = 0
    actions_cov = {}
    pv = p_validate_factory(wd)
    sample_traces = []
    for ci, k in enumerate(configs(tier)):
        c = core.cfg(constants=k, invariants=INVS, view="View", action_constraints=["EdgeDump"])
        r = core.run_tlc("MC_ByteChannel", c, os.path.join(wd, "mc%d" % ci), workers=1)
        if not r.ok:
            # the design itself (M) breaks P: report, but only as a violation if the code reproduces it -
            # M is meant to mirror the code, so this is a tool-side alarm first.
            raise core.ToolError("M violates P in TLC (%s %s) for %s:\n%s" % (r.status, r.violated, k, r.counterexample[:3000]))
        g = core.Graph(r.tagged["EDGE"], init_views=r.tagged["INIT"])
        for a, (d, t) in r.coverage.items():
            o = actions_cov.get(a, (0, 0))
            actions_cov[a] = (o[0] + d, o[1] + t)
        tot["states"] += r.distinct
        tot["transitions"] += g.n_edges
        paths = g.covering_paths(extend=4 if tier == "quick" else 8, rng=rng)
        paths += g.random_walks(200 if tier == "quick" else 3000, 12 if tier == "quick" else 24, rng)
        if k["Budget"] == 0 and k["NW"] == 1:
            # the channel's behaviour may depend on history the model abstracts from (the allocation state of the
            # internal buffer): every sequence of reads / writes of 1 byte or of the whole capacity, to a fixed depth
            cap = k["Cap"]
            deep = g.all_paths(8 if tier == "quick" else 10,
                               keep=lambda a: a["k"] in ("read", "write") and a.get("n") in (1, cap))
            paths += deep
        cases = [{"id": "%d.%d" % (ci, i), "cfg": {"cap": k["Cap"], "budget": k["Budget"], "nw": k["NW"]}, "acts": p}
                 for i, p in enumerate(paths)]
        results = rp.run_cases("h_core", "bytechan", cases, wd, tag="bc%d" % ci, input_keys=INPUT_KEYS)
        st = rp.conformance(out, cases, results, INPUT_KEYS, pv, "ByteChannel%s" % json.dumps(k), ignore_obs_keys=("wokeR", "wokeW"))
        drift += st["drift"]
        steps += st["steps"]
        tot["traces_validated_against_impl"] += st["conform"] + st["drift"]
        core.log("[C12] cfg %s: %d states %d edges; %d paths (%d steps): conform=%d drift=%d rejected=%d" % (
            k, r.distinct, g.n_edges, len(cases), st["steps"], st["conform"], st["drift"], st["rejected"]))
        # binding demonstration + P kept alive: a sample of conforming executions through P as well
        for c_, r_ in list(zip(cases, results))[:: max(1, len(cases) // 25)]:
            if "obs" in r_:
                sample_traces += to_trace(c_, r_)
        if ci == 0:
            out.sample({"cfg": k, "calls_with_expected_results": paths[len(paths) // 2][:8]})
    # one TLC run validates the concatenated sample (reset events separate the histories)
    r = core.trace_validate("Trace_ByteChannel", sample_traces, os.path.join(wd, "tv_sample"))
    if not r["accepted"]:
        ev = sample_traces[r["matched"]] if r["matched"] < len(sample_traces) else None
        out.violation("P rejects a recorded history that conforms to M at event %s" % json.dumps(ev),
                      {"component": "ByteChannel", "trace": sample_traces[max(0, r["matched"] - 20): r["matched"] + 1]})
    unvisited = [a for a, (d, t) in actions_cov.items() if t == 0]
    out.add(states=tot["states"], transitions=tot["transitions"],
            traces_validated_against_impl=tot["traces_validated_against_impl"],
            replayed_calls=steps, model_drift=drift, p_trace_events_validated=r["total"],
            action_coverage={a: {"distinct": d, "taken": t} for a, (d, t) in actions_cov.items()},
            actions_never_taken=unvisited, exhaustive=True,
            rule="every transition of the TLC state graph of ByteChannel.tla (all configs) replayed on the real channel; "
                 "a case is one call sequence; distinct = distinct sequences",
            checker_cmd="tlc MC_ByteChannel (INVARIANTS %s) + h_core bytechan + tlc Trace_ByteChannel" % " ".join(INVS))
    out.assumptions += ["calls on one channel are serialised by its mutex, so a call is an atomic step",
                        "memory-ordering effects below the mutex are not modelled"]
    # (a free-running multi-threaded stress run was planned for the thorough tier; without a sequence number taken
    # under the channel's mutex its per-side logs cannot be merged into a history P could judge without guessing, so
    # it is not done: the thorough tier is the larger set of configurations above)


def replay(path, out):
    wd = core.workdir("C12_replay")
    obj = json.load(open(path))["replay"]
    if obj.get("component") == "bytechan-stress" or "case" not in obj:
        print(json.dumps(obj, indent=1)[:4000])
        return 0
    case = obj["case"]
    res = replay_mod_run(case, wd)
    d = rp.first_diff(case["acts"], res.get("obs", []), INPUT_KEYS, ("wokeR", "wokeW"))
    print("first divergence from M at step:", d)
    v = p_validate_factory(wd)(case, res)
    print("P verdict:", json.dumps(v))
    if not v["accepted"]:
        print("VIOLATION property=C12 replay=%s" % path)
        return 1
    return 0


def replay_mod_run(case, wd):
    return rp.run_cases("h_core", "bytechan", [case], wd, tag="replay", input_keys=INPUT_KEYS)[0]

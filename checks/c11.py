"""C11 - WARP envelopes cross the socket unchanged and reach only their addressee.

Three engines, all driven by TLA+ specifications checked / enumerated by TLC:

pure     Remote.tla part 1: TLC enumerates the abstract envelope space (8 kinds x 9 node classes x
         9 lane classes x 3 body classes) together with the abstract wire form the writer must
         produce and checks the law Read(Write(e)) = e on the model.  Every abstract envelope is
         concretised from boundary pools; the real writer (ReconEncoder, exposed under
         --cfg swimos_verif) and the real reader (peel_envelope_header_str / peel_envelope_header)
         are composed on it.  P = exact contract: same kind, node, lane, body.  The text the
         model predicts is compared too (MODEL-DRIFT only).

mux      MultiReader.tla (M: slab keys, flag buckets, local / queue flags, current bucket) is model
         checked against order / no-loss / no-lost-wake-up / no-starvation invariants (B3, bucket
         sizes 1-3 so that rotation happens with 2-3 sources); for the real bucket size 64 the
         complete state graph (2-3 active sources; 65 sources straddling the bucket boundary) and
         TLC-simulated behaviours (70 / 130 sources, deep queues, burst schedules) are replayed
         call by call on the real swimos_multi_reader by hand-polling and must give the model's
         results (B1); every replayed history plus a drain phase is validated by TLC against
         Trace_MultiReader.tla (P: own order, nothing fabricated, nothing lost, nobody starved).

routing  Remote.tla part 2 (M = registration queues and tables, per-source FIFOs, multiplexer,
         router, agent resolution, not-found replies, termination by an invalid frame) is model
         checked (B3: RouteExact, RequestExact, InvalidNeverDelivered, OnlyAddressee, TablesSound,
         NothingStranded; thorough: liveness AllLeave / AllRouted under fairness).  The settled
         routing-table graph (MC_Remote: Settled + TblView - entry absent / one lane / two lanes /
         stale writer / lane emptied / node emptied, several downlinks per lane, sibling lanes,
         two nodes, never-registered lanes) is dumped and every one of its transitions is covered
         by a script with a settle point after each move of the environment.  The peer of the
         model frames a text message as 1..3 web socket frames and writes ping / pong / close
         control frames at any point (PeerFrag, PeerCtl, WsRead = text_frame_stream's reassembly);
         a transition cover of the settled framing graph (MC_Remote: FragFocus) puts a ping and a
         pong at every fragment boundary of every envelope kind; the harness peer writes raw
         RFC 6455 frames (cuts also inside UTF-8 sequences).  TLC simulation
         of the same specification generates attach / one-way attach / write / detach / agent /
         peer scripts, concretised with node / lane / body strings from the pools (any class);
         they run on a real swimos_remote::RemoteTask over a ratchet web socket on
         tokio::io::duplex (config T; also 70 / 130 downlinks on one socket) and the recorded
         history is validated by TLC against Trace_Remote.tla (P = Remote.tla's contract with
         the unobservable steps searched) (B2).

Findings: known_findings/C11.json (F7, fixed in /repo by 8500a7b: suppresses nothing).
"""
import json, os, random, time, concurrent.futures as cf
from vlib import core
from vlib import replay as rp

PROP = "C11"
R = core.Raw

# ----------------------------------------------------------------------------------------- pools
# boundary pools per abstract string class of Remote.tla (StrClasses)
STR_POOL = {
    "ident":   ["lane", "_x", "a-b2", "Node_9"],
    "uident":  ["اسم", "\U0001d4b3\U0001d4b4", "ℵx", "\U0001f600"],
    "empty":   [""],
    "keyword": ["true", "false"],
    "quotes":  ["/node", "two words", "2morrow", "/a/b:c?d=1&e", "@tag", "a,b)c(", "{x:1}", "#h;"],
    # (the second row of each: an escape-requiring character together with 2-, 3- and 4-byte UTF-8 characters - the
    #  escaping must work on characters, not bytes)
    "escape":  ["say \"hi\"", "back\\slash", "\"", "\\", "a\\\"b", "\\n",
                "/unit/\"caf\u00e9\"", "\u00e9\\", "\"\u4e2d\u6587\"", "\U0001f600\"", "\\\U0001d4b3/\u00fc\u20ac\"x"],
    "control": ["line1\nline2", "tab\there", "\u0001", "\r\n", "\u0008\u000c", "nul\u0000x", "\u001f",
                "\u00e9\n", "\t\u4e2d\u6587", "\u0001\U0001f600", "\u00df\u20ac\U00010348\r"],
    "nonbmp":  ["/\U0001f600/\U0001d4b3", "\U0001f600 x", "9\U00010000", "/\U000effff"],
    "percent": ["/a%20b", "%2F", "/caf%C3%A9/%25", "100%", "%zz"],
}
BODY_POOL = {
    "empty": [""],
    "attr":  ["@update(key:\"a b\") 3", "@a", "@remove(key:1)", "@\"quoted tag\"{x:1}", "@nodeNotFound", "@e(\"\\\"\")  x "],
    "plain": ["5", "\"text with \\\" and \\\\\"", "{a:1,b:{c:2}}", "-0.5e3", "true", "%AAEC", "x @y", "é\U0001f600", "a\nb", "()", "\""],
}
KINDS_REQ = ["link", "sync", "unlink", "command"]
KINDS_RESP = ["linked", "synced", "unlinked", "event"]
HAS_BODY = {"command", "event", "unlinked"}


def py_escape(s):
    """Recon string escape as literal::escape_text does it (only used for the model's text prediction)."""
    out = []
    for c in s:
        o = ord(c)
        if c == '"':
            out.append('\\"')
        elif c == "\\":
            out.append("\\\\")
        elif c == "\r":
            out.append("\\r")
        elif c == "\n":
            out.append("\\n")
        elif c == "\t":
            out.append("\\t")
        elif o == 8:
            out.append("\\b")
        elif o == 12:
            out.append("\\f")
        elif o < 0x20:
            out.append("\\u%04x" % o)
        else:
            out.append(c)
    return "".join(out)


def render(w, node, lane, body):
    """concrete text of the abstract wire form w = Write(e) of Remote.tla."""
    def lit(form, s):
        return s if form == "bare" else '"%s"' % (py_escape(s) if form == "escaped" else s)
    sep = {"none": "", "direct": "", "space": " "}[w["sep"]]
    return "@%s(node:%s,lane:%s)%s%s" % (w["tag"], lit(w["node"]["form"], node), lit(w["lane"]["form"], lane), sep,
                                         body if w["sep"] != "none" else "")


# ----------------------------------------------------------------------------------------- TLC helpers

def mc(k):
    """constants of MC_Remote with the defaults for the web socket framing layer (whole messages, no control frames)."""
    return dict(dict(MaxCtl=0, MCCtl=R('{}'), MaxFrag=1), **{a: b for a, b in k.items() if not a.startswith("_")})


def tlc_jobs(jobs, par=3):
    """run several single-purpose TLC jobs concurrently (total workers kept <= 4)."""
    res = {}
    with cf.ThreadPoolExecutor(max_workers=par) as ex:
        futs = {ex.submit(fn): name for name, fn in jobs}
        for f in cf.as_completed(futs):
            res[futs[f]] = f.result()
    return res


def cov_merge(acc, r, prefix):
    for a, (d, t) in r.coverage.items():
        k = prefix + "." + a
        o = acc.get(k, (0, 0))
        acc[k] = (o[0] + d, o[1] + t)


def must_ok(r, what):
    if not r.ok:
        raise core.ToolError("the specification itself fails in TLC (%s): %s %s\n%s" % (
            what, r.status, r.violated, r.counterexample[:3000]))


# ----------------------------------------------------------------------------------------- pure part

PURE_CONST = dict(Nodes=R('{"n1"}'), Lanes=R('{"l1"}'), Exists=R('{}'), Dls=R('{}'), Bodies=R('{}'), MaxInst=1,
                  ServerMode=True, MaxSend=0, MaxPeer=0, MCKinds=R('{}'), PathSel="A", OneWay=R('{}'))


def pure_enumerate(wd):
    c = core.cfg(next_="PureNext", constants=mc(PURE_CONST),
                 invariants=["RoundTripLaw", "WriterQuotesNonIdentifiers", "PureDump"])
    return core.run_tlc("MC_Remote", c, os.path.join(wd, "pure"), workers=1, timeout=300)


def canon_env(m):
    return {"kind": m["kind"], "node": m["node"], "lane": m["lane"], "body": m["body"] if m["kind"] in HAS_BODY else ""}


def pure_cases(envs, per_env, rng):
    """concretise each abstract envelope per_env times; pool indices rotate so that every pool string meets
    every class of the other slot."""
    cases = []
    for j, rec in enumerate(envs):
        e = rec["e"]
        for r_ in range(per_env):
            pn, pl, pb = STR_POOL[e["node"]], STR_POOL[e["lane"]], BODY_POOL[e["body"]]
            if r_ == 0:
                node, lane, body = pn[j % len(pn)], pl[(j // 3) % len(pl)], pb[(j // 7) % len(pb)]
            else:
                node, lane, body = rng.choice(pn), rng.choice(pl), rng.choice(pb)
            cases.append({"abs": rec, "msg": {"kind": e["kind"], "node": node, "lane": lane, "body": body}})
    return cases


def run_pure_batch(msgs, wd, tag):
    inp = os.path.join(wd, tag + ".in.ndjson")
    outp = os.path.join(wd, tag + ".out.ndjson")
    core.write_ndjson(inp, [{"id": tag, "mode": "pure", "cases": msgs}])
    core.run_harness("h_remote", ["remote"], stdin_path=inp, stdout_path=outp)
    res = core.read_ndjson(outp)[0]
    if "panic" in res and res["panic"]:
        # find the culprit one by one
        core.write_ndjson(inp, [{"id": str(i), "mode": "pure", "cases": [m]} for i, m in enumerate(msgs)])
        core.run_harness("h_remote", ["remote"], stdin_path=inp, stdout_path=outp)
        out = []
        for r in core.read_ndjson(outp):
            out.append({"panic": r["panic"]} if r.get("panic") else r["res"][0])
        return out
    return res["res"]


def pure_verdict(msg, res):
    """P for the pure part: exact contract.  None = accepted, else text."""
    if res.get("panic"):
        return "writer/reader panicked: %s" % res["panic"]
    if "err" in res:
        return "writer failed: %s" % res["err"]
    back = res["back"]
    if "err" in back:
        return "the reader rejects what the writer wrote (%r): %s" % (res["text"], json.dumps(back["err"])[:300])
    exp = canon_env(msg)
    if back != exp:
        diff = [k for k in ("kind", "node", "lane", "body") if back.get(k) != exp[k]]
        return "envelope changed crossing the socket (%s differ): wrote %s as %r, peer read %s" % (
            ",".join(diff), json.dumps(exp, ensure_ascii=False), res["text"], json.dumps(back, ensure_ascii=False))
    return None


def pure_part(tier, out, wd, rng, stats, r):
    must_ok(r, "envelope model")
    envs = r.tagged["ENV"]
    per_env = 3 if tier == "quick" else 24
    cases = pure_cases(envs, per_env, rng)
    # the not-found reply written by the task itself
    nf = []
    for cn in STR_POOL:
        for cl in STR_POOL:
            nf.append({"kind": "notfound", "node": rng.choice(STR_POOL[cn]), "lane": rng.choice(STR_POOL[cl]), "body": ""})
    msgs = [c["msg"] for c in cases] + nf
    res = run_pure_batch(msgs, wd, "pure")
    drift = 0
    distinct = set()
    bad = 0
    for c, r_ in zip(cases, res[:len(cases)]):
        distinct.add(core.canon(c["msg"]))
        v = pure_verdict(c["msg"], r_)
        if v is not None:
            bad += 1
            if bad <= 25:
                out.violation("pure round trip: " + v, {"component": "pure", "msg": c["msg"], "abstract": c["abs"]["e"]})
            continue
        pred = render(c["abs"]["w"], c["msg"]["node"], c["msg"]["lane"], c["msg"]["body"])
        if pred != r_["text"]:
            drift += 1
            if drift <= 3:
                out.notes.append("MODEL-DRIFT pure: Remote.tla predicts %r, the encoder wrote %r" % (pred, r_["text"]))
    for m, r_ in zip(nf, res[len(cases):]):
        exp = {"kind": "unlinked", "node": m["node"], "lane": m["lane"], "body": "@nodeNotFound"}
        v = pure_verdict(exp, r_)
        if v is not None:
            out.violation("not-found reply: " + v, {"component": "pure", "msg": m})
    out.sample({"pure_envelope": cases[len(cases) // 3]["msg"], "wire": res[len(cases) // 3].get("text"),
                "abstract": cases[len(cases) // 3]["abs"]["e"]})
    stats["pure"] = dict(abstract_envelopes=len(envs), concrete_round_trips=len(cases) + len(nf),
                         distinct_concrete=len(distinct), model_drift=drift, tlc_law_instances=2 * len(envs))
    core.log("[C11] pure: %d abstract envelopes (TLC), %d concrete round trips, drift=%d, violations=%d" % (
        len(envs), len(cases) + len(nf), drift, bad))


# ----------------------------------------------------------------------------------------- multiplexer

MR_INV = ["TypeOK", "PerSourceOrder", "NoLostWakeup", "DoneSound", "ScheduledOrWaiting", "QueueInCurrent", "SlabSound"]
MR_INPUT = {"k", "s"}


def mr_b3_configs(tier):
    if tier == "quick":
        return [dict(BucketSize=2, Pad=0, NStreams=2, MaxItems=2), dict(BucketSize=2, Pad=1, NStreams=2, MaxItems=2),
                dict(BucketSize=1, Pad=1, NStreams=2, MaxItems=2)]
    return [dict(BucketSize=2, Pad=0, NStreams=3, MaxItems=2), dict(BucketSize=2, Pad=1, NStreams=3, MaxItems=2),
            dict(BucketSize=1, Pad=0, NStreams=3, MaxItems=2), dict(BucketSize=3, Pad=2, NStreams=2, MaxItems=3)]


def mr_graph_configs(tier):
    if tier == "quick":
        return [dict(BucketSize=64, Pad=0, NStreams=2, MaxItems=2), dict(BucketSize=64, Pad=63, NStreams=2, MaxItems=2),
                dict(BucketSize=64, Pad=67, NStreams=3, MaxItems=1, _sim="num=150"),
                dict(BucketSize=64, Pad=0, NStreams=3, MaxItems=12, _sim="num=120", _depth=100),
                dict(BucketSize=64, Pad=0, NStreams=3, MaxItems=8, _sim="num=25", _depth=70, _ac=["Burst"])]
    return [dict(BucketSize=64, Pad=0, NStreams=3, MaxItems=1), dict(BucketSize=64, Pad=0, NStreams=2, MaxItems=3),
            dict(BucketSize=64, Pad=63, NStreams=2, MaxItems=2), dict(BucketSize=64, Pad=67, NStreams=3, MaxItems=1),
            dict(BucketSize=64, Pad=62, NStreams=4, MaxItems=2, _sim="num=1500"),
            dict(BucketSize=64, Pad=0, NStreams=3, MaxItems=12, _sim="num=1500", _depth=100),
            dict(BucketSize=64, Pad=126, NStreams=4, MaxItems=2, _sim="num=600"),
            dict(BucketSize=64, Pad=0, NStreams=3, MaxItems=8, _sim="num=200", _depth=70, _ac=["Burst"]),
            dict(BucketSize=64, Pad=62, NStreams=4, MaxItems=6, _sim="num=200", _depth=90, _ac=["Burst"])]


def behaviours_from_edges(edges):
    """-simulate prints the edges of each behaviour consecutively: cut where the chain breaks."""
    out, cur, last = [], [], None
    for e in edges:
        s, t = core.canon(e["s"]), core.canon(e["t"])
        if last is not None and s != last:
            out.append(cur)
            cur = []
        cur.append(e["a"])
        last = t
    if cur:
        out.append(cur)
    return out


def mr_events(case, result):
    ev = [{"k": "reset", "pad": case["cfg"]["pad"], "n": case["cfg"]["n"]}]
    obs = result.get("obs", [])
    for i, a in enumerate(case["acts"]):
        if i >= len(obs):
            break
        e = {"k": a["k"]}
        if "s" in a:
            e["s"] = a["s"]
        e.update(obs[i])
        ev.append(e)
    for o in result.get("drain", []):
        e = {"k": "poll"}
        e.update(o)
        ev.append(e)
    return ev


def validate_many(module, histories, wd, constants=None, invariants=(), limit_fail=20):
    """Validate many histories (each starting with a reset event) in as few TLC runs as possible.
    Returns (events_validated, [(index, matched_event, event)])."""
    fails = []
    total = 0
    start = 0
    runs = 0
    kfs = set()
    while start < len(histories) and len(fails) < limit_fail:
        offs, flat = [], []
        for h in histories[start:]:
            offs.append(len(flat))
            flat += h
        if not flat:
            break
        runs += 1
        r = core.trace_validate(module, flat, os.path.join(wd, "tv_%s_%d" % (module, runs)), constants=constants,
                                invariants=invariants, timeout=int(os.environ.get("VERIF_TV_TIMEOUT", "900")), xmx="3g")
        if r.get("status", "").startswith("invariant"):
            raise core.ToolError("trace spec %s: state invariant failed during validation: %s" % (module, r))
        kfs.update(r.get("kf") or [])
        if r["accepted"]:
            total += len(flat)
            break
        m = r["matched"]          # events matched; event m (0-based) is the first one nothing matches
        k = max(j for j, o in enumerate(offs) if o <= m)
        total += offs[k]
        fails.append((start + k, m - offs[k], flat[m] if m < len(flat) else None, r.get("kf", [])))
        start = start + k + 1
    return total, fails, kfs


def mux_jobs(tier, wd):
    jobs = []
    for ci, k in enumerate(mr_b3_configs(tier)):
        def b3(k=k, ci=ci):
            c = core.cfg(constants=k, invariants=MR_INV + ["NoStarvation"])
            return core.run_tlc("MC_MultiReader", c, os.path.join(wd, "mr_b3_%d" % ci), workers=1, timeout=1500)
        jobs.append((("mr_b3", ci), b3))
    gcfgs = mr_graph_configs(tier)
    for ci, k in enumerate(gcfgs):
        def gr(k=k, ci=ci):
            kk = {a: b for a, b in k.items() if not a.startswith("_")}
            c = core.cfg(constants=kk, invariants=MR_INV + ["InitDump"], view="View",
                         action_constraints=list(k.get("_ac", [])) + ["EdgeDump"])
            if "_sim" in k:
                return core.run_tlc("MC_MultiReader", c, os.path.join(wd, "mr_g_%d" % ci), workers=1, timeout=1500,
                                    simulate=k["_sim"], extra=["-depth", str(k.get("_depth", 60)), "-seed", str(core.seed() + ci)])
            return core.run_tlc("MC_MultiReader", c, os.path.join(wd, "mr_g_%d" % ci), workers=1, timeout=1500)
        jobs.append((("mr_g", ci), gr))
    return jobs


def mux_part(tier, out, wd, rng, stats, cov, res):
    gcfgs = mr_graph_configs(tier)
    st = dict(states=0, transitions=0, b3_states=0, replayed_paths=0, replayed_calls=0, conform=0, drift=0,
              rejected=0, p_events=0, sources_max=0)
    for (kind, ci), r in sorted((k, v) for k, v in res.items() if k[0].startswith("mr_")):
        core.log("[C11]   tlc MultiReader %s%d: %d distinct states, %.1fs" % (kind, ci, r.distinct, r.wall))
        must_ok(r, "MultiReader %s %d" % (kind, ci))
        cov_merge(cov, r, "MultiReader")
        if kind == "mr_b3":
            st["b3_states"] += r.distinct
            st["states"] += r.distinct
            st["transitions"] += max(r.generated - 1, 0)
    histories, hist_cases = [], []
    for ci, k in enumerate(gcfgs):
        r = res[("mr_g", ci)]
        if "_sim" in k:
            paths = behaviours_from_edges(r.tagged["EDGE"])
            st["transitions"] += len(r.tagged["EDGE"])
        else:
            g = core.Graph(r.tagged["EDGE"], init_views=r.tagged["INIT"])
            st["states"] += r.distinct
            st["transitions"] += g.n_edges
            paths = g.covering_paths(extend=6, rng=rng)
            paths += g.random_walks(150 if tier == "quick" else 1500, 30, rng)
        cases = [{"id": "mr%d.%d" % (ci, i), "cfg": {"pad": k["Pad"], "n": k["NStreams"]}, "acts": p}
                 for i, p in enumerate(paths) if p]
        st["sources_max"] = max(st["sources_max"], k["Pad"] + k["NStreams"])
        results = rp.run_cases("h_core", "multireader", cases, wd, tag="mr%d" % ci, input_keys=MR_INPUT)
        # B1: exact comparison with M; a divergence is decided by P below (all histories go through P anyway)
        for c_, r_ in zip(cases, results):
            st["replayed_paths"] += 1
            st["replayed_calls"] += len(c_["acts"])
            if r_.get("panic"):
                st["rejected"] += 1
                out.violation("MultiReader panicked: %s" % r_["panic"], {"component": "mux", "case": c_, "observed": r_})
                continue
            d = rp.first_diff(c_["acts"], r_.get("obs", []), MR_INPUT)
            if d is None:
                st["conform"] += 1
            else:
                c_["_diverges_at"] = d
            histories.append(mr_events(c_, r_))
            hist_cases.append((c_, r_))
        if ci == 0 and cases:
            out.sample({"multireader_calls_with_expected_results": cases[len(cases) // 2]["acts"][:10]})
        core.log("[C11] mux cfg %s: %d paths replayed" % (k, len(cases)))
    _t0 = time.time()
    n_ev, fails, _ = validate_many("Trace_MultiReader", histories, wd)
    core.log("[C11]   tlc Trace_MultiReader: %d events, %.1fs" % (n_ev, time.time() - _t0))
    st["p_events"] = n_ev
    failed_idx = set()
    for idx, at, ev, _kf in fails:
        failed_idx.add(idx)
        c_, r_ = hist_cases[idx]
        st["rejected"] += 1
        out.violation("multiplexer: P (Trace_MultiReader) rejects the recorded history at event %d: %s" % (at, json.dumps(ev)),
                      {"component": "mux", "case": {k: v for k, v in c_.items() if not k.startswith("_")}, "observed": r_})
    for i, (c_, r_) in enumerate(hist_cases):
        if "_diverges_at" in c_ and i not in failed_idx:
            st["drift"] += 1
            if st["drift"] <= 3:
                d = c_["_diverges_at"]
                out.notes.append("MODEL-DRIFT MultiReader: case %s step %d expected %s observed %s" % (
                    c_["id"], d, json.dumps(c_["acts"][d]), json.dumps(r_["obs"][d] if d < len(r_["obs"]) else None)))
    stats["mux"] = st
    core.log("[C11] mux: B3 %d states; %d paths / %d calls replayed on the real MultiReader (up to %d sources): conform=%d drift=%d rejected=%d; %d events through P" % (
        st["b3_states"], st["replayed_paths"], st["replayed_calls"], st["sources_max"], st["conform"], st["drift"], st["rejected"], n_ev))


# ----------------------------------------------------------------------------------------- routing

RT_INV = ["TypeOK", "OnlyAddressee", "TablesSound", "NothingStranded", "ClosedIsFinal", "FragmentsHeld"]
RT_AC = ["KindFilter", "DlScript", "Urgent"]


def rt_b3_configs(tier):
    inc1 = dict(Nodes=R('{"n2"}'), Lanes=R('{"l1","l2"}'), Exists=R('{}'), Dls=R('{1,2,3}'), Bodies=R('{}'), MaxInst=1,
                ServerMode=True, MaxSend=0, MaxPeer=2, MCKinds=R('{"event","invalid"}'), PathSel="A", OneWay=R('{}'))
    inc2 = dict(Nodes=R('{"n1","n2"}'), Lanes=R('{"l1"}'), Exists=R('{"n1"}'), Dls=R('{}'), Bodies=R('{}'), MaxInst=2,
                ServerMode=True, MaxSend=0, MaxPeer=3, MCKinds=R('{"command","link","invalid","auth"}'), PathSel="A", OneWay=R('{}'))
    outc = dict(Nodes=R('{"n1","n2"}'), Lanes=R('{"l1"}'), Exists=R('{"n1"}'), Dls=R('{1,2}'), Bodies=R('{}'), MaxInst=1,
                ServerMode=True, MaxSend=3, MaxPeer=1, MCKinds=R('{"command","event"}'), PathSel="B", OneWay=R('{2}'))
    cli = dict(Nodes=R('{"n1"}'), Lanes=R('{"l1","l2"}'), Exists=R('{}'), Dls=R('{1,2}'), Bodies=R('{"b1"}'), MaxInst=1,
               ServerMode=False, MaxSend=1, MaxPeer=2, MCKinds=R('{"command","link","unlinked"}'), PathSel="B", OneWay=R('{}'))
    if tier == "quick":
        return [("inc1", inc1, False), ("inc2", inc2, False), ("out", outc, False), ("client", cli, False)]
    return [("inc1", dict(inc1, MaxPeer=3), False), ("inc2", dict(inc2, MaxPeer=4), False),
            ("out", dict(outc, MaxSend=4), False), ("client", dict(cli, MaxPeer=3), False),
            ("out_live", dict(outc, MaxSend=2), True), ("inc_live", dict(inc1, MaxPeer=2, Dls=R('{1,2}')), True)]


def tbl_configs(tier):
    """settled exploration of the routing tables (MC_Remote: Settled, TblView): every table update is a transition."""
    d = dict(Nodes=R('{"n1","n2"}'), Lanes=R('{"l1","l2"}'), Exists=R('{}'), Dls=R('{1,2,3,4}'), Bodies=R('{}'), MaxInst=1,
             ServerMode=False, MaxSend=0, MaxPeer=0, MCKinds=R('{"event"}'), PathSel="D", OneWay=R('{}'))
    # framing: one downlink on (n1, l1) and the agent of n1; the peer frames envelopes of every kind as 1..3 fragments with
    # ping / pong at any point (MC_Remote: FragFocus) - transitions = (kind, fragments, boundary, control frame)
    f = dict(Nodes=R('{"n1"}'), Lanes=R('{"l1"}'), Exists=R('{"n1"}'), Dls=R('{1}'), Bodies=R('{}'), MaxInst=1, ServerMode=True,
             MaxSend=0, MaxPeer=0, MCKinds=R('{"link","sync","unlink","command","linked","synced","unlinked","event"}'),
             PathSel="D", OneWay=R('{}'), MaxFrag=3, MCCtl=R('{"ping","pong"}'), _ac=["FragFocus"], _group="server")
    if tier == "quick":
        return [("D", d), ("frag", f)]
    return [("D", dict(d, MCKinds=R('{"event","unlinked","synced"}'))), ("C", dict(d, PathSel="C")), ("A", dict(d, PathSel="A")),
            ("B", dict(d, PathSel="B")), ("frag", dict(f, MCKinds=R('{"link","sync","unlink","command","linked","synced","unlinked",'
                                                                     '"event","invalid","auth"}'), MCCtl=R('{"ping","pong","close"}')))]


def framing_scenarios(script):
    """(kind, fragments, boundary after fragment j, control frame) combinations a script exercises: a control frame
    written between fragment j and j + 1 of an n-fragment message."""
    out, cur = set(), None
    for a in script:
        if a["k"] == "peer_frag":
            cur = (a["msg"]["kind"], a["of"], a["part"]) if a["part"] < a["of"] else None
        elif a["k"] == "peer_ctl" and cur is not None:
            out.add(cur + (a["c"],))
        elif a["k"] == "peer_send":
            cur = None
    return out


def table_scenarios(script):
    """which routing-table situations an abstract script puts the incoming half in (counted per script):
    late = an envelope addressed to a lane all of whose downlinks have detached (the first one finds the dead writers and
    empties the entry) while a downlink on a SIBLING lane of the same node is attached; late_then_sibling = ... and a
    later envelope is addressed to that sibling lane while it is still attached; unregistered = an envelope for a
    (node, lane) nobody ever registered for."""
    path, state, ever, stale = {}, {}, set(), set()
    late = late_sib = unreg = False
    watch = set()           # sibling (node, lane) pairs that must still be served after a late envelope
    for a in script:
        k = a["k"]
        if k == "attach_req":
            path[a["d"]] = (a["node"], a["lane"]); state[a["d"]] = "att"; ever.add(path[a["d"]])
        elif k == "dl_detach" and a["d"] in path:
            state[a["d"]] = "det"; stale.add(path[a["d"]])
        elif k == "peer_send" and a["msg"]["kind"] in KINDS_RESP:
            p_ = (a["msg"]["node"], a["msg"]["lane"])
            live = {path[d] for d in path if state[d] == "att"}
            if p_ not in ever:
                unreg = True
            if p_ in watch and p_ in live:
                late_sib = True
            if p_ in stale and p_ not in live:
                sibs = {q for q in live if q[0] == p_[0] and q[1] != p_[1]}
                if sibs:
                    late = True
                    watch |= sibs
                stale.discard(p_)
    return {"late": late, "late_then_sibling": late_sib, "unregistered": unreg}


def decorate_bodies(script, rng):
    """the settled table exploration uses empty bodies; give the envelopes bodies (P compares them)."""
    body = ""
    for a in script:
        if a["k"] == "peer_send" and a["msg"].get("kind") in HAS_BODY:
            a["msg"] = dict(a["msg"], body=rng.choice(["", "b1", "b2"]))
        elif a["k"] == "peer_frag" and a["msg"].get("kind") in HAS_BODY:
            if a["part"] == 1:
                body = rng.choice(["", "b1", "b2"])
            a["msg"] = dict(a["msg"], body=body)       # every fragment belongs to the same message
    return script


SIM_SERVER = dict(Nodes=R('{"n1","n2","n3"}'), Lanes=R('{"l1","l2"}'), Exists=R('{"n1","n2"}'), Dls=R('{1,2,3,4}'), OneWay=R('{4}'),
                  Bodies=R('{"b1","b2"}'), MaxInst=2, ServerMode=True, MaxSend=12, MaxPeer=12,
                  MCKinds=R('{"link","sync","unlink","command","linked","synced","unlinked","event","invalid","auth"}'), PathSel="C",
                  MaxFrag=3, MCCtl=R('{"ping","pong"}'), MaxCtl=8)
SIM_CLIENT = dict(SIM_SERVER, ServerMode=False, Exists=R('{}'), PathSel="B")
TRACE_CONST = dict(Nodes=R('{"n1","n2","n3"}'), Lanes=R('{"l1","l2"}'), Bodies=R('{"b1","b2"}'), MaxInst=2, MaxFrag=3,
                   EnabledFindings=R('{}'))
ENV_ACTS = {"attach_req", "attach_oneway", "attach_done", "dl_send", "dl_detach", "agent_send", "agent_stop", "peer_send",
            "peer_frag", "peer_ctl"}


def enabled_findings():
    """deviation actions of Trace_Remote that may fire: the open entries of known_findings/C11.json."""
    return R("{%s}" % ", ".join('"%s"' % f["id"] for f in core.open_findings(PROP)))


def abstract_scripts(behaviours, rng, p_settle=0.25):
    """project TLC behaviours of Remote.tla onto what the environment does; insert settle points."""
    scripts = []
    for b in behaviours:
        acts = []
        fresh_agents = set()      # agents resolved (in the model run) since the last settle
        for a in b:
            k = a["k"]
            if k == "find" and a.get("found"):
                fresh_agents.add(a["node"])
            if k not in ENV_ACTS:
                continue
            if k in ("agent_send", "agent_stop") and a["node"] in fresh_agents:
                acts.append({"k": "settle"})
                fresh_agents.clear()
            if k == "peer_ctl":
                acts.append({"k": k, "c": a["c"]})
            elif k == "agent_send":
                acts.append({"k": k, "node": a["node"], "msg": a["msg"]})
            elif k == "agent_stop":
                acts.append({"k": k, "node": a["node"]})
            else:
                acts.append(dict(a))
            if k == "peer_send" and a["msg"]["kind"] == "invalid":
                break              # the task terminates: nothing scripted makes sense afterwards
            if k == "peer_frag" and a["part"] == a["of"] and a["msg"]["kind"] == "invalid":
                break
            if k == "peer_ctl" and a["c"] == "close":
                break
            if rng.random() < p_settle:
                acts.append({"k": "settle"})
                fresh_agents.clear()
        if sum(1 for a in acts if a["k"] != "settle") >= 3:
            scripts.append(acts)
    return scripts


INVALID_FRAMES = ["@foo(node:a,lane:b)", "not an envelope", "@event(node:a)", "@event(lane:b) 1", "@event(node:a,lane:b,extra:1)",
                  "@command(a,b)", "", "@event(node:\"a\\q\",lane:b)", "{@event(node:a,lane:b)}", "@event(node:a,lane:b",
                  # well-formed Recon headers whose node / lane is not a text token (record, attributed value, number, blob)
                  "@event(node:@a(1){x:1,y;z},lane:b) 1", "@event(node:{a:1,2;\"q r\":{}},lane:b)", "@event(node:a,lane:@\"q t\"(x:1) 5)",
                  "@link(node:a,lane:@b@c{1}\n)", "@sync(node:7,lane:b)", "@event(node:%AAEC,lane:b)", "@event(node:@t \"s\",lane:b)",
                  "@command(node:a,lane:b,rate:fast) 1", "@linked(node:a;lane:{};)"]
AUTH_FRAMES = ["@auth", "@deauth", "@auth{key:1}", "@deauth()"]


def wide_bodies(n_dl, per):
    return ["w%d_%d" % (d, j) for d in range(1, n_dl + 1) for j in range(1, per + 1)]


def concretise(script, rng, extra_bodies=()):
    """abstract ids -> pool strings (injective per script); returns (concrete acts, maps)."""
    def pick(n, pool_by_class, avoid=()):
        chosen = []
        for _ in range(n):
            for _try in range(200):
                c = rng.choice(sorted(pool_by_class))
                s = rng.choice(pool_by_class[c])
                if s not in chosen and s not in avoid:
                    chosen.append(s)
                    break
            else:
                raise core.ToolError("pool exhausted")
        return chosen
    nodes = dict(zip(["n1", "n2", "n3"], pick(3, STR_POOL)))
    lanes = dict(zip(["l1", "l2"], pick(2, STR_POOL)))
    bodies = dict(zip(["b1", "b2"], pick(2, {k: v for k, v in BODY_POOL.items() if k != "empty"}, avoid=("@nodeNotFound",))))
    bodies[""] = ""
    for j, b in enumerate(extra_bodies):
        bodies[b] = rng.choice(["{seq:%d}", "@m(%d)", "%d", "\"m %d\""]) % j

    def cmsg(m):
        if m["kind"] in ("invalid", "auth"):
            return dict(m)
        return {"kind": m["kind"], "node": nodes[m["node"]], "lane": lanes[m["lane"]], "body": bodies[m["body"]]}
    out = []
    frag = {}                 # text / cut points of the fragmented message under way
    for a in script:
        a = dict(a)
        if a["k"] == "peer_frag":
            if a["part"] == 1:
                frag = {"cuts": sorted(rng.choice([0.02, 0.2, 0.35, 0.5, 0.66, 0.8, 0.97, 1.0]) for _ in range(a["of"] - 1))}
                if a["msg"]["kind"] == "invalid":
                    frag["text"] = rng.choice(INVALID_FRAMES)
                elif a["msg"]["kind"] == "auth":
                    frag["text"] = rng.choice(AUTH_FRAMES)
            a.update(frag)
            a["msg"] = cmsg(a["msg"])
            out.append(a)
            continue
        if "msg" in a:
            if a["msg"]["kind"] == "invalid":
                a["text"] = rng.choice(INVALID_FRAMES)
            elif a["msg"]["kind"] == "auth":
                a["text"] = rng.choice(AUTH_FRAMES)
            elif a["k"] == "peer_send" and a["msg"]["kind"] in ("link", "sync", "linked") and rng.random() < 0.3:
                a["slots"] = rng.choice([",rate:0.5,prio:1.0", ", prio: 3", ";rate:1e2", ",\n rate:0"])   # as other WARP writers spell it
            a["msg"] = cmsg(a["msg"])
        if "node" in a:
            a["node"] = nodes[a["node"]]
        if "lane" in a:
            a["lane"] = lanes[a["lane"]]
        out.append(a)
    return out, {"nodes": nodes, "lanes": lanes, "bodies": bodies}


def abstract_log(log, maps):
    """the recorded history with concrete strings mapped back to the script's abstract ids."""
    inv_n = {v: k for k, v in maps["nodes"].items()}
    inv_l = {v: k for k, v in maps["lanes"].items()}
    inv_b = {v: k for k, v in maps["bodies"].items()}
    inv_b["@nodeNotFound"] = "@nodeNotFound"

    def back(inv, s):
        return inv.get(s, "?" + str(s))

    def amsg(m):
        if m.get("kind") in ("invalid", "auth") and "node" not in m:
            return {"kind": m["kind"]}
        return {"kind": m["kind"], "node": back(inv_n, m["node"]), "lane": back(inv_l, m["lane"]), "body": back(inv_b, m["body"])}
    ev = [{"k": "reset"}]
    for e in log:
        if e["k"] == "skip":
            continue            # an environment move that was not enabled in this run
        e = {k: v for k, v in e.items() if k not in ("text", "reason", "err", "cuts", "slots")}
        if "msg" in e:
            e["msg"] = amsg(e["msg"])
        if "node" in e:
            e["node"] = back(inv_n, e["node"])
        if "lane" in e:
            e["lane"] = back(inv_l, e["lane"])
        if "to" in e and e["to"][0] == "ag":
            e["to"] = ["ag", back(inv_n, e["to"][1]), e["to"][2]]
        ev.append(e)
    return ev


def run_task_cases(cases, wd, tag):
    inp = os.path.join(wd, tag + ".in.ndjson")
    outp = os.path.join(wd, tag + ".out.ndjson")
    core.write_ndjson(inp, [{"id": c["id"], "mode": "task", "cfg": c["cfg"], "acts": c["acts"]} for c in cases])
    core.run_harness("h_remote", ["remote"], stdin_path=inp, stdout_path=outp)
    res = core.read_ndjson(outp)
    if len(res) != len(cases):
        raise core.ToolError("remote harness answered %d of %d cases" % (len(res), len(cases)))
    return res


def wide_script(n_dl, per, rng):
    """many downlinks on one socket (beyond one MultiReader bucket): everything must leave, in each source's order."""
    acts = []
    for d in range(1, n_dl + 1):
        acts.append({"k": "attach_req", "d": d, "node": "n1", "lane": "l1" if d % 2 else "l2"})
    for d in range(1, n_dl + 1):
        acts.append({"k": "attach_done", "d": d})
    order = [d for d in range(1, n_dl + 1) for _ in range(per)]
    rng.shuffle(order)
    seq = {}
    for d in order:
        seq[d] = seq.get(d, 0) + 1
        # every message is unique (its body names source and position), so the trace has one reading
        acts.append({"k": "dl_send", "d": d, "msg": {"kind": "command", "node": "n1", "lane": "l1" if seq[d] % 2 else "l2",
                                                        "body": "w%d_%d" % (d, seq[d])}})
        if rng.random() < 0.05:
            acts.append({"k": "settle"})
    acts.append({"k": "peer_send", "msg": {"kind": "event", "node": "n1", "lane": "l1", "body": "b1"}})
    for d in range(1, n_dl + 1, 3):
        acts.append({"k": "dl_detach", "d": d})
    # the first frame per lane after the detachments finds the dead writers, the following ones must
    # still reach every live subscriber of that lane
    for lane in ("l1", "l2"):
        acts.append({"k": "peer_send", "msg": {"kind": "event", "node": "n1", "lane": lane, "body": "b2"}})
        acts.append({"k": "settle"} if lane == "l1" else {"k": "peer_send", "msg": {"kind": "linked", "node": "n1", "lane": "l1", "body": ""}})
        acts.append({"k": "peer_send", "msg": {"kind": "event", "node": "n1", "lane": lane, "body": "b1"}})
        acts.append({"k": "peer_send", "msg": {"kind": "unlinked", "node": "n1", "lane": lane, "body": "b2"}})
    return acts


def routing_jobs(tier, wd):
    jobs = []
    for name, k, live in rt_b3_configs(tier):
        def b3(name=name, k=k, live=live):
            c = core.cfg(spec="FairSpec" if live else None, constants=mc(k), invariants=RT_INV,
                         properties=["RoutingProps"] + (["AllLeave", "AllRouted"] if live else []),
                         constraints=["Bound"], action_constraints=RT_AC)
            return core.run_tlc("MC_Remote", c, os.path.join(wd, "rt_b3_" + name), workers=1, timeout=1700)
        jobs.append((("rt_b3", name), b3))
    for name, k in tbl_configs(tier):
        def tbl(name=name, k=k):
            c = core.cfg(constants=mc(k), invariants=RT_INV + ["TblInitDump"], properties=["RoutingProps"], view="TblView",
                         action_constraints=RT_AC + list(k.get("_ac", [])) + ["Settled", "TblEdgeDump"])
            return core.run_tlc("MC_Remote", c, os.path.join(wd, "rt_tbl_" + name), workers=1, timeout=1700)
        jobs.append((("rt_tbl", name), tbl))
    n_sim = 60 if tier == "quick" else 1000
    for name, k in (("server", SIM_SERVER), ("client", SIM_CLIENT)):
        def sim(name=name, k=k):
            c = core.cfg(constants=mc(k), invariants=RT_INV + ["InitDump"], view="View", constraints=["Bound"],
                         action_constraints=RT_AC[:2] + ["EdgeDump"])
            return core.run_tlc("MC_Remote", c, os.path.join(wd, "rt_sim_" + name), workers=1, timeout=1700,
                                simulate="num=%d" % (n_sim if name == "server" else n_sim // 3),
                                extra=["-depth", "45", "-seed", str(core.seed() + 17)])
        jobs.append((("rt_sim", name), sim))
    return jobs


def routing_part(tier, out, wd, rng, stats, cov, res):
    st = dict(b3_states=0, b3_transitions=0, scripts=0, script_actions=0, events=0, accepted=0, rejected=0,
              deliveries=0, wire_frames=0, finds=0, closed_runs=0, tbl_states=0, tbl_transitions=0, tbl_scripts=0,
              scripts_control_frame_between_fragments=0, scripts_fragmented_message=0, framing_combinations=0,
              scripts_late_envelope_for_emptied_lane_with_live_sibling=0,
              scripts_late_envelope_then_envelope_for_live_sibling=0, scripts_envelope_for_unregistered_lane=0)
    for (kind, name), r in sorted((k, v) for k, v in res.items() if k[0].startswith("rt_")):
        core.log("[C11]   tlc Remote %s %s: %d distinct states, %.1fs" % (kind, name, r.distinct, r.wall))
        must_ok(r, "Remote %s %s" % (kind, name))
        if kind in ("rt_b3", "rt_tbl"):
            cov_merge(cov, r, "Remote")
        if kind == "rt_b3":
            st["b3_states"] += r.distinct
            st["b3_transitions"] += max(r.generated - 1, 0)
    cases = []
    for name, k in (("server", SIM_SERVER), ("client", SIM_CLIENT)):
        r = res[("rt_sim", name)]
        behs = behaviours_from_edges(r.tagged["EDGE"])
        st["b3_transitions"] += len(r.tagged["EDGE"])
        for j, s in enumerate(abstract_scripts(behs, rng)):
            acts, maps = concretise(s, rng)
            cfg = {"server": name == "server", "exists": [maps["nodes"][n] for n in (("n1", "n2") if name == "server" else ())],
                   "max_inst": 2, "buf": rng.choice([4096, 4096, 96, 40]), "duplex": rng.choice([1 << 16, 1 << 16, 300]),
                   "reg_buf": rng.choice([8, 8, 1])}
            cases.append({"id": "%s%d" % (name, j), "cfg": cfg, "acts": acts, "maps": maps, "abstract": s, "group": name})
    # transition cover of the settled routing-table graph: a settle point after every move of the environment
    for name, k in tbl_configs(tier):
        r = res[("rt_tbl", name)]
        g = core.Graph(r.tagged["EDGE"], init_views=r.tagged["INIT"])
        st["tbl_states"] += r.distinct
        st["tbl_transitions"] += g.n_edges
        st["b3_states"] += r.distinct
        st["b3_transitions"] += g.n_edges
        paths = g.covering_paths(extend=4, rng=rng)
        grp = k.get("_group", "client")
        for j, s in enumerate(abstract_scripts(paths, rng, p_settle=1.0 if grp == "client" else 0.5)):
            s = decorate_bodies(s, rng)
            acts, maps = concretise(s, rng)
            cfg = {"server": grp == "server", "exists": [maps["nodes"][n] for n in (("n1", "n2") if grp == "server" else ())],
                   "max_inst": 2, "buf": rng.choice([4096, 96, 40])}
            cases.append({"id": "tbl%s%d" % (name, j), "cfg": cfg, "acts": acts, "maps": maps, "abstract": s, "group": grp})
            st["tbl_scripts"] += 1
    # every malformed frame of the pool once, between two deliverable envelopes: nothing after it is delivered
    for j, text in enumerate(INVALID_FRAMES):
        s = [{"k": "attach_req", "d": 1, "node": "n1", "lane": "l1"}, {"k": "attach_done", "d": 1},
             {"k": "peer_send", "msg": {"kind": "event", "node": "n1", "lane": "l1", "body": "b1"}}, {"k": "settle"},
             {"k": "peer_send", "msg": {"kind": "invalid"}},
             {"k": "peer_send", "msg": {"kind": "unlinked", "node": "n1", "lane": "l1", "body": "b2"}}]
        acts, maps = concretise(s, rng)
        acts[4]["text"] = text
        cases.append({"id": "bad%d" % j, "cfg": {"server": False, "exists": [], "max_inst": 2, "buf": 4096}, "acts": acts,
                      "maps": maps, "abstract": s, "group": "client"})
    # a close frame from the peer (idle / between two fragments): what was complete before it is delivered, nothing after
    ev = lambda b: {"kind": "event", "node": "n1", "lane": "l1", "body": b}
    for j, mid in enumerate((False, True)):
        s = [{"k": "attach_req", "d": 1, "node": "n1", "lane": "l1"}, {"k": "attach_done", "d": 1},
             {"k": "peer_frag", "msg": ev("b1"), "part": 1, "of": 2}, {"k": "peer_ctl", "c": "ping"},
             {"k": "peer_frag", "msg": ev("b1"), "part": 2, "of": 2}]
        s += [{"k": "peer_frag", "msg": ev("b2"), "part": 1, "of": 3}] if mid else [{"k": "peer_send", "msg": ev("b2")}]
        s += [{"k": "peer_ctl", "c": "close"}]
        acts, maps = concretise(s, rng)
        cases.append({"id": "close%d" % j, "cfg": {"server": False, "exists": [], "max_inst": 2, "buf": 4096}, "acts": acts,
                      "maps": maps, "abstract": s, "group": "client"})
    # many sources on one socket
    wides = [(3, 3), (70, 2)] if tier == "quick" else [(3, 5), (70, 3), (130, 2)]
    for n_dl, per in wides:
        s = wide_script(n_dl, per, rng)
        acts, maps = concretise(s, rng, wide_bodies(n_dl, per))
        cases.append({"id": "wide%d" % n_dl, "cfg": {"server": True, "exists": [], "max_inst": 2, "buf": 4096, "reg_buf": 8},
                      "acts": acts, "maps": maps, "abstract": s, "group": "wide%d" % n_dl, "n_dl": n_dl, "per": per})
    framing = set()
    for c in cases:
        fs = framing_scenarios(c["abstract"])
        framing |= fs
        st["scripts_control_frame_between_fragments"] += 1 if fs else 0
        st["scripts_fragmented_message"] += 1 if any(a["k"] == "peer_frag" for a in c["abstract"]) else 0
        sc = table_scenarios(c["abstract"])
        st["scripts_late_envelope_for_emptied_lane_with_live_sibling"] += sc["late"]
        st["scripts_late_envelope_then_envelope_for_live_sibling"] += sc["late_then_sibling"]
        st["scripts_envelope_for_unregistered_lane"] += sc["unregistered"]
    st["framing_combinations"] = len(framing)
    want = {(kd, n, j, c_) for kd in KINDS_REQ + KINDS_RESP for n in (2, 3) for j in range(1, n) for c_ in ("ping", "pong")}
    st["framing_combinations_missing"] = sorted("%s/%d/%d/%s" % x for x in want - framing)
    core.log("[C11] framing: %d scripts fragment a message, %d write a control frame between two fragments; %d of the %d combinations "
             "kind x fragments x boundary x ping/pong covered" % (st["scripts_fragmented_message"],
                                                                   st["scripts_control_frame_between_fragments"],
                                                                   len(want & framing), len(want)))
    results = run_task_cases(cases, wd, "task")
    groups = {}
    for c, r in zip(cases, results):
        st["scripts"] += 1
        st["script_actions"] += len(c["acts"])
        if r.get("panic"):
            raise core.ToolError("harness panicked outside the code under test on %s: %s" % (c["id"], r["panic"]))
        log = r["log"]
        if any(e["k"] == "script_error" for e in log):
            raise core.ToolError("script %s is not executable: %s" % (c["id"], [e for e in log if e["k"] == "script_error"][:2]))
        st["deliveries"] += sum(1 for e in log if e["k"] == "recv")
        st["wire_frames"] += sum(1 for e in log if e["k"] == "wire_out")
        st["finds"] += sum(1 for e in log if e["k"] == "find")
        st["closed_runs"] += 1 if any(e["k"] == "ws_closed" for e in log) else 0
        groups.setdefault(c["group"], []).append((c, r, abstract_log(log, c["maps"])))
    for g, items in groups.items():
        if g.startswith("wide"):
            n = items[0][0]["n_dl"]
            const = dict(TRACE_CONST, Dls=R("{%s}" % ", ".join(str(x) for x in range(1, n + 1))), Exists=R('{}'), ServerMode=True,
                         Bodies=R("{%s}" % ", ".join('"%s"' % b for b in ["b1", "b2"] + wide_bodies(n, items[0][0]["per"]))))
        elif g == "server":
            const = dict(TRACE_CONST, Dls=R("{1,2,3,4}"), Exists=R('{"n1","n2"}'), ServerMode=True)
        else:
            const = dict(TRACE_CONST, Dls=R("{1,2,3,4}"), Exists=R('{}'), ServerMode=False)
        const["EnabledFindings"] = enabled_findings()
        n_ev, fails, kfs = validate_many("Trace_Remote", [h for _, _, h in items], os.path.join(wd, "tv_" + g), constants=const,
                                         invariants=["TraceInv"])
        for f in core.open_findings(PROP):
            if f["id"] in kfs:          # the listed defect was actually observed on this run
                out.known_finding("%s: %s" % (f["id"], f["signature"]))
        st["events"] += n_ev
        st["rejected"] += len(fails)
        st["accepted"] += len(items) - len(fails)
        for idx, at, ev, _kf in fails:
            c, r, h = items[idx]
            out.violation("routing: P (Trace_Remote) rejects the history recorded from the real RemoteTask at event %d: %s (after %s)" % (
                at, json.dumps(ev, ensure_ascii=False), json.dumps(h[max(0, at - 3):at], ensure_ascii=False)[:600]),
                {"component": "task", "case": {k: c[k] for k in ("id", "cfg", "acts", "maps", "group")}, "n_dl": c.get("n_dl"), "per": c.get("per"),
                 "log": r["log"][:400]})
    if cases:
        c0 = cases[min(3, len(cases) - 1)]
        out.sample({"task_script": c0["acts"][:10], "cfg": c0["cfg"]})
        out.sample({"task_history_abstract": groups[c0["group"]][0][2][:14]})
    stats["routing"] = st
    core.log("[C11] routing tables: settled graph %d states / %d transitions covered by %d scripts; of all %d scripts %d (%.0f%%) send a late "
             "envelope to an emptied lane while a sibling lane of the node is live, %d (%.0f%%) then also an envelope to that sibling, "
             "%d address a never-registered lane" % (
                 st["tbl_states"], st["tbl_transitions"], st["tbl_scripts"], st["scripts"],
                 st["scripts_late_envelope_for_emptied_lane_with_live_sibling"],
                 100.0 * st["scripts_late_envelope_for_emptied_lane_with_live_sibling"] / max(1, st["scripts"]),
                 st["scripts_late_envelope_then_envelope_for_live_sibling"],
                 100.0 * st["scripts_late_envelope_then_envelope_for_live_sibling"] / max(1, st["scripts"]),
                 st["scripts_envelope_for_unregistered_lane"]))
    core.log("[C11] routing: B3 %d states; %d scripts (%d actions) on the real RemoteTask: %d events validated, accepted=%d rejected=%d (%d deliveries, %d frames on the wire, %d agent resolutions, %d terminated by an invalid frame)" % (
        st["b3_states"], st["scripts"], st["script_actions"], st["events"], st["accepted"], st["rejected"], st["deliveries"],
        st["wire_frames"], st["finds"], st["closed_runs"]))


# ----------------------------------------------------------------------------------------- entry points

def run(tier, out):
    rng = random.Random(core.seed())
    wd = core.workdir(PROP)
    core.build_harness("h_core", "multireader")
    core.build_harness("h_remote", "remote")
    for f in core.open_findings(PROP):
        out.notes.append("open finding listed: %s" % f["id"])
    stats, cov = {}, {}
    parts = os.environ.get("VERIF_C11_PARTS", "pure,mux,routing").split(",")     # development aid only
    jobs = [(("pure", 0), lambda: pure_enumerate(wd))]
    if "mux" in parts:
        jobs += mux_jobs(tier, wd)
    if "routing" in parts:
        jobs += routing_jobs(tier, wd)
    res = tlc_jobs(jobs, par=4)          # every job is a 1-worker TLC: at most 4 TLC workers at any time
    pr = res[("pure", 0)]
    pure_part(tier, out, wd, rng, stats, pr)
    if "mux" in parts:
        mux_part(tier, out, wd, rng, stats, cov, res)
    if "routing" in parts:
        routing_part(tier, out, wd, rng, stats, cov, res)
    if len(parts) < 3:
        core.log("[C11] partial run (%s): no evidence written" % parts)
        for w, p_ in out.violations:
            core.log("VIOLATION " + w[:600] + " " + p_)
        raise core.ToolError("partial run requested with VERIF_C11_PARTS")
    never = sorted(a for a, (d, t) in cov.items() if t == 0 and a.split(".")[1] not in ("Bound", "KindFilter", "DlScript", "Urgent"))
    mux, rt, pu = stats["mux"], stats["routing"], stats["pure"]
    out.add(states=mux["states"] + rt["b3_states"] + pr.distinct,
            transitions=mux["transitions"] + rt["b3_transitions"],
            traces_validated_against_impl=mux["replayed_paths"] + rt["scripts"],
            pure=pu, mux=mux, routing=rt,
            model_drift=pu["model_drift"] + mux["drift"],
            action_coverage={a: {"distinct": d, "taken": t} for a, (d, t) in sorted(cov.items())},
            actions_never_taken=never, exhaustive=False,
            rule="pure: every abstract envelope of Remote.tla (TLC enumeration) concretised from the pools, real writer then real "
                 "reader; mux: every transition of MultiReader.tla's state graph (bucket size 64; 2-3 active sources alone, at the "
                 "bucket boundary with 65 sources, and 70 sources) replayed on the real MultiReader, all histories validated by "
                 "Trace_MultiReader; routing: a transition cover of the settled routing-table graph of Remote.tla, TLC-simulated "
                 "behaviours of Remote.tla, one script per malformed frame and wide scripts run on a real RemoteTask over a duplex "
                 "web socket, histories validated by Trace_Remote",
            checker_cmd="tlc MC_Remote (pure: RoundTripLaw; routing: %s RoutingProps) + tlc MC_MultiReader (%s NoStarvation) + "
                        "h_remote remote + h_core multireader + tlc Trace_Remote + tlc Trace_MultiReader" % (
                            " ".join(RT_INV), " ".join(MR_INV)))
    out.assumptions += [
        "MultiReader is owned by one task: a poll_next call is an atomic step; scripted sources wake the stored waker once per push",
        "config T runs on a paused single-threaded tokio runtime: the interleavings of the RemoteTask's three internal tasks are "
        "those this scheduler produces for the scripted bursts, not all of them (Remote.tla covers all, at model level)",
        "bodies are Recon text without leading blanks (the reader strips blanks between header and body)",
        "ratchet and tokio::io::duplex are trusted to carry text frames unchanged",
    ]


def replay(path, out):
    wd = core.workdir(PROP + "_replay")
    obj = json.load(open(path))["replay"]
    comp = obj.get("component")
    if comp == "pure":
        core.build_harness("h_remote", "remote")
        res = run_pure_batch([obj["msg"]], wd, "replay")[0]
        msg = obj["msg"]
        if msg["kind"] == "notfound":
            msg = {"kind": "unlinked", "node": msg["node"], "lane": msg["lane"], "body": "@nodeNotFound"}
        v = pure_verdict(msg, res)
        print("wire text:", json.dumps(res.get("text"), ensure_ascii=False))
        print("read back:", json.dumps(res.get("back"), ensure_ascii=False))
        if v:
            print("P verdict:", v)
            print("VIOLATION property=%s replay=%s" % (PROP, path))
            return 1
        print("P verdict: accepted")
        return 0
    if comp == "mux":
        core.build_harness("h_core", "multireader")
        case = obj["case"]
        res = rp.run_cases("h_core", "multireader", [case], wd, tag="replay", input_keys=MR_INPUT)[0]
        print("first divergence from M at step:", rp.first_diff(case["acts"], res.get("obs", []), MR_INPUT))
        if res.get("panic"):
            print("panic:", res["panic"])
            print("VIOLATION property=%s replay=%s" % (PROP, path))
            return 1
        n, fails, _ = validate_many("Trace_MultiReader", [mr_events(case, res)], wd)
        print("P verdict:", "rejected at event %s: %s" % (fails[0][1], json.dumps(fails[0][2])) if fails else "accepted (%d events)" % n)
        if fails:
            print("VIOLATION property=%s replay=%s" % (PROP, path))
            return 1
        return 0
    if comp == "task":
        core.build_harness("h_remote", "remote")
        case = obj["case"]
        res = run_task_cases([case], wd, "replay")[0]
        h = abstract_log(res["log"], case["maps"])
        g = case["group"]
        if g.startswith("wide"):
            const = dict(TRACE_CONST, Dls=R("{%s}" % ", ".join(str(x) for x in range(1, obj["n_dl"] + 1))), Exists=R('{}'), ServerMode=True,
                         Bodies=R("{%s}" % ", ".join('"%s"' % b for b in ["b1", "b2"] + wide_bodies(obj["n_dl"], obj["per"]))))
        elif g == "server":
            const = dict(TRACE_CONST, Dls=R("{1,2,3,4}"), Exists=R('{"n1","n2"}'), ServerMode=True)
        else:
            const = dict(TRACE_CONST, Dls=R("{1,2,3,4}"), Exists=R('{}'), ServerMode=False)
        const["EnabledFindings"] = enabled_findings()
        n, fails, kfs = validate_many("Trace_Remote", [h], wd, constants=const, invariants=["TraceInv"])
        for k_ in sorted(kfs):
            print("KNOWN-FINDING: property=%s %s" % (PROP, k_))
        for e in h[-25:] if not fails else h[max(0, fails[0][1] - 12): fails[0][1] + 1]:
            print("   ", json.dumps(e, ensure_ascii=False))
        print("P verdict:", "rejected at event %s: %s" % (fails[0][1], json.dumps(fails[0][2], ensure_ascii=False)) if fails else "accepted (%d events)" % n)
        if fails:
            print("VIOLATION property=%s replay=%s" % (PROP, path))
            return 1
        return 0
    print(json.dumps(obj, indent=1)[:4000])
    return 0

"""C06 - event handlers of one agent run one at a time, depth-first, in the documented order.

specs/Handlers.tla is a small-step semantics (explicit frame stack, one action per HandlerAction::step /
item_event / return of run_handler / TaskEvent) of handler programs over a command lane, two value lanes
and a map lane.  The contract is exact (P = M), so the oracle is equality:

B3: TLC checks the semantics itself against the clauses of the statement (no overlap / bounded depth, one
    trigger per state change with the true previous value, on_start first, on_stop last, nothing left after a
    failure) - exhaustively for small pools of handler shapes, and on every simulated behaviour for the big pool.
B1: TLC is the case generator: it chooses the program (the body of every lifecycle slot that is reached, lazily,
    from the pool of shapes), the initial map and the stimulus sequence, executes the semantics and prints
    program + stimuli + the expected events per stimulus + the expected fate of the agent.  The harness
    (h_runtime/handlers) interprets the program into real boxed handlers inside a `#[lifecycle]` on a real
    swimos_agent AgentModel, plays the runtime (lane initialisation, commands, syncs, completion of suspended
    futures, shutdown) under several schedules (lane buffer sizes, undrained lane output, batched commands)
    and returns the events recorded through context.effect closures.  Any difference is a violation, except
    the one freedom the statement leaves: what the agent does *after* a handler failed (FailPolicy in the
    spec), which is only MODEL-DRIFT.
    Directed family resume_stop: behaviours that end with `resume i ; stop` (the resumed handler changing no lane) are
    replayed with both stimuli delivered at once (the future completes as the lane inputs end, no quiescence in
    between).  The model allows StimResume ; StimStop or StimStop alone (the pending future is dropped); the real
    select is random, so every case is repeated; anything else - in particular a handler after on_stop - is a violation.
"""
import json, os, random, re
from vlib import core
from vlib import replay as rp

PROP = "C06"
INPUT_KEYS = {"k", "l", "x", "y", "fl"}
INVS = ["TypeOK", "DepthBound", "ModBeforeStep", "OneTriggerPerChange", "TruePrevious", "StartFirst", "StopLast",
        "NothingLeftBehind", "DeadIsFinal", "BigStepAgrees", "Emit"]
ALL = "{1,2,3,4,5,6,7,8,9,10,11,12,13,14,15,16,17,18,19,20}"
CMD_KINDS = {"cmd", "set", "upd", "rem", "clr", "take", "drop"}
MAX_REPORT = 8

# exhaustive enumerations: (name, MaxStim, TopShapes, Shapes, MapShapes, Stimuli, InitMaps)
EXH_QUICK = [
    ("cascade", 1, "{2}", "{1,3,4,6}", "{2}", "StimsQuick", "MapsEmpty"),      # depth-first order, true previous, failure
    ("two-stimuli", 2, "{2}", "{3,4}", "{2}", "StimsQuick", "MapsEmpty"),      # state carried across stimuli
    ("top-level", 1, "{3,5,8}", "{2,3}", "{2,7}", "StimsTiny", "MapsEmpty"),   # cascades out of on_start / on_stop, suspend
    ("suspend", 2, "{2}", "{3,8,15}", "{2}", "StimsTiny", "MapsEmpty"),        # suspended handlers (and failing ones) run later
    ("stop", 2, "{2,12}", "{3,12,13}", "{2,12}", "StimsTiny", "MapsEmpty"),    # StopInstructed: unwinds, on_stop still last
    ("map", 1, "{2}", "{9,10,14}", "{2,17}", "StimsFull", "MapsBoth"),         # map events with the true previous entry
    ("styles", 1, "{2}", "{5,11,16}", "{2}", "StimsTiny", "MapsEmpty"),         # combinator styles, same value twice
    ("styles-b", 1, "{2}", "{18,19,20}", "{2}", "StimsTiny", "MapsEmpty"),       # join / and_then_contextual / and_then_try
]
EXH_THOROUGH = EXH_QUICK + [
    ("cascade-2", 2, "{2}", "{1,3,4,6}", "{2}", "StimsQuick", "MapsEmpty"),
    ("styles-2", 1, "{2}", "{5,7,11,16,18,19,20}", "{2,7}", "StimsQuick", "MapsEmpty"),
    ("top-level-2", 1, "{2,3}", "{1,3,4,6}", "{2,7}", "StimsQuick", "MapsEmpty"),
    ("suspend-fail", 2, "{2,8}", "{3,8,15}", "{2,15}", "StimsTiny", "MapsEmpty"),
    ("map-2", 2, "{2}", "{9,14}", "{2,17}", "StimsFull", "MapsBoth"),
]
SIM = dict(MaxStim=4, Top="{1,2,3,5,8}", Shapes=ALL, Map="{1,2,7,12,15,17}", Stims="StimsFull", Maps="MapsBoth")


def tlc_cfg(maxstim, top, shapes, mapshapes, stims, maps):
    c = core.cfg(constants=dict(MaxStim=maxstim, TopShapes=core.Raw(top), Shapes=core.Raw(shapes),
                                MapShapes=core.Raw(mapshapes)), invariants=INVS)
    return c + "CONSTANT Stimuli <- %s\nCONSTANT InitMaps <- %s\n" % (stims, maps)


def check_model(r, what):
    if not r.ok:
        # the semantics itself breaks a clause of the property: a defect of the specification, not a verdict on the code
        raise core.ToolError("Handlers.tla violates %s (%s) in %s:\n%s" % (r.violated, r.status, what, r.counterexample[:3000]))
    bad = [x for x in r.tagged["REPLAY"] if not isinstance(x, dict)]
    if bad:
        raise core.ToolError("unparsable REPLAY line from TLC in %s: %s" % (what, str(bad[0])[:300]))


def grouped(acts, i, batch):
    """mirror of the harness: with the batch schedule consecutive commands to one lane are written without
    letting the agent run in between; their events are reported with the last member of the group"""
    return (batch and i + 1 < len(acts) and acts[i]["k"] in CMD_KINDS and acts[i + 1]["k"] in CMD_KINDS
            and acts[i]["l"] == acts[i + 1]["l"])


def expected_acts(acts, batch):
    out, carry = [], []
    for i, a in enumerate(acts):
        a = dict(a)
        if grouped(acts, i, batch):
            carry += a["ev"]
            a["ev"], a["fin"] = [], "run"
        else:
            a["ev"] = carry + a["ev"]
            carry = []
        out.append(a)
    return out


def make_case(cid, rep, sched):
    batch = sched["batch"]
    return {"id": cid, "cfg": {"prog": rep["prog"], "m0": rep["m0"], "buf": sched["buf"], "drain": sched["drain"],
                                "batch": batch},
            "acts": expected_acts(rep["acts"], batch)}


SCHEDULES = [dict(buf=4096, drain=True, batch=False), dict(buf=64, drain=True, batch=False),
             dict(buf=4096, drain=True, batch=True), dict(buf=32, drain=False, batch=False),
             dict(buf=32, drain=False, batch=True)]


def p_validate(case, result):
    """Only reached when the observation differs from the specification.  The statement fixes everything up to and
    including a failure; what the agent does afterwards (FailPolicy) is not part of it: accept exactly the
    alternatives 'the agent ends' / 'the agent ends after running on_stop' / 'the agent carries on'.
    (Behaviours with a failure are never run with the batch schedule, so stimuli and observations align.)"""
    if result.get("panic"):
        return {"accepted": False, "detail": "panic in the harness or the code under test: %s" % result["panic"]}
    exp, obs = case["acts"], result.get("obs", [])
    if len(obs) != len(exp) or case["cfg"]["batch"]:
        return {"accepted": False, "detail": ""}
    for j, (e, o) in enumerate(zip(exp, obs)):
        if rp.project(e, INPUT_KEYS) == o:
            continue
        if e.get("fl") != 1:
            return {"accepted": False, "detail": "(no handler fails while this stimulus is handled: the order is fully determined)"}
        oe, ee = o.get("ev", []), e["ev"]
        if o.get("fin") == "panic" or oe[:len(ee)] != ee:
            return {"accepted": False, "detail": "the events up to the failure differ"}
        rest = oe[len(ee):]
        ends = o.get("fin") in ("err", "ok", "init_err")
        tail_ok = all(x.get("ev") == [] and x.get("fin") == o.get("fin") for x in obs[j + 1:])
        if e["fin"] == "run" and ends and tail_ok and (rest == [] or (rest[0] == ["stop"] and rest.count(["stop"]) == 1)):
            return {"accepted": True, "detail": "agent ended after a failed handler where the model carries on"}
        if e["fin"] in ("err", "init_err") and rest == [] and o.get("fin") == "run" and j == len(exp) - 1:
            return {"accepted": True, "detail": "agent carried on after a failed handler where the model ends"}
        return {"accepted": False, "detail": "not explained by the failure policy"}
    return {"accepted": False, "detail": ""}


def compact(rep):
    def ops(b):
        return [[o["op"]] + ([o["l"]] if o["l"] else []) + ([o["x"], o["y"]] if o["op"] in ("upd", "xf") else
                ([o["x"]] if o["op"] in ("eff", "set", "rem", "docmd") else [])) +
                ([[p["op"] for p in o["p"]]] if o["p"] else []) for o in b["ops"]]
    return {"program": {s: {"style": b["c"], "body": ops(b)} for s, b in rep["prog"].items() if b["ops"]},
            "initial_map": rep["m0"],
            "stimuli_with_expected_events": [{"stimulus": [a["k"], a["l"], a["x"], a["y"]], "events": a["ev"], "agent": a["fin"]}
                                             for a in rep["acts"]]}


def replay_cases(out, reps, wd, tag, rng, what, stats, all_schedules=False):
    cases = []
    for i, rep in enumerate(reps):
        failing = any(a.get("fl") == 1 for a in rep["acts"])
        avail = [s for s in SCHEDULES if not (failing and s["batch"])]
        scheds = avail if all_schedules else [avail[0], avail[1 + rng.randrange(len(avail) - 1)]]
        for j, s in enumerate(scheds):
            cases.append(make_case("%s.%d.%d" % (tag, i, j), rep, s))
    send = [{"id": c["id"], "cfg": c["cfg"], "acts": [rp.inputs(a, INPUT_KEYS - {"fl"}) for a in c["acts"]]} for c in cases]
    results = rp.run_cases("h_runtime", "handlers", send, wd, tag=tag, input_keys=None, strip=False)
    # one replay file per distinct failure is enough: every conforming or merely drifting run is kept, of the runs the
    # property rejects the first MAX_REPORT are reported, the rest is counted
    keep_c, keep_r, extra = [], [], 0
    for c, r in zip(cases, results):
        if r.get("panic") or rp.first_diff(c["acts"], r.get("obs", []), INPUT_KEYS) is not None:
            if not p_validate(c, r).get("accepted"):
                if stats.get("reported", 0) >= MAX_REPORT:
                    extra += 1
                    continue
                stats["reported"] = stats.get("reported", 0) + 1
        keep_c.append(c)
        keep_r.append(r)
    if extra:
        stats["further_rejected_runs_not_reported"] = stats.get("further_rejected_runs_not_reported", 0) + extra
    cases, results = keep_c, keep_r
    st = rp.conformance(out, cases, results, INPUT_KEYS, p_validate, what, max_validate=10 ** 9)
    for k in ("cases", "steps", "conform", "drift", "rejected", "panics"):
        stats[k] = stats.get(k, 0) + st[k]
    stats["rejected"] += extra
    stats["events"] = stats.get("events", 0) + sum(len(a["ev"]) for c in cases for a in c["acts"])
    return st


# ---- directed family: the end of the lane inputs arrives together with a completed suspended future -------------
# events that show that a handler ran without changing a lane: an effect, a read, the entry of the command handler
QUIET = {"eff", "get", "snap", "cmd"}
RS_REPEAT = 10
RS_MAX = 60          # behaviours per enumeration / simulation that are turned into resume_stop cases


def resume_stop_variants(reps):
    """From the behaviours TLC generated: those that end with `resume i` (StimResume) followed by `stop` (StimStop), where
    no handler fails and the resumed handler changes no lane state (all its events are QUIET - so StimStop taken directly
    from the state before the resume, with the pending future dropped, yields exactly the events of the stop act).
    The two stimuli are merged into one `resume_stop`: the model allows A = StimResume ; StimStop and B = StimStop."""
    res = []
    for rep in reps:
        a = rep["acts"]
        if len(a) < 3 or a[-1]["k"] != "stop" or a[-2]["k"] != "resume":
            continue
        if any(x.get("fl") == 1 for x in a) or a[-2]["fin"] != "run":
            continue
        if any(e[0] not in QUIET for e in a[-2]["ev"]) or ["stop"] not in a[-1]["ev"]:
            continue
        res.append((rep, a[-2]["ev"] + a[-1]["ev"], a[-1]["ev"], a[-1]["fin"]))
    return res


def rs_case(cid, rep, alt_a, alt_b, fin, sched):
    acts = [dict(x) for x in rep["acts"][:-2]]
    acts.append({"k": "resume_stop", "l": "", "x": rep["acts"][-2]["x"], "y": 0, "fl": 0, "alts": {"A": alt_a, "B": alt_b},
                 "fin": fin})
    return {"id": cid, "cfg": {"prog": rep["prog"], "m0": rep["m0"], "buf": sched["buf"], "drain": sched["drain"],
                                "batch": False}, "acts": acts}


def rs_send(c):
    return {"id": c["id"], "cfg": c["cfg"], "acts": [rp.inputs(a, INPUT_KEYS - {"fl"}) for a in c["acts"]]}


def rs_verdict(case, result):
    """-> ("A" | "B" | "prefix" | None, detail).  None: the property is violated."""
    if result.get("panic"):
        return None, "panic in the harness or the code under test: %s" % result["panic"]
    exp, obs = case["acts"], result.get("obs", [])
    if len(obs) != len(exp):
        return None, "the harness answered %d of %d stimuli" % (len(obs), len(exp))
    if rp.first_diff(exp[:-1], obs[:-1], INPUT_KEYS) is not None:
        return "prefix", "the stimuli before resume_stop already differ (the same prefix is judged by the ordinary family)"
    last, o = exp[-1], obs[-1]
    for name in ("A", "B"):
        if o.get("ev") == last["alts"][name] and o.get("fin") == last["fin"]:
            return name, ""
    ev, b = o.get("ev") or [], last["alts"]["B"]
    if ["stop"] in ev and ev[ev.index(["stop"]) + 1:] != b[b.index(["stop"]) + 1:]:
        return None, "what ran after the entry of on_stop is not the body of on_stop: %s" % json.dumps(ev[ev.index(["stop"]) + 1:])
    return None, "neither 'completed handler, then on_stop' nor 'on_stop alone (future dropped)'"


def resume_stop_cases(out, reps, wd, tag, rng, what, stats):
    var = resume_stop_variants(reps)
    if len(var) > RS_MAX:
        var = rng.sample(var, RS_MAX)
    scheds = [s for s in SCHEDULES if not s["batch"]]
    cases = [rs_case("%s.%d.%d.%d" % (tag, i, j, n), rep, ea, eb, fin, s)
             for i, (rep, ea, eb, fin) in enumerate(var) for j, s in enumerate(scheds) for n in range(RS_REPEAT)]
    if not cases:
        return 0
    results = rp.run_cases("h_runtime", "handlers", [rs_send(c) for c in cases], wd, tag=tag, input_keys=None, strip=False)
    bad = set()
    for c, r in zip(cases, results):
        v, detail = rs_verdict(c, r)
        stats["rs_runs"] = stats.get("rs_runs", 0) + 1
        if v is not None:
            stats["rs_" + v] = stats.get("rs_" + v, 0) + 1
            continue
        stats["rs_rejected"] = stats.get("rs_rejected", 0) + 1
        key = c["id"].rsplit(".", 2)[0]
        if key in bad or stats.get("rs_reported", 0) >= MAX_REPORT:
            continue
        bad.add(key)
        stats["rs_reported"] = stats.get("rs_reported", 0) + 1
        last = c["acts"][-1]
        out.violation("%s: case %s: a suspended future completes as the lane inputs end (resume_stop %d): the model allows %s "
                      "or %s -> %s, real code gave %s; %s" % (
                          what, c["id"], last["x"], json.dumps(last["alts"]["A"]), json.dumps(last["alts"]["B"]), last["fin"],
                          json.dumps((r.get("obs") or [None])[-1]), detail),
                      {"component": what, "family": "resume_stop", "case": c, "observed": r})
    stats["rs_behaviours"] = stats.get("rs_behaviours", 0) + len(var)
    return len(var)


def sim_states(r):
    m = re.search(r"The number of states generated: (\d+)", r.stdout)
    return int(m.group(1)) if m else 0


def run(tier, out):
    rng = random.Random(core.seed())
    wd = core.workdir(PROP)
    core.build_harness("h_runtime", "handlers")
    cov, stats = {}, {}
    states = transitions = 0
    programs = set()
    behaviours = 0
    sampled = 0

    def account(r):
        for a, (d, t) in r.coverage.items():
            o = cov.get(a, (0, 0))
            cov[a] = (o[0] + d, o[1] + t)

    def note(reps):
        nonlocal behaviours
        behaviours += len(reps)
        for rep in reps:
            programs.add(core.canon(rep["prog"]))

    for (name, ms, top, sh, mp, stims, maps) in (EXH_QUICK if tier == "quick" else EXH_THOROUGH):
        r = core.run_tlc("MC_Handlers", tlc_cfg(ms, top, sh, mp, stims, maps), os.path.join(wd, "mc_" + name),
                         workers=2 if tier == "quick" else 4, timeout=1500)
        check_model(r, name)
        account(r)
        states += r.distinct
        transitions += r.generated
        reps = r.tagged["REPLAY"]
        note(reps)
        st = replay_cases(out, reps, wd, "x_" + name, rng, "Handlers[%s]" % name, stats)
        core.log("[C06] exhaustive %-12s: %7d states %7d transitions depth %3d (%.0fs); %5d behaviours -> %5d runs: "
                 "conform=%d drift=%d rejected=%d" % (name, r.distinct, r.generated, r.depth, r.wall, len(reps), st["cases"],
                                                      st["conform"], st["drift"], st["rejected"]))
        resume_stop_cases(out, reps, wd, "rs_" + name, rng, "Handlers[%s]" % name, stats)
        if sampled < 2 and reps:
            out.sample(compact(max(reps[:400], key=lambda x: sum(len(a["ev"]) for a in x["acts"]))))
            sampled += 1
        if out.violations:
            break       # the property is already refuted on the real code: no need to enumerate further

    n = 2500 if tier == "quick" else 40000
    if out.violations:
        n = 200
    c = tlc_cfg(SIM["MaxStim"], SIM["Top"], SIM["Shapes"], SIM["Map"], SIM["Stims"], SIM["Maps"])
    r = core.run_tlc("MC_Handlers", c, os.path.join(wd, "sim"), workers=1, simulate="num=%d" % n, timeout=2400,
                     extra=["-depth", "600", "-seed", str(core.seed())])
    check_model(r, "simulation")
    account(r)
    sgen = sim_states(r)
    reps, seen = [], set()
    for rep in r.tagged["REPLAY"]:
        k = core.canon(rep)
        if k not in seen:
            seen.add(k)
            reps.append(rep)
    note(reps)
    st = replay_cases(out, reps, wd, "sim", rng, "Handlers[simulation]", stats, all_schedules=(tier != "quick"))
    core.log("[C06] simulation (20 shapes, 4 stimuli): %d behaviours (%d distinct), %d states generated (%.0fs) -> %d runs: "
             "conform=%d drift=%d rejected=%d" % (len(r.tagged["REPLAY"]), len(reps), sgen, r.wall, st["cases"], st["conform"],
                                                  st["drift"], st["rejected"]))
    resume_stop_cases(out, reps, wd, "rs_sim", rng, "Handlers[simulation]", stats)
    core.log("[C06] stop together with a completed suspended future (resume_stop): %d behaviours x %d non-batch schedules x %d "
             "repeats = %d runs: 'completed handler, then on_stop' %d, 'on_stop alone (future dropped)' %d, rejected %d%s%s" % (
                 stats.get("rs_behaviours", 0), len([s for s in SCHEDULES if not s["batch"]]), RS_REPEAT, stats.get("rs_runs", 0),
                 stats.get("rs_A", 0), stats.get("rs_B", 0), stats.get("rs_rejected", 0),
                 (", prefix differed %d" % stats["rs_prefix"]) if stats.get("rs_prefix") else "",
                 "".join("; alternative %s was never observed" % n for n in ("A", "B")
                         if stats.get("rs_runs") and not stats.get("rs_" + n))))
    if reps:
        out.sample(compact(max(reps[:300], key=lambda x: sum(len(a["ev"]) for a in x["acts"]))))

    never = sorted(a for a, (d, t) in cov.items() if t == 0 and a != "Init")
    out.add(states=states, transitions=transitions,
            traces_validated_against_impl=stats.get("conform", 0) + stats.get("drift", 0),
            simulation_states_generated=sgen, behaviours_generated=behaviours, distinct_programs=len(programs),
            agent_runs=stats.get("cases", 0), stimuli_replayed=stats.get("steps", 0), events_compared=stats.get("events", 0),
            model_drift=stats.get("drift", 0),
            resume_stop_behaviours=stats.get("rs_behaviours", 0), resume_stop_runs=stats.get("rs_runs", 0),
            resume_stop_handler_then_stop=stats.get("rs_A", 0), resume_stop_stop_alone=stats.get("rs_B", 0),
            resume_stop_rejected=stats.get("rs_rejected", 0),
            rejected_runs_not_reported=stats.get("further_rejected_runs_not_reported", 0),
            action_coverage={a: {"distinct": d, "taken": t} for a, (d, t) in sorted(cov.items())},
            actions_never_taken=never, exhaustive=True,
            rule="a case = (program: body of every reached lifecycle slot, initial map, stimulus sequence, schedule); TLC "
                 "enumerates all of them for the small pools and samples the 20-shape pool; each is run on a real AgentModel and "
                 "the per-stimulus event lists and the agent's fate are compared for equality with Handlers.tla",
            checker_cmd="tlc MC_Handlers (INVARIANTS %s) exhaustive x%d + -simulate num=%d; h_runtime handlers" % (
                " ".join(INVS[:-1]), len(EXH_QUICK if tier == "quick" else EXH_THOROUGH), n))
    out.assumptions += [
        "stimuli are delivered one at a time (the harness waits for quiescence under a paused clock), except commands batched "
        "into one lane; the order in which the agent's unbiased select! serves *simultaneously* ready inputs is not constrained",
        "handler programs are acyclic (a lifecycle handler only modifies lanes of a higher level), as in the statement",
        "what the agent does after a handler failed (end / carry on) is not part of the property; the model follows the code "
        "(a failure inside a lane command is swallowed as 'frame rejected') and a difference there is MODEL-DRIFT only"]
    if never:
        out.notes.append("actions never taken: %s" % never)


def replay_resume_stop(path, case, wd):
    n = 3 * RS_REPEAT          # the select of the event loop is random: repeat
    send = [dict(rs_send(case), id="%s.r%d" % (case["id"], i)) for i in range(n)]
    res = rp.run_cases("h_runtime", "handlers", send, wd, tag="replay", input_keys=None, strip=False)
    pre = {"prog": case["cfg"]["prog"], "m0": case["cfg"]["m0"], "acts": case["acts"][:-1]}
    print(json.dumps(compact(pre), indent=1)[:6000])
    last = case["acts"][-1]
    print("schedule:", {k: case["cfg"][k] for k in ("buf", "drain", "batch")})
    print("then stimulus resume_stop %d: suspended future %d completes and all lane inputs end at the same time\n"
          "  allowed A (completed handler, then on_stop): %s -> %s\n  allowed B (on_stop alone, future dropped):   %s -> %s" % (
              last["x"], last["x"], json.dumps(last["alts"]["A"]), last["fin"], json.dumps(last["alts"]["B"]), last["fin"]))
    count, rejected = {}, []
    for r in res:
        v, detail = rs_verdict(case, r)
        o = (r.get("obs") or [{}])[-1]
        k = (str(v), json.dumps(o.get("ev")), o.get("fin"), detail)
        count[k] = count.get(k, 0) + 1
        if v is None:
            rejected.append(r)
    for (v, ev, fin, detail), c in sorted(count.items()):
        print("%s observed %2d x %s -> %s   [%s]%s" % ("!!" if v == "None" else "  ", c, ev, fin,
                                                      "REJECTED" if v == "None" else v, (" " + detail) if detail else ""))
    if rejected and rejected[0].get("panic"):
        print("panic:", rejected[0]["panic"])
    if not rejected:
        print("every one of %d runs is one of the two allowed alternatives" % n)
        return 0
    print("VIOLATION property=%s replay=%s" % (PROP, path))
    return 1


def replay(path, out):
    wd = core.workdir(PROP + "_replay")
    obj = json.load(open(path))["replay"]
    case = obj["case"]
    core.build_harness("h_runtime", "handlers")
    if obj.get("family") == "resume_stop":
        return replay_resume_stop(path, case, wd)
    send = [{"id": case["id"], "cfg": case["cfg"], "acts": [rp.inputs(a, INPUT_KEYS) for a in case["acts"]]}]
    res = rp.run_cases("h_runtime", "handlers", send, wd, tag="replay", input_keys=None, strip=False)[0]
    print(json.dumps(compact({"prog": case["cfg"]["prog"], "m0": case["cfg"]["m0"], "acts": case["acts"]}), indent=1)[:6000])
    print("schedule:", {k: case["cfg"][k] for k in ("buf", "drain", "batch")})
    for a, o in zip(case["acts"], res.get("obs", [])):
        mark = "  " if rp.project(a, INPUT_KEYS) == o else "!!"
        print("%s stimulus %s\n     expected %s -> %s\n     observed %s -> %s" % (
            mark, [a["k"], a["l"], a["x"], a["y"]], json.dumps(a["ev"]), a["fin"], json.dumps(o.get("ev")), o.get("fin")))
    d = rp.first_diff(case["acts"], res.get("obs", []), INPUT_KEYS)
    if res.get("panic"):
        print("panic:", res["panic"])
    if d is None and not res.get("panic"):
        print("conforms to Handlers.tla")
        return 0
    v = p_validate(case, res)
    print("first divergence at stimulus %s; failure-policy verdict: %s" % (d, json.dumps(v)))
    if v.get("accepted"):
        return 0
    print("VIOLATION property=%s replay=%s" % (PROP, path))
    return 1

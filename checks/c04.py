"""C04 - every uplink follows the WARP link state machine; no fabricated frames.

B2 (configuration E): TLC-generated environment scripts (AgentEnv.tla) incl. unknown lanes, remotes that
stop reading / disappear, agent stop; the recorded frames are validated against Trace_LinkProtocol.tla.
"""
import json, os
from vlib import core
from checks import e2e, k_writetask

CONSTS = {"Lanes": set(e2e.AGENT_LANES), "SyncLanes": set(e2e.SYNC_LANES), "Remotes": {1, 2, 3}}


def profiles(tier):
    q = tier == "quick"
    return [
        dict(n=70 if q else 800, maxlen=18, nremotes=2, caps=(16, 64, 4096), vlanes=["val", "val2"], mlanes=["map"], slanes=["sup"],
             usecmd=True, faults=("drop", "dropread", "unknown")),
        dict(n=50 if q else 800, maxlen=26, nremotes=3, caps=(16, 48), vlanes=["val"], mlanes=["map", "omap"], slanes=["sup"],
             usecmd=True, faults=("unknown", "badcmd")),
        dict(n=30 if q else 400, maxlen=16, nremotes=2, caps=(32, 4096), vlanes=["val", "tval"], mlanes=["tmap"], slanes=[],
             usecmd=False, faults=("drop", "unknown", "restart")),
    ]


def agent_loop_b3(out, wd):
    """AgentLoop.tla: the agent task's dirty-item / writer hand-back mechanism never silences a lane (B3), with
    the defect F11 as negative control (the invariant must fail for the unrepaired mechanism)."""
    res = {}
    for keep in (True, False):
        c = core.cfg(spec="Spec", constants={"Items": {"a", "b"}, "MaxData": 4, "KeepWriterOnNoData": keep},
                     invariants=["NoWriterLost", "PendingIsDirty"], properties=["EverythingWritten"])
        r = core.run_tlc("AgentLoop", c, os.path.join(wd, "agentloop_%s" % keep), workers=2, timeout=600)
        res[keep] = r
    if not res[True].ok:
        raise core.ToolError("AgentLoop.tla (repaired mechanism) violates %s" % res[True].violated)
    if res[False].ok:
        raise core.ToolError("AgentLoop.tla negative control (F11) was not detected - the invariant is vacuous")
    out.add(states=res[True].distinct, transitions=res[True].generated)
    core.log("[C04] AgentLoop.tla: %d states, NoWriterLost / PendingIsDirty / EverythingWritten hold; F11 negative control refuted (%s)" % (
        res[True].distinct, res[False].violated))


def prune_profile(tier, out, wd):
    """remotes without links are pruned after prune_remote_delay (explicit clock advances): the link state machine
    must hold across the pruning (no frames after the remote was dropped, nothing fabricated for late responses)"""
    q = tier == "quick"
    scripts, r = e2e.gen_scripts(wd, seed=core.seed() + 99, tag="envP", n=50 if q else 600, maxlen=22, nremotes=3, caps=(64, 4096),
                                 vlanes=["val"], mlanes=["map"], slanes=["sup"], usecmd=True, faults=("unknown",), advances=(200, 400, 700))
    cases, results = e2e.run_scripts(wd, scripts, {"store": False, "prune_ms": 600, "drain_after_advance": True}, tag="runP")
    acc, rej, nev = e2e.validate_cases(out, "C04", "Trace_LinkProtocol", cases, results, e2e.proj_link, CONSTS, wd,
                                       "link protocol (remote pruning)", tag="tvP")
    pruned = sum(1 for r_ in results for e in r_["log"] if e["e"] == "closed" and e.get("reason") == "RemoteTimedOut")
    core.log("[C04] remote pruning: %d scripts, %d projected events, %d remotes pruned, accepted=%d rejected=%d" % (len(cases), nev, pruned, acc, rej))
    out.add(states=r.generated, transitions=r.generated, remotes_pruned=pruned)
    return acc, nev


def stop_under_load(tier, out, wd):
    """the agent is stopped while writes to slow remotes are in flight (their channels are full, they only start
    reading again during the shutdown): every open link must still be closed with an unlinked frame, nothing may be
    truncated.  The generated scripts all quiesce before they stop, so this situation needs directed scripts."""
    scripts = []
    lanes = [("val", "set"), ("map", "upd"), ("sup", "sup")]
    for cap in (16, 64, 256):
        for n in ((6, 30) if tier == "quick" else (6, 30, 120)):
            for which in ((0,), (1,), (0, 1), (0, 2), (0, 1, 2)):
                acts = [{"k": "attach", "r": 1, "cap": cap}, {"k": "attach", "r": 2, "cap": 4096}]
                for li in which:
                    acts.append({"k": "send", "r": 1, "lane": lanes[li][0], "op": "link" if li != 1 else "sync"})
                acts.append({"k": "send", "r": 2, "lane": "val", "op": "link"})
                acts.append({"k": "read", "r": 1, "n": len(which)})
                v = 1
                for i in range(n):
                    prog = []
                    for li in which:
                        if lanes[li][1] == "set":
                            prog.append({"i": "set", "lane": "val", "v": v})
                        elif lanes[li][1] == "upd":
                            prog.append({"i": "upd", "lane": "map", "key": 1 + i % 3, "v": v})
                        else:
                            prog.append({"i": "sup", "v": v})
                        v += 1
                    acts.append({"k": "send", "r": 2, "lane": "cmd", "op": "cmd", "m": "prog", "prog": prog[:3], "tag": v, "nosettle": i % 4 != 3})
                    v += 1
                acts.append({"k": "read", "r": 2, "n": 0})
                scripts.append(acts)
    cases, results = e2e.run_scripts(wd, scripts, {"store": False}, tag="runS", final=("stop",))
    acc, rej, nev = e2e.validate_cases(out, "C04", "Trace_LinkProtocol", cases, results, e2e.proj_link, CONSTS, wd,
                                       "link protocol (stop under load)", tag="tvS")
    core.log("[C04] stop under load: %d scripts, %d projected events, accepted=%d rejected=%d" % (len(cases), nev, acc, rej))
    return acc, nev


def prefix_lanes(tier, out, wd):
    """one remote uses two lanes of which one's name is a prefix of the other's (val / val2), alternating between them in
    both orders with every kind of frame (linked, event, synced, unlinked, lane-not-found for `va`): every frame must
    carry the lane that produced it."""
    scripts = []
    v = [700]

    def nxt():
        v[0] += 1
        return v[0]
    for a, b in (("val2", "val"), ("val", "val2")):
        for first in ("link", "sync"):
            for second in ("link", "sync"):
                for cap in (4096, 24):
                    acts = [{"k": "attach", "r": 1, "cap": cap}, {"k": "attach", "r": 2, "cap": 4096},
                            {"k": "send", "r": 1, "lane": a, "op": first}, {"k": "send", "r": 1, "lane": b, "op": second}]
                    for i in range(3):
                        acts.append({"k": "send", "r": 2, "lane": a, "op": "cmd", "m": "set", "v": nxt()})
                        acts.append({"k": "send", "r": 2, "lane": b, "op": "cmd", "m": "set", "v": nxt()})
                    acts += [{"k": "send", "r": 1, "lane": "va", "op": "link"},
                             {"k": "send", "r": 1, "lane": a, "op": "unlink"}, {"k": "send", "r": 1, "lane": b, "op": "sync"},
                             {"k": "send", "r": 2, "lane": a, "op": "cmd", "m": "set", "v": nxt()},
                             {"k": "send", "r": 2, "lane": b, "op": "cmd", "m": "set", "v": nxt()},
                             {"k": "send", "r": 1, "lane": b, "op": "unlink"}, {"k": "send", "r": 1, "lane": a, "op": "link"},
                             {"k": "read", "r": 1, "n": 0}]
                    scripts.append(acts)
    cases, results = e2e.run_scripts(wd, scripts, {"store": False}, tag="runX")
    acc, rej, nev = e2e.validate_cases(out, "C04", "Trace_LinkProtocol", cases, results, e2e.proj_link, CONSTS, wd,
                                       "link protocol (lane names that are prefixes of each other)", tag="tvX")
    core.log("[C04] prefix lane names: %d scripts, %d projected events, accepted=%d rejected=%d" % (len(cases), nev, acc, rej))
    return acc, nev


def run(tier, out):
    wd = core.workdir("C04")
    agent_loop_b3(out, wd)
    core.build_harness("h_runtime", "e2e")
    tot_cases = tot_events = 0
    for pi, p in enumerate(profiles(tier)):
        scripts, r = e2e.gen_scripts(wd, seed=core.seed() + 10 * pi, tag="env%d" % pi, **p)
        cases, results = e2e.run_scripts(wd, scripts, {"store": "restart" in p["faults"]}, tag="run%d" % pi)
        acc, rej, nev = e2e.validate_cases(out, "C04", "Trace_LinkProtocol", cases, results, e2e.proj_link, CONSTS, wd,
                                           "link protocol (profile %d)" % pi, tag="tv%d" % pi)
        core.log("[C04] profile %d: %d scripts, %d projected events, accepted=%d rejected=%d" % (pi, len(cases), nev, acc, rej))
        tot_cases += acc
        tot_events += nev
        out.add(states=r.generated, transitions=r.generated)
        if pi == 0 and cases:
            out.sample({"script": cases[0]["acts"][:10], "frames": [e for e in results[0]["log"] if e["e"] == "frame"][:12]})
    a, n = prune_profile(tier, out, wd)
    tot_cases += a
    tot_events += n
    a, n = stop_under_load(tier, out, wd)
    tot_cases += a
    tot_events += n
    a, n = prefix_lanes(tier, out, wd)
    tot_cases += a
    tot_events += n
    # demand, demand-map and HTTP lanes (Trace_Demand, Trace_Http; the link protocol applies to every lane kind)
    from checks import e_lanes2
    e_lanes2.run_e(tier, out, os.path.join(wd, "lanes2"), prop="C04")
    k_writetask.run_k(tier, out, os.path.join(wd, "k"), prop="C04", only=None)
    out.add(traces_validated_against_impl=tot_cases, trace_events_validated=tot_events,
            rule="scripts are behaviours of AgentEnv.tla (TLC simulation, seeded); every recorded execution of the real agent+runtime is validated against Trace_LinkProtocol.tla",
            checker_cmd="tlc -simulate AgentEnv; h_runtime/e2e; tlc Trace_LinkProtocol (POSTCONDITION TraceAccepted)")
    out.assumptions += ["single-threaded paused tokio runtime: the log order is the causal order"]


def replay(path, out):
    obj = json.load(open(path))["replay"]
    if obj.get("component") == "e_lanes2":
        from checks import e_lanes2
        return e_lanes2.replay(path, out)
    if str(obj.get("component", "")).startswith("WriteTask"):
        from checks import k_writetask
        return k_writetask.replay(path, out)
    wd = core.workdir("C04_replay")
    case = obj["case"]
    cases, results = e2e.run_scripts(wd, [case["acts"]], case.get("cfg", {}), tag="replay", final=(), vary=False)
    ev = e2e.proj_link(results[0]["log"])
    res = e2e.validate("Trace_LinkProtocol", ev, os.path.join(wd, "tv"), CONSTS)
    print(json.dumps(res))
    if not res["accepted"]:
        print("rejected at", ev[res["matched"]] if res["matched"] < len(ev) else None)
        print("VIOLATION property=C04 replay=%s" % path)
        return 1
    return 0

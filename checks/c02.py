"""C02 - map lanes: every subscriber's replica converges to the lane's map.

B2 (configuration E): TLC-generated environment scripts (AgentEnv.tla) with map commands from several remotes, agent-side
updates, take/drop, slow and disappearing remotes, HashMap and BTreeMap backings; the recorded log is validated
against Trace_MapReplica.tla (P).
B1/B3 (configuration K): MapQueue.tla model-checked and replayed on both real queue types (checks/k_mapqueue.py).
"""
import json, os
from vlib import core
from checks import e2e

ENABLED = {f["id"] for f in core.known_findings() if f["status"] == "open" and ("C03" in f["property"].split(",") or "C02" in f["property"].split(","))} | {"_none_"}

MLANES = ["map", "omap", "tmap"]
CONSTS = {"MLanes": set(MLANES), "Remotes": {1, 2, 3}, "Keys": {1, 2, 3}, "EnabledFindings": ENABLED}


def profiles(tier):
    q = tier == "quick"
    return [
        dict(n=60 if q else 800, maxlen=20, nremotes=2, caps=(24, 64, 4096), vlanes=[], mlanes=["map", "omap"], usecmd=True, keys=(1, 2, 3), faults=("drop",)),
        dict(n=50 if q else 800, maxlen=28, nremotes=3, caps=(24, 48), vlanes=[], mlanes=["map"], usecmd=False, keys=(1, 2), faults=()),
        dict(n=60 if q else 1000, maxlen=24, nremotes=2, caps=(24, 4096), vlanes=[], mlanes=["map"], usecmd=True, keys=(1, 2, 3), faults=(), burst=True),
        dict(n=30 if q else 400, maxlen=22, nremotes=2, caps=(32, 4096), vlanes=["val"], mlanes=["omap", "tmap"], usecmd=True, keys=(1, 2, 3), faults=("dropread", "badcmd")),
        # transform_entry / replace_map, instructions run from timers / suspended futures
        dict(n=50 if q else 600, maxlen=22, nremotes=2, caps=(24, 4096), vlanes=[], mlanes=["map", "omap"], usecmd=True, keys=(1, 2, 3), faults=("rich",), advances=(25, 60), burst=True),
    ]


def project(log):
    return e2e.proj_map(log, MLANES)


def run(tier, out):
    wd = core.workdir("C02")
    core.build_harness("h_runtime", "e2e")
    tot_cases = tot_events = 0
    for pi, p in enumerate(profiles(tier)):
        scripts, r = e2e.gen_scripts(wd, seed=core.seed() + 20 * pi, tag="env%d" % pi, **p)
        cases, results = e2e.run_scripts(wd, scripts, {"store": True}, tag="run%d" % pi)
        acc, rej, nev = e2e.validate_cases(out, "C02", "Trace_MapReplica", cases, results, project, CONSTS, wd,
                                           "map replica (profile %d)" % pi, tag="tv%d" % pi)
        core.log("[C02] profile %d: %d scripts, %d projected events, accepted=%d rejected=%d" % (pi, len(cases), nev, acc, rej))
        tot_cases += acc
        tot_events += nev
        out.add(states=r.generated, transitions=r.generated)
        if pi == 0 and cases:
            out.sample({"script": cases[0]["acts"][:10], "projected": project(results[0]["log"])[:14]})
    try:
        from checks import k_mapqueue
        k_mapqueue.run_k(tier, out, os.path.join(wd, "k"))
        from checks import k_lanes
        k_lanes.run_k(tier, out, os.path.join(wd, "klanes"), prop="C02")
    except ImportError:
        out.notes.append("component-level MapQueue check not present")
    out.add(traces_validated_against_impl=tot_cases, trace_events_validated=tot_events,
            rule="scripts are behaviours of AgentEnv.tla (TLC simulation, seeded); every recorded execution of the real agent+runtime is validated against Trace_MapReplica.tla",
            checker_cmd="tlc -simulate AgentEnv; h_runtime/e2e; tlc Trace_MapReplica (POSTCONDITION TraceAccepted)")
    out.assumptions += ["single-threaded paused tokio runtime: the log order is the causal order",
                        "lane operations are logged inside the on_update/on_remove/on_clear callbacks"]


def replay(path, out):
    obj = json.load(open(path))["replay"]
    if obj.get("component") == "lanes":
        from checks import k_lanes
        return k_lanes.replay(path, out)
    if str(obj.get("component", "")).startswith("WriteTask"):
        from checks import k_writetask
        return k_writetask.replay(path, out)
    if obj.get("component") != "e2e":
        from checks import k_mapqueue
        return k_mapqueue.replay(path, out)
    wd = core.workdir("C02_replay")
    case = obj["case"]
    cases, results = e2e.run_scripts(wd, [case["acts"]], case.get("cfg", {}), tag="replay", final=(), vary=False)
    ev = project(results[0]["log"])
    res = e2e.validate("Trace_MapReplica", ev, os.path.join(wd, "tv"), CONSTS)
    print(json.dumps(res))
    if not res["accepted"]:
        print("rejected at", ev[res["matched"]] if res["matched"] < len(ev) else None)
        print("VIOLATION property=C02 replay=%s" % path)
        return 1
    return 0

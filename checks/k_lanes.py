"""Configuration K (component level) for C01 / C02 / C03 / C14: the agent-side lane objects of swimos_agent
(ValueLane, CommandLane, SupplyLane, DemandLane, MapLane) and what they write into their output buffer.

specs/Lanes.tla        M: one model per lane kind, one action per call the agent task makes on a lane (commands through
                       AgentSpec::on_value_command / on_map_command, handler actions of HandlerContext, the lanes' public
                       methods, on_sync, write_event = LaneItem::write_to_buffer); lastAct carries the frames, the
                       WriteResult, the Modification flag and the lane's content M expects back
specs/LanesP.tla       P: the property as pure operators (decodable frames; C01 in-order subsequence / never stale;
                       C02 per-key order, clear never overtaken, convergence, take / drop; C14 exactly once in order;
                       C03 sync shape, admissible sync events, admissible window replica at synced; W: the WriteResult
                       laws the agent loop relies on), used by M's ghost and by the trace specification alike
specs/Trace_Lanes.tla  P as a trace specification over the calls made on a real lane and the frames decoded from its buffer

B3  TLC checks M |= P (PAccepts, OnlyListedDeviations) and the M-only invariants (TypeOK, SyncIdxOk, EventQueueOk,
    SnapshotsOk, DemandComputedOk, ResultExact as an action property) exhaustively per lane kind, for every reachable state
    in which no observer lags more than MaxLag lane writes behind; a negative control with P's deviation for the open
    known finding F12 switched off must produce a counterexample (F12 is visible at lane level); TLC -simulate runs over
    larger scopes check the same invariants on long random behaviours.
B1  the complete state graph of every kind is dumped (Ghost = FALSE: finite); a transition cover, seeded random walks, every
    call sequence over a reduced alphabet up to a fixed depth, and the simulated behaviours are replayed on the real lanes
    of a derived agent (harness h_runtime/lanes).  Abstract values / keys / remote ids are concretised from boundary pools
    (i32 extremes, text keys that need quoting, u128 extremes), HashMap and BTreeMap backings.  Every call's complete result
    (frames typed and raw, WriteResult, Modification flag, the lane's content) is compared with M.
B2  every execution that differs from M, all executions whose order M does not predict (HashMap iteration order), and a
    sample of the conforming ones are validated by TLC against Trace_Lanes (P).  P rejects => VIOLATION (property id by
    clause: C03 for sync clauses, else C01 value-like / C02 map / C14 supply, command); differs from M but P accepts =>
    MODEL-DRIFT note; P accepts by a listed deviation => KNOWN-FINDING if that finding is open, VIOLATION otherwise.
"""
import json, os, random, threading, time
from vlib import core
from vlib import replay as rp

MEMBER, COMPONENT = "h_runtime", "lanes"
M_INVS = ["TypeOK", "SyncIdxOk", "EventQueueOk", "SnapshotsOk", "DemandComputedOk"]
P_INVS = ["PAccepts", "OnlyListedDeviations"]
KINDS_OF = {"C01": ["value", "command", "demand"], "C02": ["map"], "C14": ["supply", "command"],
            "C03": ["value", "map", "supply", "demand"], None: ["value", "command", "supply", "demand", "map"]}
LANES_OF = {"value": ["v"], "command": ["c"], "supply": ["s"], "demand": ["d"], "map": ["om", "sm", "m"]}
UNORDERED = {"m"}          # HashMap backing: the order of a sync snapshot is not predicted by M
INPUTS = {"k", "via", "v", "id", "key", "to", "n", "what"}

# ----------------------------------------------------------------------------- pools
VAL_POOL = [1, -1, 7, 42, 2147483647, -2147483648, 100000, -99999, 10, 333]
KEY_POOL_INT = [-2147483648, -7, -1, 0, 3, 10, 200, 2147483647]
KEY_POOL_TEXT = ["", "10", "9", "B", "a", "a b", "\u00e9"]
ID_POOL = ["1", "2", "0", "18446744073709551616", "340282366920938463463374607431768211455", "85883", "4294967296"]
assert KEY_POOL_TEXT == sorted(KEY_POOL_TEXT, key=lambda s: s.encode()) and KEY_POOL_INT == sorted(KEY_POOL_INT)
# bodies that are not a Recon value of the lane's type (i32 values, i32 or text keys)
# (checked against the real decoders while the check was written; "1 2" is NOT in the pool: the real command decoder
# reads it as 1 - a question about Recon decoding, not about lanes)
BAD_VALUES = ["{", "abc", "", "@x", "{1,2}", "2147483648", "1.5"]
BAD_KEYS = {"int": ["{", "abc", "", "@k{1}"], "text": ["{", "@k{1}", "{a,b}", ""]}
UNKNOWN = 99              # abstract number of a concrete value / key outside the binding of the case


def prop_of(kind, why, default):
    """the property a rejection belongs to (stand-alone runs print it in the VIOLATION line)"""
    if "sync" in (why or ""):
        return "C03"
    return {"value": "C01", "demand": "C01", "map": "C02", "supply": "C14", "command": "C14"}.get(kind, default or "C01")


class Binding:
    """abstract values / keys / remote ids of Lanes.tla <-> the concrete ones of one case"""

    def __init__(self, lane, nv, nk, remotes, rng, desc=None):
        self.lane = lane
        if desc is None:
            vs = rng.sample(VAL_POOL, nv)
            pool = KEY_POOL_TEXT if lane == "sm" else KEY_POOL_INT
            ks = [pool[i] for i in sorted(rng.sample(range(len(pool)), nk))]
            ids = rng.sample(ID_POOL, len(remotes))
            desc = {"vals": {"0": 0, **{str(i + 1): v for i, v in enumerate(vs)}},
                    "keys": {str(i + 1): k for i, k in enumerate(ks)},
                    "ids": {r: i for r, i in zip(sorted(remotes), ids)}}
        self.desc = desc
        self.vals = {int(a): c for a, c in desc["vals"].items()}
        self.keys = {int(a): c for a, c in desc["keys"].items()}
        self.ids = dict(desc["ids"])
        self.nk = len(self.keys)
        self.aval = {c: a for a, c in self.vals.items()}
        self.akey = {core.canon(c): a for a, c in self.keys.items()}
        self.aid = {c: a for a, c in self.ids.items()}

    def concretise(self, a):
        if a["k"] == "badcmd":
            return self.bad_command(a)
        c = {"k": a["k"]}
        if "via" in a:
            c["via"] = a["via"]
        if "v" in a:
            c["v"] = self.vals[a["v"]]
        if "id" in a:
            c["id"] = self.ids[a["id"]]
        if "key" in a:
            c["key"] = self.keys[a["key"]]
        if "to" in a:
            c["to"] = self.vals[a["to"]] if a["to"] else None
        if "n" in a:
            c["n"] = a["n"]
        return c

    def bad_command(self, a):
        """an undecodable command; the choice of the body is a function of the case's binding (deterministic)"""
        h = sum(abs(v) for v in self.vals.values()) + len(self.keys)
        if self.lane in ("v", "c"):
            return {"k": "badcmd", "body": BAD_VALUES[h % len(BAD_VALUES)]}
        bk = BAD_KEYS["text" if self.lane == "sm" else "int"]
        good_key = recon_text(self.keys[1])
        if a["what"] == "key":
            return {"k": "badcmd", "kt": bk[h % len(bk)], "vt": "1"}
        if a["what"] == "remkey":
            return {"k": "badcmd", "kt": bk[h % len(bk)], "vt": None}
        return {"k": "badcmd", "kt": good_key, "vt": BAD_VALUES[h % len(BAD_VALUES)]}

    def av(self, c):
        return self.aval.get(c, UNKNOWN)

    def ak(self, c):
        return self.akey.get(core.canon(c), UNKNOWN)

    def ai(self, c):
        return self.aid.get(c, "?")

    def frame(self, f):
        t = f.get("t")
        if t not in ("event", "sync", "synced"):
            return {"t": "bad", "id": "", "op": "", "k": 0, "v": 0}
        o = {"t": t, "id": self.ai(f["id"]) if "id" in f else "", "op": f.get("op", ""), "k": 0, "v": 0}
        if "key" in f:
            o["k"] = self.ak(f["key"])
        if "v" in f:
            o["v"] = self.av(f["v"])
        return o

    def cur(self, kind, c):
        if kind == "map":
            m = [0] * self.nk
            for kj, vj in c:
                a = self.ak(kj)
                if a == UNKNOWN:
                    return None
                m[a - 1] = self.av(vj)
            return m
        return self.av(c)


def recon_text(key):
    """the Recon text of a key of the pools (integers print as they are, text keys quoted)"""
    return str(key) if isinstance(key, int) else json.dumps(key, ensure_ascii=False)


def expected_obs(kind, a):
    """what M says the call returns (everything in lastAct that is not an input)"""
    e = {k: v for k, v in a.items() if k not in INPUTS and k != "out"}
    if a.get("via") in ("replace", "direct"):
        e.pop("mod", None)          # a direct method call: there is no handler to report a modification
    if "frames" in e:
        e["frames"] = [dict(f) for f in e["frames"]]
    if "cur" in e:
        e["cur"] = list(e["cur"]) if isinstance(e["cur"], list) else e["cur"]
    return e


def abstract_obs(b, kind, a, o):
    """what the real lane returned, in M's vocabulary ('bad' marks what cannot be expressed)"""
    if o is None:
        return {"bad": "no observation"}
    if "panic" in o:
        return {"bad": "panic in the code under test: %s" % o["panic"]}
    if a["k"] == "badcmd":
        e = {"fail": "fail" in o}
        if "cur" in o:
            e["cur"] = b.cur(kind, o["cur"])
        return e
    if "fail" in o:
        return {"bad": "the lane's handler failed: %s" % o["fail"]}
    e = {}
    if "mod" in o:
        e["mod"] = o["mod"]
        if o.get("other"):
            e["bad"] = "the handler reported another item as modified"
    if a["k"] == "write":
        e["res"] = o.get("res")
        e["frames"] = [b.frame(f) for f in o.get("frames", [])]
        if o.get("err"):
            e["frames"].append({"t": "bad", "id": "", "op": "", "k": 0, "v": 0})
            e["bad"] = o["err"]
    if "cur" in o:
        e["cur"] = b.cur(kind, o["cur"])
        if e["cur"] is None:
            e["bad"] = "the lane holds a key outside the case: %s" % json.dumps(o["cur"])[:200]
    return e


def diverges(case, result):
    """first call at which the real lane and M differ (None = conforms), with both sides"""
    if result.get("panic") is not None:
        return (0, None, {"panic": result["panic"]})
    obs, b, kind = result.get("obs", []), case["_b"], case["kind"]
    for i, a in enumerate(case["acts"]):
        o = obs[i] if i < len(obs) else None
        e, x = expected_obs(kind, a), abstract_obs(b, kind, a, o)
        if e != x:
            return (i, e, x)
    return None


# ----------------------------------------------------------------------------- P traces

def to_trace(case, result):
    """Trace_Lanes events of one recorded execution: the inputs of the calls and what the real lane returned
    (never M's expectations)."""
    b, kind = case["_b"], case["kind"]
    ev = [{"k": "reset", "kind": kind, "nk": max(b.nk, 1), "ids": sorted(b.ids), "case": case["id"]}]
    if result.get("panic") is not None:
        ev.append({"k": "bad", "what": "panic: %s" % str(result["panic"])[:300]})
        return ev
    obs = result.get("obs", [])
    for i, a in enumerate(case["acts"]):
        if i >= len(obs):
            ev.append({"k": "bad", "what": "no observation for call %d" % i})
            break
        o, k = obs[i], a["k"]
        if k == "badcmd" and "fail" in o:
            e = {"k": "nop"}          # rejected before it reached the lane: the lane must hold what it held
            c = b.cur(kind, o["cur"]) if "cur" in o else None
            if c is not None:
                e["cur"] = c
            ev.append(e)
            continue
        if "panic" in o or "fail" in o or k == "badcmd":
            ev.append({"k": "bad", "what": ("call %d: " % i) + str(o.get("panic", o.get("fail", "an undecodable command was accepted")))[:300]})
            break
        if o.get("other"):
            ev.append({"k": "bad", "what": "call %d reported another item as modified" % i})
            break
        mod = bool(o.get("mod", True))       # direct method calls have no handler: not applicable
        e = None
        if k in ("set", "command"):
            e = {"k": "set", "v": a["v"], "mod": mod}
        elif k in ("push", "cue"):
            e = {"k": k, "v": a["v"], "mod": mod}
        elif k == "dsync":
            e = {"k": k, "id": a["id"], "v": a["v"], "mod": mod}
        elif k == "sync":
            e = {"k": k, "id": a["id"], "mod": mod}
        elif k == "upd":
            e = {"k": k, "key": a["key"], "v": a["v"], "mod": mod}
        elif k == "rem":
            e = {"k": k, "key": a["key"], "mod": mod}
        elif k == "clr":
            e = {"k": k, "mod": mod}
        elif k == "tr":     # transform_entry(key, _ => to): an update, or a removal when `to` is None
            e = {"k": "upd", "key": a["key"], "v": a["to"], "mod": mod} if a["to"] else {"k": "rem", "key": a["key"], "mod": mod}
        elif k in ("take", "drop"):
            e = {"k": k, "n": a["n"], "mod": mod}
        elif k == "write":
            fr = [b.frame(f) for f in o.get("frames", [])]
            if o.get("err"):
                fr.append({"t": "bad", "id": "", "op": "", "k": 0, "v": 0})
            e = {"k": k, "res": o.get("res", "?"), "frames": fr}
        else:
            e = {"k": "bad", "what": "unknown call %s" % k}
        if "cur" in o and e["k"] != "bad":
            c = b.cur(kind, o["cur"])
            if c is None:
                ev.append(e)
                ev.append({"k": "bad", "what": "the lane holds a key outside the case: %s" % json.dumps(o["cur"])[:200]})
                break
            e["cur"] = c
        ev.append(e)
    return ev


def p_batch(traces, wd, tag, enabled, max_reject=12):
    """Validate many recorded executions with one TLC run (reset events separate them).  traces: [(key, events)].
    Returns ({key: rejection}, {key: set(finding ids)}, events validated, TLC runs, keys left unjudged)."""
    rejected, kf, total, runs = {}, {}, 0, 0
    rest = list(traces)
    consts = {"EnabledFindings": set(enabled)}
    while rest and len(rejected) < max_reject:
        events, starts = [], []
        for key, ev in rest:
            starts.append((len(events), key))
            events += ev
        r = core.trace_validate("Trace_Lanes", events, os.path.join(wd, "%s_%d" % (tag, runs)), constants=consts, timeout=1500)
        runs += 1
        if str(r.get("status", "")).startswith("invariant"):
            raise core.ToolError("trace spec failure: %s" % r)
        by_id = {str(ev[0]["case"]): key for key, ev in rest}
        for x in r.get("kf", []) or []:
            if x["case"] in by_id:
                kf.setdefault(by_id[x["case"]], set()).add(x["id"])
        if r["accepted"]:
            total += len(events)
            return rejected, kf, total, runs, set()
        m = r["matched"]                  # events[m] is the first one P does not accept
        total += m
        idx = max(i for i, (s, _) in enumerate(starts) if s <= m)
        rejected[starts[idx][1]] = {"at": m - starts[idx][0], "event": events[m] if m < len(events) else None, "why": r.get("why", "")}
        rest = rest[idx + 1:]
    return rejected, kf, total, runs, {key for key, _ in rest}


# ----------------------------------------------------------------------------- TLC jobs

def consts(kind, nv=2, nk=1, remotes=("r1",), msq=2, mf=3, mms=1, vias=("cmd", "h", "replace", "direct"), ghost=False, f12=True, lag=3):
    return dict(Kind=kind, NV=nv, NK=nk, Remotes=set(remotes), MaxSyncQ=msq, MaxFifo=mf, MaxMapSync=mms, Vias=set(vias), Ghost=ghost,
                AllowF12=f12, MaxLag=lag)


def kname(k):
    s = "%s nv=%d" % (k["Kind"], k["NV"])
    if k["Kind"] == "map":
        s += " nk=%d" % k["NK"]
    s += " remotes=%d" % len(k["Remotes"])
    if k["Ghost"]:
        s += " lag<=%d" % k["MaxLag"]
    return s


def plan(tier, kinds):
    q = tier == "quick"
    one = ("cmd",)
    graphs = {
        "value": [consts("value", remotes=("r1", "r2"))] + ([] if q else [consts("value", nv=3, remotes=("r1", "r2", "r3"), msq=3)]),
        "command": [consts("command")],
        "supply": [consts("supply", remotes=("r1",))] + ([] if q else [consts("supply", remotes=("r1", "r2"), mf=4, msq=3)]),
        "demand": [consts("demand", remotes=("r1", "r2"))],
        "map": [consts("map", nk=2, remotes=("r1",))] + ([] if q else [consts("map", nk=2, nv=1, remotes=("r1", "r2"))]),
    }
    b3 = {
        "value": [consts("value", remotes=("r1", "r2"), ghost=True, lag=3, vias=one)] +
                 ([] if q else [consts("value", nv=3, remotes=("r1", "r2"), msq=3, ghost=True, lag=4, vias=one)]),
        "command": [consts("command", ghost=True, lag=4 if q else 6, vias=one)],
        "supply": [consts("supply", remotes=("r1", "r2"), mf=4, ghost=True, lag=4, vias=one)],
        "demand": [consts("demand", remotes=("r1", "r2"), ghost=True, lag=3, vias=one)],
        "map": [consts("map", nk=1, remotes=("r1", "r2"), ghost=True, lag=3, vias=one),
                consts("map", nk=2, remotes=("r1",), ghost=True, lag=2, vias=one)] +
               ([] if q else [consts("map", nk=2, remotes=("r1", "r2"), ghost=True, lag=2, vias=one),
                              consts("map", nk=2, remotes=("r1",), ghost=True, lag=3, vias=one),
                              consts("map", nk=3, nv=1, remotes=("r1",), ghost=True, lag=3, vias=one)]),
    }
    neg = {"map": [consts("map", nk=1, remotes=("r1",), ghost=True, lag=2, vias=one, f12=False)]}
    sims = {
        "value": [(consts("value", nv=3, remotes=("r1", "r2", "r3"), msq=4, ghost=True), 80 if q else 400, 40)],
        "supply": [(consts("supply", nv=3, remotes=("r1", "r2"), msq=3, mf=6, ghost=True), 60 if q else 300, 40)],
        "demand": [(consts("demand", nv=3, remotes=("r1", "r2", "r3"), msq=3, ghost=True), 60 if q else 300, 40)],
        "map": [(consts("map", nk=3, nv=2, remotes=("r1", "r2"), ghost=True), 200 if q else 1200, 50),
                (consts("map", nk=2, nv=3, remotes=("r1", "r2", "r3"), mms=2, ghost=True), 100 if q else 600, 60)],
    }
    sel = lambda d: {k: v for k, v in d.items() if k in kinds}
    return dict(graphs=sel(graphs), b3=sel(b3), neg=sel(neg), sims=sel(sims),
                walks=(400, 40) if q else (3000, 60), extend=3 if q else 6,
                cover_limit={"map": 2500 if q else None},
                deep={"value": 7 if q else 8, "command": 7 if q else 9, "supply": 7 if q else 9, "demand": 7 if q else 8, "map": 6 if q else 7},
                p_sample=10 if q else 5, p_cap=400 if q else 4000)


class Jobs:
    """run several TLC invocations concurrently without ever using more than 4 workers"""

    def __init__(self, budget=4):
        self.cv = threading.Condition()
        self.free = budget
        self.threads, self.results, self.errors = [], {}, []

    def submit(self, name, workers, fn):
        def body():
            with self.cv:
                while self.free < workers:
                    self.cv.wait()
                self.free -= workers
            try:
                self.results[name] = fn()
            except Exception as ex:            # re-raised in wait()
                self.errors.append(ex)
            finally:
                with self.cv:
                    self.free += workers
                    self.cv.notify_all()
        t = threading.Thread(target=body)
        t.start()
        self.threads.append(t)

    def wait(self):
        for t in self.threads:
            t.join()
        if self.errors:
            raise self.errors[0]
        return self.results


def tlc_graph(k, wd):
    c = core.cfg(constants=k, invariants=M_INVS + ["InitDump"], view="View", action_constraints=["EdgeDump"],
                 properties=["ResultExactAct"])
    r = core.run_tlc("MC_Lanes", c, wd, workers=1, timeout=1500)
    if not r.ok:
        raise core.ToolError("Lanes.tla: M-only invariant %s fails in TLC for %s:\n%s" % (r.violated, kname(k), r.counterexample[:3000]))
    return r


def tlc_b3(k, wd, workers):
    c = core.cfg(constants=k, invariants=M_INVS + P_INVS, properties=["ResultExactAct"], constraints=["LagBound"], view="ViewG")
    return core.run_tlc("MC_Lanes", c, wd, workers=workers, timeout=3000)


def tlc_sim(k, num, depth, wd):
    kk = dict(k)
    kk["PathLen"] = depth
    c = core.cfg(init="SimInit", next_="SimNext", constants=kk, invariants=M_INVS + P_INVS + ["PathDump"])
    return core.run_tlc("Sim_Lanes", c, wd, workers=1, timeout=1500, simulate="num=%d" % num,
                        extra=["-depth", str(2 * depth + 3), "-seed", str(core.seed())], coverage=False)


def class_walks(g, n, depth, rng):
    """random walks that first pick the class of the next call (write / sync / anything else) and then a call of that
    class: a uniform choice among the out-edges would almost never drain a lane (many ways of writing to it, one of
    asking it to write)"""
    out = []
    for _ in range(n):
        cur = g.inits[rng.randrange(len(g.inits))]
        acts = []
        for _ in range(depth):
            nxt = g.succ.get(cur)
            if not nxt:
                break
            groups = {}
            for a, t in nxt:
                groups.setdefault("w" if a["k"] == "write" else "s" if a["k"] in ("sync", "dsync") else "m", []).append((a, t))
            grp = groups[sorted(groups)[rng.randrange(len(groups))]]
            a, cur = grp[rng.randrange(len(grp))]
            acts.append(a)
        out.append(acts)
    return out


# ----------------------------------------------------------------------------- alphabets for the exhaustive short sequences

def deep_keep(kind):
    if kind == "value":
        return lambda a: (a["k"] == "set" and (a["via"], a["v"]) in (("cmd", 1), ("h", 2))) or \
                         (a["k"] == "sync" and a["id"] == "r1") or a["k"] == "write"
    if kind == "command":
        return lambda a: (a["k"] == "command" and (a["via"], a["v"]) in (("cmd", 1), ("h", 2))) or a["k"] == "write"
    if kind == "supply":
        return lambda a: (a["k"] == "push" and a["v"] == 1) or (a["k"] == "sync" and a["id"] == "r1") or a["k"] == "write"
    if kind == "demand":
        return lambda a: (a["k"] == "cue" and a["v"] == 1) or (a["k"] == "dsync" and a["id"] == "r1" and a["v"] == 2) or a["k"] == "write"
    return lambda a: (a["k"] == "upd" and (a["via"], a["key"], a["v"]) in (("cmd", 1, 1), ("h", 2, 1))) or \
                     (a["k"] == "rem" and (a["via"], a["key"]) == ("cmd", 1)) or (a["k"] == "clr" and a["via"] == "cmd") or \
                     (a["k"] == "sync" and a["id"] == "r1") or a["k"] == "write"


# ----------------------------------------------------------------------------- replay + verdicts

def make_case(cid, kind, lane, k, acts, rng):
    b = Binding(lane, k["NV"], k["NK"] if kind == "map" else 0, sorted(k["Remotes"]), rng)
    return {"id": cid, "kind": kind, "cfg": {"lane": lane}, "acts": acts, "_b": b}


def wire(case):
    return {"id": case["id"], "cfg": case["cfg"], "acts": [case["_b"].concretise(a) for a in case["acts"]]}


def public_case(case):
    return {"id": case["id"], "kind": case["kind"], "cfg": case["cfg"], "acts": case["acts"], "binding": case["_b"].desc,
            "concrete": wire(case)["acts"]}


def interesting(case):
    """conforming executions that are always shown to P: a map lane cleared and synced (the shape of F12)"""
    ks = {a["k"] for a in case["acts"]}
    return case["kind"] == "map" and "sync" in ks and "clr" in ks


class Verdicts:
    def __init__(self, out, prop, enabled):
        self.out, self.prop, self.enabled = out, prop, enabled
        self.stats = dict(replayed_calls=0, conform=0, drift=0, order_free=0, rejected=0, unjudged=0, p_traces=0, p_events=0,
                          p_runs=0, known=0)

    def judge(self, what, cases, results, wd, tag, p_sample, p_cap):
        st, out = self.stats, self.out
        to_p, div = [], {}
        budget = p_cap
        for i, (c, r) in enumerate(zip(cases, results)):
            st["replayed_calls"] += len(c["acts"])
            d = diverges(c, r)
            if d is None:
                st["conform"] += 1
                if budget > 0 and (i % p_sample == 0 or interesting(c)):
                    to_p.append((i, to_trace(c, r)))
                    budget -= 1
            else:
                div[i] = d
                to_p.append((i, to_trace(c, r)))
        rejected, kf, nev, runs, unjudged = p_batch(to_p, wd, tag, self.enabled)
        st["unjudged"] += len(unjudged)
        st["p_events"] += nev
        st["p_runs"] += runs
        st["p_traces"] += len(to_p)
        for i, d in div.items():
            if i in rejected or i in unjudged:
                continue
            if cases[i]["cfg"]["lane"] in UNORDERED:
                st["order_free"] += 1        # HashMap iteration order: M does not predict it, P has accepted it
                continue
            st["drift"] += 1
            if st["drift"] <= 3:
                out.notes.append("MODEL-DRIFT %s: case %s call %s expected %s observed %s (P accepts)" % (
                    what, cases[i]["id"], d[0], json.dumps(d[1]), json.dumps(d[2])[:300]))
        for i, ids in kf.items():
            for fid in ids:
                self.deviation(fid, what, cases[i], results[i])
        for i, rej in rejected.items():
            st["rejected"] += 1
            d = div.get(i)
            c = cases[i]
            msg = "%s: case %s (lane %s): P (Trace_Lanes) rejects the recorded execution at its event %s %s: %s; %s" % (
                what, c["id"], c["cfg"]["lane"], rej["at"], json.dumps(rej["event"])[:300], rej["why"],
                ("first difference from M at call %s: expected %s, the real lane gave %s" % (d[0], json.dumps(d[1]), json.dumps(d[2])[:400]))
                if d else "(the execution conforms to M: M and P disagree)")
            self.report(prop_of(c["kind"], rej["why"], self.prop), msg,
                        {"component": "lanes", "what": what, "case": public_case(c), "observed": results[i], "why": rej["why"]})

    def deviation(self, fid, what, case, result):
        """P accepted an execution only through the deviation of a listed finding: the finding was observed on the real code"""
        hit = [f for f in core.known_findings() if f["id"] == fid and f["status"] == "open"]
        self.stats["known"] += 1
        if hit:
            p = "C03" if "C03" in hit[0]["property"].split(",") else hit[0]["property"].split(",")[0]
            self.known(p, "%s (observed at lane level, e.g. case %s on lane %s) %s" % (fid, case["id"], case["cfg"]["lane"], hit[0]["what"][:300]), fid)
        else:
            self.report("C03", "%s: case %s is accepted by P only through the deviation %s, which is not an open known finding" % (
                what, case["id"], fid), {"component": "lanes", "what": what, "case": public_case(case), "observed": result, "why": fid})

    def known(self, prop, text, fid):
        kl = self.out.__dict__.setdefault("_kl_known", {})
        if fid not in kl:
            kl[fid] = (prop, text)
            if self.prop is not None:            # called from a property's own check: that check's id
                self.out.known_finding(text)

    def report(self, prop, msg, replay_obj):
        out = self.out
        for f in core.open_findings(prop):
            sig = f.get("signature")
            if isinstance(sig, dict) and sig.get("component") == "lanes" and sig.get("match") and sig["match"] in msg:
                self.known(prop, f["what"], f["id"])
                return
        if self.prop is not None:
            out.violation(msg, replay_obj)
            return
        saved = out.prop                         # stand-alone run: file the replay under the property of the failing clause
        out.prop = prop
        try:
            path = out.violation(msg, replay_obj)
        finally:
            out.prop = saved
        out.__dict__.setdefault("_kl_props", {})[path] = prop


def run_k(tier, out, wd, prop="C01"):
    """prop: the property whose check calls this ("C01", "C02", "C03", "C14": only the lane kinds it is about, verdict lines
    under that id) or None (./check KLANES: every kind, verdict lines under the id of the failing clause)."""
    os.makedirs(wd, exist_ok=True)
    t_start = time.time()
    rng = random.Random(core.seed())
    core.build_harness(MEMBER, COMPONENT)
    kinds = KINDS_OF.get(prop, KINDS_OF[None])
    pl = plan(tier, kinds)
    enabled = {f["id"] for f in core.known_findings() if f["status"] == "open" and f["id"] in ("F12",)}
    jobs = Jobs(4)
    for kind, ks in pl["graphs"].items():
        for gi, k in enumerate(ks):
            jobs.submit(("g", kind, gi), 1, lambda k=k, kind=kind, gi=gi: tlc_graph(k, os.path.join(wd, "g_%s%d" % (kind, gi))))
    for kind, ks in pl["sims"].items():
        for si, (k, num, depth) in enumerate(ks):
            jobs.submit(("s", kind, si), 1, lambda k=k, num=num, depth=depth, kind=kind, si=si: tlc_sim(k, num, depth, os.path.join(wd, "s_%s%d" % (kind, si))))
    for kind, ks in pl["b3"].items():
        for bi, k in enumerate(ks):
            jobs.submit(("b", kind, bi), 2, lambda k=k, kind=kind, bi=bi: tlc_b3(k, os.path.join(wd, "b_%s%d" % (kind, bi)), 2))
    for kind, ks in pl["neg"].items():
        for ni, k in enumerate(ks):
            jobs.submit(("n", kind, ni), 1, lambda k=k, kind=kind, ni=ni: tlc_b3(k, os.path.join(wd, "n_%s%d" % (kind, ni)), 1))
    res = jobs.wait()
    core.log("[K-lanes] TLC jobs done after %.1fs" % (time.time() - t_start))

    tot = dict(states=0, transitions=0)
    cov = {}

    def add_cov(r):
        for a, (d, t) in r.coverage.items():
            if a in ("EdgeDump", "LagBound", "Init"):
                continue
            o = cov.get(a, (0, 0))
            cov[a] = (o[0] + d, o[1] + t)

    # ---- B3
    b3_report = []
    for kind, ks in pl["b3"].items():
        for bi, k in enumerate(ks):
            r = res[("b", kind, bi)]
            add_cov(r)
            tot["states"] += r.distinct
            tot["transitions"] += r.generated
            b3_report.append({"config": kname(k), "distinct_states": r.distinct, "transitions": r.generated, "depth": r.depth,
                              "wall_s": round(r.wall, 1), "result": r.status})
            core.log("[K-lanes] B3 %s: %d states, %d transitions, depth %d, %.1fs: %s" % (kname(k), r.distinct, r.generated, r.depth, r.wall, r.status))
            if not r.ok:
                raise core.ToolError("TLC: Lanes.tla violates %s for %s - model and property disagree:\n%s" % (
                    r.violated, kname(k), r.counterexample[:4000]))
    neg_report = []
    for kind, ks in pl["neg"].items():
        for ni, k in enumerate(ks):
            r = res[("n", kind, ni)]
            neg_report.append({"config": kname(k) + " AllowF12=FALSE", "result": r.status, "violated": r.violated, "distinct_states": r.distinct})
            core.log("[K-lanes] negative control %s without the F12 deviation: %s %s" % (kname(k), r.status, r.violated))
            if r.ok or r.violated != "PAccepts":
                out.notes.append("negative control: with the F12 deviation switched off TLC found no PAccepts counterexample in M "
                                 "(%s): M no longer shows F12" % kname(k))

    v = Verdicts(out, prop, enabled)
    sampled = set()
    # ---- B1 on the dumped graphs
    for kind, ks in pl["graphs"].items():
        for gi, k in enumerate(ks):
            r = res[("g", kind, gi)]
            add_cov(r)
            g = core.Graph(r.tagged["EDGE"], init_views=r.tagged["INIT"])
            tot["states"] += r.distinct
            tot["transitions"] += g.n_edges
            paths = g.covering_paths(extend=pl["extend"], rng=rng, limit=pl["cover_limit"].get(kind))
            ncover = len(paths)
            nw, dw = pl["walks"]
            paths += g.random_walks(nw // 2, dw, rng) + class_walks(g, nw - nw // 2, dw, rng)
            nwalk = len(paths) - ncover
            if gi == 0:
                paths += g.all_paths(pl["deep"][kind], keep=deep_keep(kind))
            lanes = LANES_OF[kind]
            cases = [make_case("%s%d.%d" % (kind, gi, i), kind, lanes[i % len(lanes)], k, p_, rng) for i, p_ in enumerate(paths)]
            results = rp.run_cases(MEMBER, COMPONENT, [wire(c) for c in cases], wd, tag="g_%s%d" % (kind, gi), strip=False)
            before = dict(v.stats)
            v.judge("Lanes[%s]" % kname(k), cases, results, wd, "pg_%s%d" % (kind, gi), pl["p_sample"], pl["p_cap"])
            d = {a: v.stats[a] - before[a] for a in v.stats}
            core.log("[K-lanes] B1 %s: %d states %d edges; %d paths (cover %d, walks %d, exhaustive depth-%d %d; %d calls): "
                     "conform=%d order-free=%d drift=%d rejected=%d" % (
                         kname(k), r.distinct, g.n_edges, len(cases), ncover, nwalk, pl["deep"][kind], len(paths) - ncover - nwalk,
                         d["replayed_calls"], d["conform"], d["order_free"], d["drift"], d["rejected"]))
            if kind not in sampled and cases:
                sampled.add(kind)
                j = next((x for x in range(ncover // 2, len(cases)) if sum(a["k"] == "write" for a in cases[x]["acts"][:8]) >= 2), ncover // 2)
                out.sample({"component": "Lanes[%s] lane %s" % (kname(k), cases[j]["cfg"]["lane"]), "binding": cases[j]["_b"].desc,
                            "calls_with_expected_results": cases[j]["acts"][:8], "concrete_calls": wire(cases[j])["acts"][:8],
                            "real_results": results[j].get("obs", [])[:8]}, cap=8)

    # ---- B1 / B3 on simulated behaviours
    for kind, ks in pl["sims"].items():
        for si, (k, num, depth) in enumerate(ks):
            r = res[("s", kind, si)]
            if not r.ok:
                raise core.ToolError("TLC -simulate: Lanes.tla violates %s for %s:\n%s" % (r.violated, kname(k), r.counterexample[:4000]))
            trails = r.tagged.get("REPLAY", [])
            tot["transitions"] += sum(len(t) for t in trails)
            lanes = LANES_OF[kind]
            cases = [make_case("sim_%s%d.%d" % (kind, si, i), kind, lanes[i % len(lanes)], k, list(t), rng) for i, t in enumerate(trails)]
            results = rp.run_cases(MEMBER, COMPONENT, [wire(c) for c in cases], wd, tag="s_%s%d" % (kind, si), strip=False)
            before = dict(v.stats)
            v.judge("Lanes-sim[%s]" % kname(k), cases, results, wd, "ps_%s%d" % (kind, si), max(1, pl["p_sample"] // 3), pl["p_cap"])
            d = {a: v.stats[a] - before[a] for a in v.stats}
            core.log("[K-lanes] SIM %s: %d behaviours x %d calls (invariants incl. P held on all): conform=%d order-free=%d drift=%d rejected=%d" % (
                kname(k), len(trails), depth, d["conform"], d["order_free"], d["drift"], d["rejected"]))

    if prop is None:
        probe_demand_map(out, wd)
    st = v.stats
    unvisited = sorted(a for a, (d, t) in cov.items() if t == 0)
    out.add(states=tot["states"], transitions=tot["transitions"],
            traces_validated_against_impl=st["conform"] + st["drift"] + st["order_free"],
            klanes_replayed_calls=st["replayed_calls"], klanes_conform=st["conform"], klanes_model_drift=st["drift"],
            klanes_order_free_accepted_by_P=st["order_free"], klanes_rejected=st["rejected"],
            klanes_unjudged_after_rejections=st["unjudged"], klanes_p_traces_validated=st["p_traces"],
            klanes_p_trace_events_validated=st["p_events"], klanes_known_finding_hits=st["known"])
    out.add(klanes_b3=b3_report, klanes_negative_controls=neg_report,
            klanes_action_coverage={a: {"distinct": d, "taken": t} for a, (d, t) in sorted(cov.items())},
            klanes_actions_never_taken=unvisited,
            klanes_checker_cmd="tlc MC_Lanes (INVARIANTS %s; PROPERTY ResultExactAct; CONSTRAINT LagBound) + tlc -simulate Sim_Lanes + "
                               "h_runtime lanes + tlc Trace_Lanes" % " ".join(M_INVS + P_INVS))
    out.assumptions += [
        "K-lanes: a call on a lane (a handler run to completion, write_to_buffer) is atomic: lanes are owned by the agent task",
        "K-lanes: the demand lane's on_cue computation runs in the same event cycle as the cue / sync that triggered it, before "
        "any write (this is what the agent task does); DemandMapLane, join lanes and HTTP lanes are not modelled",
        "K-lanes: ValueStore.previous (only visible to lifecycle handlers) is not observed"]
    if unvisited:
        out.notes.append("K-lanes: Lanes.tla actions never taken in any TLC run: %s" % unvisited)
    core.log("[K-lanes] done after %.1fs; P validated %d traces / %d events in %d TLC runs" % (
        time.time() - t_start, st["p_traces"], st["p_events"], st["p_runs"]))
    out_stats = dict(st)
    out_stats.update(states=tot["states"], transitions=tot["transitions"], never_taken=unvisited)
    return out_stats


def probe_demand_map(out, wd):
    """Informational (no property of the list is about demand-map lanes, Lanes.tla does not model them): a DemandMapLane
    driven the way the agent task drives it.  If a key returned by `keys` has no value by the time `on_cue_key` runs during
    a sync, write_to_buffer answers NoData although the lane still owes the remote its `synced`; the agent loop neither
    retries nor re-runs the lane's event handler after NoData.  Recorded as a note, never as a verdict."""
    acts = [{"k": "src", "key": 1, "v": 5}, {"k": "src", "key": 2, "v": 6}, {"k": "sync", "id": "7"},
            {"k": "src", "key": 1, "v": None}, {"k": "src", "key": 2, "v": None},
            {"k": "write"}, {"k": "event"}, {"k": "write"}, {"k": "event"}, {"k": "write"}]
    r = rp.run_cases(MEMBER, COMPONENT, [{"id": "dm-probe", "cfg": {"lane": "dm"}, "acts": acts}], wd, tag="dmprobe", strip=False)[0]
    obs = r.get("obs", [])
    writes = [o for a, o in zip(acts, obs) if a["k"] == "write"]
    stalled = any(w.get("res") == "nodata" for w in writes[:-1]) and any(f.get("t") == "synced" for f in writes[-1].get("frames", [])) if writes else False
    if stalled:
        out.notes.append("observation (outside C01-C20, not a verdict): DemandMapLane::write_to_buffer returns NoData while a synced "
                         "is still queued when on_cue_key yields None for a key of the sync snapshot; writes: %s" % json.dumps(
                             [{"res": w.get("res"), "frames": [f.get("t") for f in w.get("frames", [])]} for w in writes]))
    return stalled


# ----------------------------------------------------------------------------- replay of one file

def replay(path, out=None):
    wd = core.workdir("KLANES_replay")
    doc = json.load(open(path))
    obj = doc["replay"]
    prop = doc.get("property", "C01")
    core.build_harness(MEMBER, COMPONENT)
    pc = obj["case"]
    b = Binding(pc["cfg"]["lane"], 0, 0, [], None, desc=pc["binding"])
    case = {"id": pc["id"], "kind": pc["kind"], "cfg": pc["cfg"], "acts": pc["acts"], "_b": b}
    r = rp.run_cases(MEMBER, COMPONENT, [wire(case)], wd, tag="replay", strip=False)[0]
    d = diverges(case, r)
    print("first difference from M:", json.dumps(d))
    ev = to_trace(case, r)
    enabled = {f["id"] for f in core.known_findings() if f["status"] == "open" and f["id"] in ("F12",)}
    rej, kf, n, _, _ = p_batch([(0, ev)], wd, "replay_p", enabled)
    if rej:
        print("P (Trace_Lanes) rejects the execution at event %s: %s (%s)" % (rej[0]["at"], json.dumps(rej[0]["event"]), rej[0]["why"]))
        print("trace:", json.dumps(ev[max(0, rej[0]["at"] - 12): rej[0]["at"] + 1]))
        print("VIOLATION property=%s replay=%s" % (prop, path))
        return 1
    if kf:
        print("P accepts the execution through the deviation(s) %s" % sorted(kf[0]))
        if obj.get("why") in kf[0]:
            print("VIOLATION property=%s replay=%s" % (prop, path))
            return 1
    print("P accepts the execution (%d events)" % n)
    return 0

"""Component check (configuration K) of the one-shot trigger and the promise of swimos_trigger
(/repo/swimos_utilities/swimos_trigger/src/trigger/mod.rs, .../promise/mod.rs) - the stop signal of every agent /
runtime task.  Part of C17 (and what C04's stop rests on); `./check KTRIG` runs it alone (checks/ktrig.py).

B3  TLC model-checks Trigger.tla (M: one action per public call - a poll of any of NR receivers with any of NW wakers,
    Receiver::clone at any point, drop of a receiver, check_state / is_terminated, Sender::trigger / promise provide,
    drop of the sender) against the P invariants (no lost wake-up for EVERY receiver, the slab holds each waiter's latest
    waker, Ok iff triggered, Err iff dropped) and the action property Stable (the flag and every answer given never
    change), and LiveSpec (receivers that poll again only after their waker fired) against AllLearn.
B1  the state graph of M is dumped; a transition cover + seeded random walks are replayed on the real trigger and on the
    real promise (harness trigger; the promise must hand every clone the very Arc that was provided); results and the
    number of times each waker fired are compared with M.
B2  every execution that differs from M, a sample of the conforming ones, and every distinct history of free-running
    threads (`trigger stress`: one sender, up to three receivers, clones made before or after the first poll) are judged by
    TLC against Trace_Trigger.tla (P).  The calls take a mutex and clone / wake wakers under it, so a sender call cannot be
    placed inside a poll by a waker hook (it would self-deadlock): overlap exists at the thread level only.

Alarm rule: equal to M => accepted; different => ask P; P rejects => VIOLATION with a replay file.
Known finding KTRIG-F1 (known_findings/KTRIG.json): while it is open M is checked / replayed with Fix = FALSE (the code as it
is), TLC is expected to refute NoLostWakeup for it (design level) and to prove it for Fix = TRUE (the repair); histories that
need the deviation of Trace_Trigger are reported as KNOWN-FINDING.
"""
import json, os, random, subprocess, time
from vlib import core
from vlib import replay as rp

INPUT_KEYS = {"k", "r", "w", "lost"}
IGNORE_OBS = ()
INVS = ["TypeOK", "ResultSound"]
KF_INVS = ["NoLostWakeup", "SlotHoldsWaiter"]      # what KTRIG-F1 breaks
PROPS = ["Stable"]
LIVE = ["AllLearn"]
KF_ID = "KTRIG-F1"


def finding():
    for f in core.known_findings():
        if f["id"] == KF_ID:
            return f
    return None


def kf_open():
    f = finding()
    return bool(f) and f["status"] == "open"


def configs(tier):
    """(harness kind, constants)"""
    if tier == "quick":
        return [("trigger", dict(NR=3, NW=2, HasCheck=True)), ("promise", dict(NR=3, NW=2, HasCheck=False))]
    return [("trigger", dict(NR=4, NW=2, HasCheck=True)), ("trigger", dict(NR=3, NW=3, HasCheck=True)),
            ("promise", dict(NR=4, NW=2, HasCheck=False)), ("promise", dict(NR=3, NW=3, HasCheck=False))]


# ----------------------------------------------------------------------------- running the harness

HANG_SECS = 10
HANGS = [0]          # calls that did not return, over the whole run: after three the remaining cases of a batch are not run


def run_guarded(cases, wd, tag, args=(), strip=True):
    """like replay.run_cases; a call of the code under test that does not return ends the harness process with status 3 after
    it answered {"hang": true, "panic": ...} for that case: the remaining cases go to a new process."""
    core.build_harness("h_core", "trigger")
    if strip:
        send = [{"id": c["id"], "cfg": c.get("cfg", {}), "acts": [rp.inputs(a, INPUT_KEYS) for a in c["acts"]]} for c in cases]
    else:
        send = cases
    env = core.coverage_env(dict(os.environ), "trigger")
    env.setdefault("RUST_BACKTRACE", "0")
    env["HARNESS_HANG_SECS"] = str(HANG_SECS)
    results = []
    start = 0
    part = 0
    while start < len(send):
        inp = os.path.join(wd, "%s.%d.in.ndjson" % (tag, part))
        outp = os.path.join(wd, "%s.%d.out.ndjson" % (tag, part))
        part += 1
        core.write_ndjson(inp, send[start:])
        try:
            with open(inp) as fin, open(outp, "w") as fout:
                p = subprocess.run([core.harness_bin("trigger")] + list(args), stdin=fin, stdout=fout, stderr=subprocess.PIPE, text=True,
                                   timeout=3600, env=env)
        except subprocess.TimeoutExpired:
            raise core.ToolError("harness trigger %s timed out" % (args,))
        res = core.read_ndjson(outp)
        results += res
        if p.returncode == 0:
            break
        if p.returncode == 3 and res and res[-1].get("hang"):
            HANGS[0] += 1
            start += len(res)
            if HANGS[0] >= 3:
                results += [{"id": c["id"], "skipped": True} for c in send[start:]]
                break
            continue
        raise core.ToolError("harness trigger %s exited %s:\n%s" % (args, p.returncode, p.stderr[-4000:]))
    if len(results) != len(cases):
        raise core.ToolError("harness trigger answered %d of %d cases" % (len(results), len(cases)))
    return results


# ----------------------------------------------------------------------------- histories for P

def to_events(case, result):
    """a replayed case as events of Trace_Trigger.tla"""
    ev = [{"k": "reset", "conc": 0}]
    obs = result.get("obs", [])
    for i, a in enumerate(case["acts"]):
        if i >= len(obs):
            break
        o = obs[i]
        k = a["k"]
        woke = o.get("woke", [])
        if k == "poll":
            ev.append({"k": "inv", "t": "R", "r": a["r"], "w": a["w"]})
            ev.append({"k": "res", "t": "R", "r": a["r"], "res": o["res"], "woke": woke})
        elif k == "clone":
            if o.get("res") != "done":
                ev.append({"k": "corrupt", "what": o.get("res")})
                break
            ev.append({"k": "clone", "r": o.get("id", 0), "from": a["r"]})
        elif k == "dropR":
            ev.append({"k": "dropR", "r": a["r"]})
        elif k == "check":
            ev.append({"k": "check", "r": a["r"], "res": o["res"], "term": bool(o.get("term"))})
        elif k in ("trigger", "dropS"):
            ev.append({"k": "inv", "t": "S", "op": k})
            ev.append({"k": "res", "t": "S", "res": o["res"], "woke": woke})
    if result.get("panic") or len(obs) < len(case["acts"]):
        ev.append({"k": "panic"})
    return ev


def stress_events(events):
    """harness stress events ("t": "S" | "R<j>", "r": result) -> events of Trace_Trigger.tla ("r": receiver, "res": result)"""
    ev = [{"k": "reset", "conc": 1}]
    for e in events:
        e = dict(e)
        if e["k"] in ("inv", "res", "idle"):
            t = e.pop("t")
            if e["k"] == "res":
                e["res"] = e.pop("r")
            if t.startswith("R"):
                e["r"] = int(t[1:])
                t = "R"
            if e["k"] != "idle":
                e["t"] = t
        ev.append(e)
    return ev


class Judge:
    """P = Trace_Trigger, evaluated by TLC.  A batch of histories is judged strictly (no deviation) in one run;
    a history P rejects is judged again alone with the deviations of the open known findings enabled."""

    def __init__(self, wd):
        self.wd = wd
        self.n = 0
        self.events = 0
        self.runs = 0
        self.kf_hits = 0
        self.batch_kf = []
        self.open = {KF_ID} if kf_open() else set()

    def _tlc(self, events, kf):
        self.n += 1
        self.runs += 1
        r = core.trace_validate("Trace_Trigger", events, os.path.join(self.wd, "tv%d" % self.n), constants={"KF": set(kf)})
        self.events += min(r["total"], max(0, r["matched"]) + 1)
        return r

    def one(self, events):
        """-> dict(accepted, kf, at, event)"""
        r = self._tlc(events, set())
        if r["accepted"]:
            return {"accepted": True, "kf": []}
        at = r["matched"]
        if self.open:
            r2 = self._tlc(events, self.open)
            if r2["accepted"]:
                self.kf_hits += 1
                return {"accepted": True, "kf": list(r2.get("kf", [])) or sorted(self.open)}
        return {"accepted": False, "kf": [], "at": at, "event": events[at] if 0 <= at < len(events) else None}

    def batch(self, histories, max_rejects=8, base_kf=frozenset()):
        """histories: list of event lists (each starts with a reset).  -> list of (index, verdict) for every history that is
        not accepted strictly (known finding or rejected); stops looking after max_rejects rejections."""
        out = []
        start = 0
        rejects = 0
        while start < len(histories):
            flat, owner = [], []
            for j in range(start, len(histories)):
                flat += histories[j]
                owner += [j] * len(histories[j])
            r = self._tlc(flat, set(base_kf))
            if r["accepted"]:
                if r.get("kf"):
                    self.batch_kf = list(r["kf"])
                break
            m = min(max(r["matched"], 0), len(owner) - 1)
            j = owner[m]
            at = m - owner.index(j)
            # the batch run was the strict judgement of history j (it is where the furthest path stopped)
            v = {"accepted": False, "kf": [], "at": at, "event": histories[j][at]}
            if self.open and set(base_kf) != set(self.open):
                r2 = self._tlc(histories[j], self.open)
                if r2["accepted"]:
                    self.kf_hits += 1
                    v = {"accepted": True, "kf": list(r2.get("kf", [])) or sorted(self.open)}
            out.append((j, v))
            if not v["accepted"]:
                rejects += 1
                if rejects >= max_rejects:
                    break
            start = j + 1
        return out


def m_level_finding(case, result):
    """the execution equals M and M (Fix = FALSE) leaves a receiver waiting after the event: KTRIG-F1 exactly as documented"""
    return any(a.get("lost", 0) > 0 for a in case["acts"])


# ----------------------------------------------------------------------------- B3

def model_check(k, wd, tag, out, tot, actions_cov):
    is_open = kf_open()
    consts = dict(k, Fix=not is_open)
    invs = INVS + ([] if is_open else KF_INVS)
    # M |= P: full state (no VIEW: the invariants on lastAct are evaluated for every transition)
    r = core.run_tlc("MC_Trigger", core.cfg(constants=consts, invariants=invs, properties=PROPS), os.path.join(wd, tag + "_p"), workers=4)
    if not r.ok:
        raise core.ToolError("M violates P in TLC (%s %s) for %s:\n%s" % (r.status, r.violated, consts, r.counterexample[:3000]))
    tot["states"] += r.distinct
    for a, (d, t) in r.coverage.items():
        o = actions_cov.get(a, (0, 0))
        actions_cov[a] = (o[0] + d, o[1] + t)
    demo = None
    if is_open:
        # design level: TLC refutes NoLostWakeup for the code as it is, and proves it for the repair
        r2 = core.run_tlc("MC_Trigger", core.cfg(constants=consts, invariants=invs + ["NoLostWakeup"]), os.path.join(wd, tag + "_kf"), workers=1)
        if not (r2.status == "invariant" and r2.violated == "NoLostWakeup"):
            raise core.ToolError("%s is listed as open but TLC does not refute NoLostWakeup for Fix = FALSE (%s)" % (KF_ID, r2.status))
        r3 = core.run_tlc("MC_Trigger", core.cfg(constants=dict(k, Fix=True), invariants=INVS + KF_INVS, properties=PROPS),
                          os.path.join(wd, tag + "_fix"), workers=4)
        if not r3.ok:
            raise core.ToolError("M with the repair of %s violates P (%s %s):\n%s" % (KF_ID, r3.status, r3.violated, r3.counterexample[:3000]))
        tot["states"] += r3.distinct
        demo = "NoLostWakeup refuted for Fix=FALSE, NoLostWakeup / SlotHoldsWaiter / AllLearn proved for Fix=TRUE (%d states)" % r3.distinct
    # liveness of the design that keeps the promise (the repair while the finding is open)
    rl = core.run_tlc("MC_Trigger", core.cfg(spec="LiveSpec", constants=dict(k, Fix=True), properties=LIVE), os.path.join(wd, tag + "_live"), workers=1)
    if not rl.ok:
        raise core.ToolError("LiveSpec violates %s for %s:\n%s" % (rl.violated, k, rl.counterexample[:3000]))
    tot["live_states"] += rl.distinct
    # the state graph (VIEW hides lastAct)
    rg = core.run_tlc("MC_Trigger", core.cfg(constants=consts, invariants=["TypeOK", "InitDump"], view="View", action_constraints=["EdgeDump"]),
                      os.path.join(wd, tag + "_g"), workers=1)
    if not rg.ok:
        raise core.ToolError("graph dump failed (%s)" % rg.status)
    g = core.Graph(rg.tagged["EDGE"], init_views=rg.tagged["INIT"])
    tot["transitions"] += g.n_edges
    return g, r.distinct, demo


# ----------------------------------------------------------------------------- stress

def stress_cases(tier, rng):
    n = 3000 if tier == "quick" else 60000
    base = core.seed() * 1000003
    cases = []
    for h in range(n):
        cases.append({"id": h, "cfg": {"kind": rng.choice(["trigger", "trigger", "promise"]), "nrecv": rng.choice([1, 2, 2, 3, 3]),
                                       "mode": rng.choice(["trigger", "trigger", "trigger", "drop", "drop", "keep"]),
                                       "late": rng.random() < 0.3, "seed": base + h, "heavy": rng.choice([1, 1, 4, 16])}})
    return cases


def run_stress(tier, out, wd, rng, judge):
    cases = stress_cases(tier, rng)
    results = run_guarded(cases, wd, "stress", args=("stress",), strip=False)
    distinct = {}
    panics = 0
    for c, r in zip(cases, results):
        if r.get("skipped"):
            continue
        if r.get("panic") is not None and "events" not in r:
            panics += 1
            out.violation("trigger, threads: panic in the code under test: %s (cfg %s)" % (r["panic"], json.dumps(c["cfg"])),
                          {"component": "trigger-stress", "cfg": c["cfg"], "panic": r["panic"]})
            continue
        ev = stress_events(r["events"])
        key = json.dumps(ev, sort_keys=True)
        if key not in distinct:
            distinct[key] = (ev, c["cfg"], 1)
        else:
            e, cf, m = distinct[key]
            distinct[key] = (e, cf, m + 1)
    hs = list(distinct.values())
    overlapping = sum(1 for ev, _, _ in hs if any(ev[j]["k"] == "inv" and ev[j + 1]["k"] == "inv" for j in range(len(ev) - 1)))
    t0 = time.time()
    f = finding()
    # clones made after the original was told to wait: with KTRIG-F1 open most of these need its deviation - they are judged
    # with the deviation enabled from the start (one TLC run); everything else is judged strictly first
    late = [h for h in hs if h[1].get("late") and h[1].get("nrecv", 1) > 1] if judge.open else []
    early = [h for h in hs if not (judge.open and h[1].get("late") and h[1].get("nrecv", 1) > 1)]
    kf_n = 0
    rejected = 0
    for group, base in ((early, set()), (late, judge.open)):
        chunk = 1000
        for s in range(0, len(group), chunk):
            if rejected >= MAX_REJECTS:
                break
            part = group[s:s + chunk]
            judge.batch_kf = []
            for j, v in judge.batch([h[0] for h in part], max_rejects=MAX_REJECTS - rejected, base_kf=base):
                ev, cfg, mult = part[j]
                if v["accepted"]:
                    kf_n += 1
                    out.known_finding(f["what"])
                else:
                    rejected += 1
                    out.violation("trigger, threads (%s, %s receivers, mode %s, clones made %s the first poll): P (Trace_Trigger) rejects the recorded history at event %s: %s" % (
                        cfg["kind"], cfg["nrecv"], cfg["mode"], "after" if cfg["late"] else "before", v["at"], json.dumps(v["event"])),
                        {"component": "trigger-stress", "cfg": cfg, "history": ev, "rejected_at": v["at"]})
            if base and judge.batch_kf:
                kf_n += 1          # at least one history of the chunk needed the deviation
                out.known_finding(f["what"])
    core.log("[KTRIG] stress: %d runs, %d distinct histories (%d with overlapping calls; %d with late clones judged with %s enabled), judged by TLC in %.1fs: "
             "known-finding hits=%d rejected=%d panics=%d" % (len(cases), len(hs), overlapping, len(late), KF_ID, time.time() - t0, kf_n, rejected, panics))
    if hs:
        out.sample({"stress_history": hs[len(hs) // 2][0][1:16], "cfg": hs[len(hs) // 2][1]}, cap=12)
    return dict(stress_runs=len(cases), stress_distinct_histories=len(hs), stress_histories_with_overlapping_calls=overlapping,
                stress_known_finding_hits=kf_n, stress_rejected=rejected)


# ----------------------------------------------------------------------------- B1 / B2: the alarm rule

MAX_REJECTS = 8      # violations reported in detail per run; further divergent executions are counted, not judged


def conformance(out, cases, results, judge, f, what, budget):
    """equal to M => accepted; different => ask P (all divergent executions of a configuration in one TLC run, the ones P
    does not accept strictly once more on their own); P rejects => VIOLATION.  budget[0] = rejections still to be reported."""
    st = dict(steps=0, conform=0, drift=0, known=0, rejected=0, known_m=0, unjudged=0, conf_pairs=[])
    div = []
    is_open = kf_open()
    for c, r in zip(cases, results):
        if r.get("skipped"):
            st["unjudged"] += 1
            continue
        st["steps"] += len(c["acts"])
        if r.get("panic") is not None:
            div.append((c, r, 0))
            continue
        d = rp.first_diff(c["acts"], r.get("obs", []), INPUT_KEYS, IGNORE_OBS)
        if d is None:
            st["conform"] += 1
            if is_open and m_level_finding(c, r):
                st["known_m"] += 1
            else:
                st["conf_pairs"].append((c, r))
        else:
            div.append((c, r, d))
    if st["known_m"] and f:
        out.known_finding(f["what"])
    if not div:
        return st
    if budget[0] <= 0:
        st["unjudged"] = len(div)
        return st
    verdicts = dict(judge.batch([to_events(c, r) for c, r, _ in div], max_rejects=budget[0]))
    stopped = False
    for j, (c, r, d) in enumerate(div):
        if stopped:
            st["unjudged"] += 1
            continue
        v = verdicts.get(j)
        exp = c["acts"][d] if d < len(c["acts"]) else None
        got = r.get("obs", [])[d] if d < len(r.get("obs", [])) else None
        if v is None:
            st["drift"] += 1
            if st["drift"] <= 3:
                out.notes.append("MODEL-DRIFT %s: case %s step %s expected %s observed %s" % (what, c["id"], d, json.dumps(exp), json.dumps(got)))
        elif v["accepted"]:
            st["known"] += 1
            if f:
                out.known_finding(f["what"])
        else:
            st["rejected"] += 1
            budget[0] -= 1
            out.violation("%s: case %s diverges at step %s: expected %s, real code gave %s%s; P (Trace_Trigger) rejects the recorded history at event %s: %s" % (
                what, c["id"], d, json.dumps(exp), json.dumps(got), (" PANIC " + str(r.get("panic"))) if r.get("panic") else "",
                v.get("at"), json.dumps(v.get("event"))), {"component": "trigger", "case": c, "observed": r})
            if budget[0] <= 0:
                stopped = True
    return st


# ----------------------------------------------------------------------------- the check

def run_k(tier, out, wd, prop="C17"):
    rng = random.Random(core.seed() * 7919 + 17)
    os.makedirs(wd, exist_ok=True)
    core.build_harness("h_core", "trigger")
    judge = Judge(wd)
    f = finding()
    tot = dict(states=0, transitions=0, live_states=0)
    actions_cov = {}
    steps = drift = conform = rejected = known_m = cases_n = 0
    sample_hist = []
    demo = None

    budget = [MAX_REJECTS]
    for ci, (kind, k) in enumerate(configs(tier)):
        g, nstates, d = model_check(k, wd, "mc%d" % ci, out, tot, actions_cov)
        demo = demo or d
        paths = g.covering_paths(extend=4 if tier == "quick" else 8, rng=rng)
        paths += g.random_walks(400 if tier == "quick" else 5000, 14 if tier == "quick" else 30, rng)
        cases = []
        for i, p in enumerate(paths):
            cases.append({"id": "%d.%d" % (ci, i), "cfg": {"kind": kind, "nw": k["NW"]}, "acts": p})
        k = dict(k, kind=kind)
        results = run_guarded(cases, wd, "cb%d" % ci)
        st = conformance(out, cases, results, judge, f, "Trigger%s" % json.dumps(k), budget)
        steps += st["steps"]
        drift += st["drift"]
        conform += st["conform"]
        rejected += st["rejected"]
        cases_n += len(cases)
        known_m += st["known_m"]
        conf_pairs = st["conf_pairs"]
        core.log("[KTRIG] cfg %s: %d states %d edges; %d cases (%d calls): conform=%d (of which %d reproduce %s exactly as M says) drift=%d known=%d rejected=%d%s" % (
            k, nstates, g.n_edges, len(cases), st["steps"], st["conform"], st["known_m"], KF_ID, st["drift"], st["known"], st["rejected"],
            (" not judged=%d (stopped after %d rejections)" % (st["unjudged"], MAX_REJECTS)) if st["unjudged"] else ""))
        for c, r in conf_pairs[:: max(1, len(conf_pairs) // (40 if tier == "quick" else 150))]:
            sample_hist.append((c, r, to_events(c, r)))
        if ci == 1:
            out.sample({"cfg": k, "calls_with_expected_results": paths[len(paths) // 2][:8]}, cap=12)
    # P kept alive on conforming executions too (one TLC run; reset events separate the histories)
    bad = judge.batch([h[2] for h in sample_hist])
    for j, v in bad:
        c, r, ev = sample_hist[j]
        if v["accepted"]:
            if f:
                out.known_finding(f["what"])
        else:
            rejected += 1
            out.violation("Trigger: P (Trace_Trigger) rejects a recorded history that conforms to M at event %s: %s" % (v["at"], json.dumps(v["event"])),
                          {"component": "trigger", "case": c, "observed": r})
    sres = run_stress(tier, out, wd, rng, judge)
    unvisited = sorted(a for a, (d_, t) in actions_cov.items() if t == 0)
    # the framework's standard counters (added to those of the check this runs in)
    out.add(states=tot["states"] + tot["live_states"], transitions=tot["transitions"],
            traces_validated_against_impl=cases_n + sres["stress_distinct_histories"])
    out.add(trigger_states=tot["states"], trigger_live_states=tot["live_states"], trigger_transitions=tot["transitions"],
            trigger_cases=cases_n, trigger_replayed_calls=steps, trigger_conform_to_M=conform, trigger_model_drift=drift,
            trigger_rejected_by_P=rejected, trigger_cases_reproducing_known_finding=known_m,
            trigger_p_events_judged=judge.events, trigger_p_tlc_runs=judge.runs,
            trigger_action_coverage={a: {"distinct": d_, "taken": t} for a, (d_, t) in actions_cov.items()},
            trigger_actions_never_taken=unvisited, **{"trigger_" + a: b for a, b in sres.items()})
    if demo:
        out.add(trigger_design_level=demo)
    out.add(trigger_checker_cmd="tlc MC_Trigger (INVARIANTS %s PROPERTY %s; LiveSpec PROPERTY %s) + h_core trigger [stress] + tlc Trace_Trigger" % (
        " ".join(INVS + KF_INVS), " ".join(PROPS), " ".join(LIVE)))
    out.assumptions += [
        "trigger / promise: every call decides under the waiter mutex, so a call is one atomic step at the replay level; overlapping "
        "calls exist at the thread level only (one sender, up to three receiver threads)",
        "trigger / promise: the promise's value is an Arc; value identity = the very allocation provided",
    ]


# ----------------------------------------------------------------------------- replay

def replay(path, out):
    wd = core.workdir("KTRIG_replay")
    obj = json.load(open(path))["replay"]
    judge = Judge(wd)
    if obj.get("component") == "trigger-stress":
        if "history" not in obj:
            print(json.dumps(obj, indent=1)[:4000])
            print("VIOLATION property=%s replay=%s" % (out.prop, path))
            return 1
        # a history of free-running threads cannot be re-executed deterministically: the recorded one is judged again
        v = judge.one(obj["history"])
        print("P verdict on the recorded history:", json.dumps(v))
        core.build_harness("h_core", "trigger")
        cases = [{"id": i, "cfg": dict(obj["cfg"], seed=obj["cfg"].get("seed", 1) + i)} for i in range(2000)]
        results = run_guarded(cases, wd, "stress", args=("stress",), strip=False)
        hs = {}
        for c, r in zip(cases, results):
            if "events" in r:
                ev = stress_events(r["events"])
                hs[json.dumps(ev, sort_keys=True)] = ev
        bad = [x for x in judge.batch(list(hs.values())) if not x[1]["accepted"]]
        print("re-run of the configuration (2000 runs, %d distinct histories): rejected now = %d" % (len(hs), len(bad)))
        if not v["accepted"] or bad:
            print("VIOLATION property=%s replay=%s" % (out.prop, path))
            return 1
        return 0
    case = obj["case"]
    core.build_harness("h_core", "trigger")
    res = run_guarded([case], wd, "replay")[0]
    d = rp.first_diff(case["acts"], res.get("obs", []), INPUT_KEYS, IGNORE_OBS)
    print("first divergence from M at step:", d)
    if d is not None:
        print("  expected:", json.dumps(case["acts"][d]) if d < len(case["acts"]) else None)
        print("  observed:", json.dumps(res.get("obs", [])[d]) if d < len(res.get("obs", [])) else res.get("panic"))
    v = judge.one(to_events(case, res))
    if res.get("panic"):
        v = {"accepted": False, "panic": res["panic"]}
    print("P verdict:", json.dumps(v))
    if not v["accepted"]:
        print("VIOLATION property=%s replay=%s" % (out.prop, path))
        return 1
    return 0

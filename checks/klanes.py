"""./check KLANES - the component-level (configuration K) check of the agent-side lane objects (ValueLane, CommandLane,
SupplyLane, DemandLane, MapLane) on its own.  See checks/k_lanes.py (the checks of C01 / C02 / C03 / C14 may call run_k
from there with their own property id).

Verdict lines carry the id of the property whose clause failed: C01 value(-like) lanes, C02 map lanes, C14 supply and
command lanes, C03 sync clauses.  The evidence of a stand-alone run goes to evidence/KLANES.json."""
import json, os, time
from vlib import core
from checks import k_lanes

LEVEL = "model_checking"


def run(tier, out):
    wd = core.workdir("KLANES")
    k_lanes.run_k(tier, out, wd, prop=None)
    out.add(rule="every transition of the TLC state graphs of Lanes.tla (one per lane kind), seeded random walks, every call "
                 "sequence over a reduced alphabet to a fixed depth and TLC-simulated behaviours, replayed on the real lanes "
                 "of a derived agent; a case is one call sequence with one binding of abstract values / keys / ids")

    def finish():
        props = out.__dict__.get("_kl_props", {})
        known = out.__dict__.get("_kl_known", {})
        os.makedirs(core.EVIDENCE, exist_ok=True)
        ev = {"property_id": "KLANES", "tier": out.tier, "seed": core.seed(), "level": out.level,
              "coverage": out.cov, "assumptions": out.assumptions, "wall_s": round(time.time() - out.t0, 2),
              "violations": len(out.violations)}
        if known:
            ev["coverage"]["known_findings_hit"] = ["property=%s %s" % pt for pt in known.values()]
        if out.notes:
            ev["coverage"]["notes"] = out.notes
        if not ev["coverage"]["samples"]:
            ev["coverage"]["samples"] = ["(none)"]
        with open(os.path.join(core.EVIDENCE, "KLANES.json"), "w") as fh:
            json.dump(ev, fh, indent=1, sort_keys=True)
        for p, text in known.values():
            core.log("KNOWN-FINDING: property=%s %s" % (p, text))
        for what, path in out.violations[:20]:
            core.log("VIOLATION property=%s replay=%s" % (props.get(path, "C01"), path))
            core.log("   " + what[:600])
        if out.violations:
            return 1
        core.log("OK property=KLANES tier=%s wall=%.1fs" % (out.tier, time.time() - out.t0))
        return 0
    out.finish = finish


def replay(path, out):
    return k_lanes.replay(path, out)

"""C20 - introspection reports the true number of links and counts every message.

Specifications
  specs/Links.tla     M = the link registry (links.rs: forward / backwards / total_count, the reporter stored
                      inside the forward entry) + its call sites in the write task (mod.rs), P = the abstract
                      set `linked`; level K = the methods called directly, level W = the write task.
  specs/Counters.tla  the reporters' atomics at the granularity of single loads / CASes.
  specs/Trace_Links.tla  P alone, as a trace specification (snapshots at arbitrary points).

B3  TLC checks M |= P (action property PStep + invariants) exhaustively for small scopes, for the variant of M
    that matches the code (probed) with the open findings' excuses, without them (a counterexample is expected
    for every open finding), and for the repaired variant without excuses; Counters |= NothingLost (+ the
    load-then-store design, which must fail).
B1  the complete state graphs (K and W, 2 lanes x 2 remotes) are dumped; a transition cover + random walks,
    TLC-simulated behaviours of the 3 x 3 scope, and variants of all of these with snapshots taken at random
    points only, are replayed on the real `Links` / `WriteTaskHarness` + `UplinkReportReader`; every output
    (TriggerUnlink results, registry queries, frames received by the remotes, attached set, disconnection
    reasons, all snapshots) is compared with M.
B2  every execution that differs from M, every execution in which M itself needs a finding's excuse, and a
    sample of the others are validated by TLC against Trace_Links.tla (P): rejection = VIOLATION, acceptance
    through a deviation rule of an open finding = KNOWN-FINDING.
    Level R: scripts derived from TLC's write-task behaviours (and two that spell out the findings' signatures)
    are run against the WHOLE agent runtime (AgentRouteTask::run_agent with real NodeReporting, a fake agent that
    only owns the lane channels, remotes speaking the envelope protocol, paused clock, sleep(1ns) as quiescence
    barrier); what the introspection readers report is validated against Trace_Links.tla (P) only.
+   counters on real threads (sum of snapshots + residue = sum of increments; longer in thorough).
"""
import json, os, random, time, concurrent.futures as cf
from vlib import core
from vlib import replay as rp

PROP = "C20"
INPUT_KEYS = {"k", "l", "r", "t", "sn", "kf"}
STATE_INVS = ["TypeOK", "Coherent", "RegistryIsLinkedPlusPhantoms"]
ALL_F = ("F3a", "F3b", "F3d", "F3e", "F3f")
G_INPUT = {"k", "a", "u", "nest"}
I_INVS = ["TypeOK", "Conservation", "LanesKnown", "PulsesTrue", "NodeIsSumOfLanes", "LaneMetaAvailable"]
I_INPUT = {"k", "l", "r", "m"}
RATE_MUL = 2            # pulse interval of the harness: 500 ms


def fset(fs):
    return core.Raw("{" + ", ".join('"%s"' % f for f in sorted(fs)) + "}")


# ----------------------------------------------------------------------------- probing the code

PROBES = [
    {"id": "pa", "cfg": {"level": "K", "nl": 1, "nr": 1, "agg": True},
     "acts": [{"k": "reg", "l": 1}, {"k": "ins", "l": 1, "r": 1}, {"k": "remr", "r": 1}]},
    {"id": "pb", "cfg": {"level": "W", "nl": 1, "nr": 1},
     "acts": [{"k": "lane", "l": 1}, {"k": "ev", "l": 1, "t": 1}]},
]


def probe(wd):
    """Which variant of M describes the tree under test?  (Only selects the model; verdicts come from P.)"""
    res = rp.run_cases("h_runtime", "links", PROBES, wd, tag="probe", input_keys=None, strip=False)
    for r in res:
        if r.get("panic"):
            raise core.ToolError("probe panicked: %s" % r["panic"])
    a = res[0]["obs"][-1]["s"][0]
    keep = a[0] == 1
    b = res[1]["obs"][-1]
    if b["lk"][0] & 1:
        guard = "none"
    elif b["s"][-1][2] >= 1:
        guard = "insert"
    else:
        guard = "all"
    return {"KeepEntry": keep, "Guard": guard}


# ----------------------------------------------------------------------------- TLC jobs

def consts(level, nl, nr, variant, excuse, agg=True):
    return dict(NL=nl, NR=nr, Level=level, AggPresent=agg, Counting=agg, KeepEntry=variant["KeepEntry"],
                Guard=variant["Guard"], Excuse=fset(excuse))


def job_check(wd, tag, k, dump=False, workers=1, strict_props=False, coverage=True, timeout=3000):
    invs = list(STATE_INVS) + (["InitDump"] if dump else []) + (["NoPhantoms", "NoLostReporter"] if strict_props else [])
    c = core.cfg(constants=k, invariants=invs, properties=["PStep"], view="View",
                 action_constraints=["EdgeDump"] if dump else ())
    r = core.run_tlc("MC_Links" if dump else "Links", c, os.path.join(wd, tag), workers=workers, coverage=coverage,
                     timeout=timeout)
    return r


def job_sim(wd, tag, k, num, depth, seed):
    kk = dict(k, PathLen=depth)
    c = core.cfg(init="SimInit", next_="SimNext", constants=kk, invariants=STATE_INVS + ["PathDump"],
                 properties=["SimPStep"], constraints=["SimBound"])
    return core.run_tlc("Sim_Links", c, os.path.join(wd, tag), workers=1, simulate="num=%d" % num, coverage=False,
                        extra=["-depth", str(depth + 1), "-seed", str(seed)], timeout=3000)


def job_counters(wd, tag, k, spec=None, props=(), workers=1):
    R = core.Raw
    kk = dict(k)
    names = set()
    for key in ("Incs", "Snaps"):
        names |= set(kk[key])
        kk[key] = R("{" + ", ".join(sorted(kk[key])) + "}")
    kk["Amounts"] = R("{" + ", ".join(str(x) for x in sorted(kk["Amounts"])) + "}")
    for n in sorted(names):
        kk[n] = R(n)
    c = core.cfg(spec=spec, constants=kk, invariants=["TypeOK", "NothingLost", "FinalSum"], properties=props)
    return core.run_tlc("Counters", c, os.path.join(wd, tag), workers=workers, timeout=3000)


# ----------------------------------------------------------------------------- cases

def all_mask(nl):
    return (1 << (nl + 1)) - 1


def sparse_variant(acts, nl, rng, with_agg=True):
    """The same calls, but each reader is only snapshotted at random points: what M expects is the fold of
    its per-step expectation (link count = latest, events / commands = sum since the reader's last snapshot;
    a fresh reporter (reg / lane) starts from zero; a dead reader reports nothing and loses what was pending)."""
    out = []
    acc = [[0, 0] for _ in range(nl + 1)]
    for a in acts:
        a2 = dict(a)
        full = a["s"]
        if a["k"] in ("reg", "lane"):
            acc[a["l"] - 1] = [0, 0]
        p = rng.random()
        if p < 0.25:
            sn = all_mask(nl)
        elif p < 0.5:
            sn = 0
        else:
            sn = rng.randrange(1 << (nl + 1))
        s = []
        for x in range(nl + 1):
            st, n, e, c = full[x]
            if st == 1:
                acc[x][0] += e
                acc[x][1] += c
            if sn & (1 << x):
                if st == 1:
                    s.append([1, n, acc[x][0], acc[x][1]])
                else:
                    s.append([st, 0, 0, 0])
                if st != 0:
                    acc[x] = [0, 0]
        a2["sn"] = sn
        a2["s"] = s
        out.append(a2)
    return out


def norm_step(k, d):
    """frames of one step: the order in which unlink_all walks its HashMaps is not part of M"""
    if k == "stop" and "rx" in d:
        d = dict(d)
        d["rx"] = [sorted(x) for x in d["rx"]]
    return d


def to_trace(case, result):
    cfg = case["cfg"]
    lv = "W" if cfg["level"] == "R" else cfg["level"]      # the whole runtime is judged by the write-task rules of P
    ev = [{"k": "reset", "lv": lv, "nl": cfg["nl"], "nr": cfg["nr"], "agg": 1 if cfg.get("agg", True) else 0}]
    obs = result.get("obs", [])
    for i, a in enumerate(case["acts"]):
        if i >= len(obs):
            break
        e = {k: a[k] for k in ("k", "l", "r", "t", "sn") if k in a}
        if obs[i].get("skipped"):
            e["k"] = "nop"          # the remote could not send the request (it is not attached)
        e["s"] = obs[i].get("s", [])
        if lv == "W":
            e["att"] = obs[i].get("att", 0)
        ev.append(e)
    return ev


# two scripts that spell the findings' signatures out at level R (remote ids / lanes as in known_findings/C20.json)
R_SIGNATURES = [
    [{"k": "att", "r": 1}, {"k": "link", "l": 1, "r": 1}, {"k": "cmd", "l": 1, "r": 1}, {"k": "ev", "l": 1, "t": 0},
     {"k": "close", "r": 1}, {"k": "ev", "l": 1, "t": 0}, {"k": "att", "r": 2}, {"k": "link", "l": 1, "r": 2},
     {"k": "ev", "l": 1, "t": 0}, {"k": "unlink", "l": 1, "r": 2}],
    [{"k": "att", "r": 1}, {"k": "sync", "l": 2, "r": 1}, {"k": "close", "r": 1}, {"k": "unk", "r": 1},
     {"k": "ev", "l": 2, "t": 1}, {"k": "ev", "l": 2, "t": 0}, {"k": "tick"}, {"k": "att", "r": 2}, {"k": "tick"}],
]


def r_script(path, nl, nr, rng):
    """A script for the whole runtime from a behaviour of M at level W: the same environment actions, sent as
    real envelopes / lane responses (lane failures cannot be provoked from outside and are left out; a prune
    becomes the passing of the prune delay; a command needs a sender)."""
    acts = [{"k": "lane", "l": l} for l in range(1, nl + 1)]
    att = 0
    for a in path:
        k = a["k"]
        if k in ("lane", "fail"):
            pass
        elif k == "prune":
            acts.append({"k": "tick"})
        elif k == "cmd" and "r" in a:
            acts.append(dict(a))
        elif k == "cmd":
            rs = [r for r in range(1, nr + 1) if att & (1 << (r - 1))]
            if rs:
                acts.append({"k": "cmd", "l": a["l"], "r": rng.choice(rs)})
        elif k == "stop":
            acts.append({"k": "stop", "sn": 0})
            break
        else:
            b = {x: a[x] for x in ("k", "l", "r", "t") if x in a}
            if rng.random() < 0.15:
                b["sn"] = rng.randrange(1 << (nl + 1))
            acts.append(b)
            if k == "ev" and a.get("t", 0) != 0 and rng.random() < 0.3:
                acts.insert(len(acts) - 1, {"k": "sync", "l": a["l"], "r": a["t"]})
        att = a.get("att", att)
    return acts


def run_r_level(out, wd, pb, paths, nl, nr, rng, stats, findings_text, tag):
    cases = [{"id": "%s.%d" % (tag, i), "cfg": {"level": "R", "nl": nl, "nr": nr, "agg": True}, "acts": r_script(p, nl, nr, rng)}
             for i, p in enumerate(paths)]
    cases = [c for c in cases if len(c["acts"]) > nl + 2]
    if not cases:
        return
    results = rp.run_cases("h_runtime", "links", cases, wd, tag=tag, input_keys=None, strip=False)
    ok_items = []
    for c, r in zip(cases, results):
        stats["r_cases"] += 1
        stats["r_steps"] += len(c["acts"])
        if r.get("panic"):
            if str(r["panic"]).startswith("harness:"):
                raise core.ToolError("harness: %s (case %s)" % (r["panic"], c["id"]))
            out.violation("panic in the agent runtime (%s case %s): %s" % (tag, c["id"], r["panic"]),
                          {"component": "links", "case": c, "observed": r})
            stats["rejected"] += 1
            continue
        if "panicked" in r.get("end", ""):
            out.violation("%s case %s: %s" % (tag, c["id"], r["end"]), {"component": "links", "case": c, "observed": r})
            stats["rejected"] += 1
            continue
        if r.get("end") != "ok":
            stats["r_not_stopped"] += 1
        ok_items.append((c, r))
    for (c, r), v in zip(ok_items, pb.validate(ok_items)):
        if v is None:
            stats["unexamined"] += 1
            continue
        stats["p_validated"] += 1
        if v["accepted"]:
            stats["r_accepted"] += 1
            for f in v["kf"]:
                stats["r_kf_hits"][f] = stats["r_kf_hits"].get(f, 0) + 1
                stats["kf_hits"][f] = stats["kf_hits"].get(f, 0) + 1
                out.known_finding(findings_text[f])
        else:
            stats["rejected"] += 1
            out.violation("whole agent runtime, %s case %s: %s" % (tag, c["id"], v["detail"]),
                          {"component": "links", "case": c, "observed": r})



# ----------------------------------------------------------------------------- level I: the reporting layer

I_PROBES = [
    # does a lane registration overtake the registration of its agent?  (an empty poll flips select()'s preference)
    {"id": "pd", "cfg": {"level": "I", "nl": 1, "nr": 1},
     "acts": [{"k": "ipoll"}, {"k": "reg"}, {"k": "addlane", "l": 1}, {"k": "ipoll"}, {"k": "mnode"}, {"k": "ipoll"},
              {"k": "synclanes"}]},
    # does a lane meta agent stay alive?
    {"id": "pe", "cfg": {"level": "I", "nl": 1, "nr": 1},
     "acts": [{"k": "reg"}, {"k": "ipoll"}, {"k": "addlane", "l": 1}, {"k": "ipoll"}, {"k": "mlane", "l": 1}, {"k": "ipoll"}]},
]

# the findings' signatures and a plain run of everything, always replayed
I_SIGNATURES = [
    I_PROBES[0]["acts"] + [{"k": "mlane", "l": 1}, {"k": "ipoll"}],
    I_PROBES[1]["acts"] + [{"k": "tick"}],
    [{"k": "reg"}, {"k": "ipoll"}, {"k": "addlane", "l": 1}, {"k": "addlane", "l": 2}, {"k": "ipoll"}, {"k": "att", "r": 1},
     {"k": "link", "r": 1, "l": 1}, {"k": "ev", "l": 1}, {"k": "cmd", "l": 2}, {"k": "mnode"}, {"k": "mlane", "l": 1},
     {"k": "mlane", "l": 2}, {"k": "ipoll"}, {"k": "link", "r": 1, "l": 2}, {"k": "ev", "l": 1}, {"k": "ev", "l": 2},
     {"k": "ev", "l": 2}, {"k": "cmd", "l": 1}, {"k": "tick"}, {"k": "syncp", "m": 0}, {"k": "syncp", "m": 2},
     {"k": "synclanes"}, {"k": "unlink", "r": 1, "l": 1}, {"k": "tick"}, {"k": "stopmeta", "m": 2}, {"k": "ev", "l": 2},
     {"k": "mlane", "l": 2}, {"k": "ipoll"}, {"k": "fail", "l": 1}, {"k": "tick"}, {"k": "synclanes"}, {"k": "stop"},
     {"k": "tick"}, {"k": "ipoll"}, {"k": "mnode"}, {"k": "ipoll"}],
]


def probe_i(wd):
    res = rp.run_cases("h_runtime", "introspect", I_PROBES, wd, tag="iprobe", input_keys=None, strip=False)
    for r in res:
        if r.get("panic"):
            raise core.ToolError("probe (introspect) panicked: %s" % r["panic"])
    msg_first = res[0]["obs"][-1]["ls"] == [1]
    lives = res[1]["obs"][-1]["ms"][1] == 2
    return {"MsgFirst": msg_first, "LaneMetaLives": lives}


def i_consts(nl, nr, maxc, variant, excuse, path_len=None):
    k = dict(NL=nl, NR=nr, MaxCount=maxc, RateMul=RATE_MUL, LaneMetaLives=variant["LaneMetaLives"],
             MsgFirst=variant["MsgFirst"], Excuse=fset(excuse))
    if path_len is not None:
        k["PathLen"] = path_len
    return k


def job_icheck(wd, tag, k, extra_invs=(), workers=1, timeout=3000):
    c = core.cfg(constants=k, invariants=I_INVS + list(extra_invs), view="View", constraints=["Bounded"])
    return core.run_tlc("Introspection", c, os.path.join(wd, tag), workers=workers, timeout=timeout)


def job_isim(wd, tag, k, num, seed):
    c = core.cfg(init="SimInit", next_="SimNext", constants=k, invariants=I_INVS + ["PathDump"],
                 constraints=["Bounded", "SimBound"])
    return core.run_tlc("Sim_Introspection", c, os.path.join(wd, tag), workers=1, simulate="num=%d" % num, coverage=False,
                        extra=["-depth", str(k["PathLen"] + 1), "-seed", str(seed)], timeout=3000)


def i_norm(o):
    """what is compared with M: the pulses, the listing, the states of the meta agents"""
    return {"px": o.get("px", []), "ls": [-1] if o.get("ls") is None else o["ls"], "ms": o.get("ms", [])}


def i_why(s):
    if s == "ok":
        return "ok"
    if "No lane named" in s:
        return "nolane"
    if "No running agent" in s:
        return "noagent"
    return "other"


def i_trace(case, result):
    cfg = case["cfg"]
    ev = [{"k": "reset", "nl": cfg["nl"], "nr": cfg["nr"], "mul": RATE_MUL}]
    for a, o in zip(case["acts"], result.get("obs", [])):
        e = {k: a[k] for k in ("k", "l", "r", "m") if k in a}
        e.update(i_norm(o))
        if o.get("why"):
            e["why"] = [[m, i_why(w)] for m, w in o["why"]]
        ev.append(e)
    return ev


def run_i_level(out, wd, paths, nl, nr, openf, stats, findings_text, tag, with_expected=True):
    """replay on the real introspection task + meta agents; compare with M; P (Trace_Introspection) decides"""
    cases = [{"id": "%s.%d" % (tag, i), "cfg": {"level": "I", "nl": nl, "nr": nr}, "acts": p} for i, p in enumerate(paths) if p]
    if not cases:
        return
    results = rp.run_cases("h_runtime", "introspect", cases, wd, tag=tag, input_keys=I_INPUT)
    items = []
    for c, r in zip(cases, results):
        stats["i_cases"] += 1
        stats["i_steps"] += len(c["acts"])
        if r.get("panic"):
            if str(r["panic"]).startswith("harness:"):
                raise core.ToolError("harness: %s (case %s)" % (r["panic"], c["id"]))
            out.violation("panic in the introspection layer (%s case %s): %s" % (tag, c["id"], r["panic"]),
                          {"component": "introspect", "case": c, "observed": r})
            stats["rejected"] += 1
            continue
        if any(o.get("agent_ended_unexpectedly") or o.get("agent_did_not_stop") for o in r.get("obs", [])):
            raise core.ToolError("harness: the observed agent did not behave as scripted (case %s)" % c["id"])
        if with_expected:
            exp = [rp.project(a, I_INPUT) for a in c["acts"]]
            obs = [i_norm(o) for o in r.get("obs", [])]
            d = next((i for i in range(len(exp)) if i >= len(obs) or exp[i] != obs[i]), None)
            if d is None:
                stats["i_conform"] += 1
            else:
                stats["i_drift_candidates"].append((c, r, d))
        items.append((c, r))
    pb = PBatch(wd, openf & {"F3d", "F3e"}, module="Trace_Introspection", trace_of=i_trace, tag="itv_" + tag)
    verdicts = pb.validate(items)
    stats["i_p_events"] += pb.events
    drifting = {id(c): d for c, r, d in stats["i_drift_candidates"]}
    for (c, r), v in zip(items, verdicts):
        if v is None:
            stats["unexamined"] += 1
            continue
        stats["p_validated"] += 1
        if v["accepted"]:
            stats["i_accepted"] += 1
            for f in v["kf"]:
                stats["i_kf_hits"][f] = stats["i_kf_hits"].get(f, 0) + 1
                stats["kf_hits"][f] = stats["kf_hits"].get(f, 0) + 1
                out.known_finding(findings_text[f])
            if id(c) in drifting:
                stats["drift"] += 1
                if stats["drift"] <= 3:
                    d = drifting[id(c)]
                    out.notes.append("MODEL-DRIFT %s case %s step %s: M expects %s, real code gave %s" % (
                        tag, c["id"], d, json.dumps(c["acts"][d]) if d < len(c["acts"]) else None,
                        json.dumps(r.get("obs", [])[d]) if d < len(r.get("obs", [])) else None))
        else:
            stats["rejected"] += 1
            out.violation("introspection layer, %s case %s: %s" % (tag, c["id"], v["detail"]),
                          {"component": "introspect", "case": c, "observed": r})
    stats["i_drift_candidates"] = []


# ----------------------------------------------------------------------------- level G: the registry of agents

G_PROBES = [
    {"id": "pf1", "cfg": {"level": "G"},
     "acts": [{"k": "greg", "a": 1, "u": 2}, {"k": "ipoll"}, {"k": "greg", "a": 2, "u": 1}, {"k": "gresolve", "u": 1}]},
    {"id": "pf2", "cfg": {"level": "G"},
     "acts": [{"k": "greg", "a": 1, "u": 2}, {"k": "greg", "a": 2, "u": 3}, {"k": "gresolve", "u": 3}]},
]


def job_gcheck(wd, tag, k, dump=False, workers=1):
    invs = ["TypeOK", "RegistryTrue"] + (["InitDump"] if dump else [])
    c = core.cfg(constants=k, invariants=invs, view="View", action_constraints=["EdgeDump"] if dump else ())
    return core.run_tlc("MC_IntrospectionRegistry" if dump else "IntrospectionRegistry", c, os.path.join(wd, tag),
                        workers=workers, timeout=3000)


def run_g_level(out, wd, paths, openf, stats, findings_text, tag):
    """The registry is an exact contract (a mapping URI -> agent): every answer must be the one M gives."""
    cases = [{"id": "%s.%d" % (tag, i), "cfg": {"level": "G"}, "acts": p} for i, p in enumerate(paths) if p]
    if not cases:
        return
    results = rp.run_cases("h_runtime", "introspect", cases, wd, tag=tag, input_keys=G_INPUT)
    for c, r in zip(cases, results):
        stats["g_cases"] += 1
        stats["g_steps"] += len(c["acts"])
        if r.get("panic"):
            if str(r["panic"]).startswith("harness:"):
                raise core.ToolError("harness: %s (case %s)" % (r["panic"], c["id"]))
            out.violation("panic in the introspection registry (%s case %s): %s" % (tag, c["id"], r["panic"]),
                          {"component": "registry", "case": c, "observed": r})
            stats["rejected"] += 1
            continue
        exp = [rp.project(a, G_INPUT) for a in c["acts"]]
        obs = r.get("obs", [])
        d = next((i for i in range(len(exp)) if i >= len(obs) or exp[i] != obs[i]), None)
        if d is None:
            stats["g_conform"] += 1
        elif c["acts"][d].get("nest") == 1 and "F3f" in openf:
            # the contract is broken in the circumstances of the open finding: URIs nested in one another
            stats["g_known"] += 1
            stats["kf_hits"]["F3f"] = stats["kf_hits"].get("F3f", 0) + 1
            stats["g_kf_hits"]["F3f"] = stats["g_kf_hits"].get("F3f", 0) + 1
            out.known_finding(findings_text["F3f"])
            if len(stats["kf_samples"].setdefault("F3f", [])) < 3:
                stats["kf_samples"]["F3f"].append({"level": "G", "calls": [rp.inputs(a, G_INPUT - {"nest"}) for a in c["acts"]][: d + 1],
                                                   "contract": exp[d], "real_code": obs[d] if d < len(obs) else None})
        else:
            stats["rejected"] += 1
            if stats["g_reported"] < 6:
                stats["g_reported"] += 1
                out.violation("registry of agents, %s case %s step %d %s: the mapping URI -> agent requires %s, the real code gave %s" % (
                    tag, c["id"], d, json.dumps(rp.inputs(c["acts"][d], G_INPUT - {"nest"})), json.dumps(exp[d]),
                    json.dumps(obs[d]) if d < len(obs) else None), {"component": "registry", "case": c, "observed": r})


class PBatch:
    """P (Trace_Links) over many recorded executions in as few TLC runs as possible."""

    def __init__(self, wd, enabled, max_rejects=12, module="Trace_Links", trace_of=None, tag="tv"):
        self.wd, self.enabled, self.n, self.events = wd, enabled, 0, 0
        self.rejects_left = max_rejects
        self.module, self.trace_of, self.tag = module, trace_of, tag

    def validate(self, items):
        """items: [(case, result)] -> [dict(accepted, kf:set, detail) | None] in order.
        After max_rejects rejections the remaining executions are left unexamined (None): the verdict of
        the run is already exit 1 and every further rejection costs one more TLC run."""
        verdicts = [None] * len(items)
        start = 0
        while start < len(items) and self.rejects_left > 0:
            evs, bounds = [], []
            for c, r in items[start:]:
                t = (self.trace_of or to_trace)(c, r)
                bounds.append((len(evs), len(evs) + len(t)))
                evs += t
            self.n += 1
            self.events += len(evs)
            res = core.trace_validate(self.module, evs, os.path.join(self.wd, "%s%d" % (self.tag, self.n)),
                                      constants={"Enabled": fset(self.enabled)}, timeout=3000, xmx="3g")
            if res.get("status", "").startswith("invariant"):
                raise core.ToolError("%s failed: %s" % (self.module, res))
            kfs = {}
            for f, csn in res.get("kf", []):
                kfs.setdefault(csn - 1, set()).add(f)
            m = res["matched"]
            if res["accepted"]:
                for j in range(len(bounds)):
                    verdicts[start + j] = {"accepted": True, "kf": kfs.get(j, set())}
                break
            bad = next(j for j, (lo, hi) in enumerate(bounds) if lo <= m < hi)
            for j in range(bad):
                verdicts[start + j] = {"accepted": True, "kf": kfs.get(j, set())}
            lo, hi = bounds[bad]
            verdicts[start + bad] = {"accepted": False, "kf": set(),
                                     "detail": "P (%s) rejects the recorded history at step %d: %s" % (
                                         self.module, m - lo - 1, json.dumps(evs[m]))}
            start += bad + 1
            self.rejects_left -= 1
        return verdicts


def run_group(out, tag, cases, wd, pb, openf, stats, findings_text, sample_every=40):
    """replay, compare with M, let P decide"""
    if not cases:
        return
    results = rp.run_cases("h_runtime", "links", cases, wd, tag=tag, input_keys=INPUT_KEYS)
    ask, why = [], []
    for c, r in zip(cases, results):
        stats["cases"] += 1
        stats["steps"] += len(c["acts"])
        if r.get("panic"):
            if str(r["panic"]).startswith("harness:"):
                raise core.ToolError("harness: %s (case %s)" % (r["panic"], c["id"]))
            out.violation("panic in the code under test (%s case %s): %s" % (tag, c["id"], r["panic"]),
                          {"component": "links", "case": c, "observed": r})
            stats["rejected"] += 1
            continue
        exp = [norm_step(a["k"], rp.project(a, INPUT_KEYS)) for a in c["acts"]]
        obs = [norm_step(a["k"], o) for a, o in zip(c["acts"], r.get("obs", []))]
        d = next((i for i in range(len(exp)) if i >= len(obs) or exp[i] != obs[i]), None)
        needs = set()
        for a in c["acts"]:
            needs |= set(a.get("kf", []))
        if d is not None:
            ask.append((c, r))
            why.append(("diverges", d, needs))
        elif needs:
            ask.append((c, r))
            why.append(("excused", None, needs))
        else:
            stats["conform"] += 1
            if stats["conform"] % sample_every == 0:
                ask.append((c, r))
                why.append(("sample", None, needs))
    # cap the number of excused executions sent through P (the others are executions of M, for which TLC
    # has shown P \/ the same excuses) - but only if every excuse they need is an open finding
    capped = []
    n_exc = 0
    for (c, r), w in zip(ask, why):
        if w[0] == "excused":
            n_exc += 1
            if n_exc > stats["excused_cap"] and w[2] <= openf:
                stats["excused_by_model"] += 1
                for f in w[2]:
                    stats["kf_hits"][f] = stats["kf_hits"].get(f, 0) + 1
                    out.known_finding(findings_text[f])
                continue
        capped.append(((c, r), w))
    verdicts = pb.validate([x[0] for x in capped])
    for ((c, r), w), v in zip(capped, verdicts):
        if v is None:
            stats["unexamined"] += 1
            continue
        stats["p_validated"] += 1
        if v["accepted"]:
            if v["kf"]:
                stats["known"] += 1
                for f in v["kf"]:
                    stats["kf_hits"][f] = stats["kf_hits"].get(f, 0) + 1
                    out.known_finding(findings_text[f])
                    if len(stats["kf_samples"].setdefault(f, [])) < 2:
                        stats["kf_samples"][f].append({"level": c["cfg"]["level"], "calls": [rp.inputs(a, INPUT_KEYS - {"kf"}) for a in c["acts"]][:14]})
            if w[0] == "diverges":
                stats["drift"] += 1
                if stats["drift"] <= 3:
                    i = w[1]
                    out.notes.append("MODEL-DRIFT %s case %s step %s: M expects %s, real code gave %s" % (
                        tag, c["id"], i, json.dumps(c["acts"][i]) if i < len(c["acts"]) else None,
                        json.dumps(r.get("obs", [])[i]) if i < len(r.get("obs", [])) else None))
            elif w[0] == "excused":
                stats["conform"] += 1
                if not v["kf"]:
                    stats["excused_without_deviation"] += 1   # e.g. the deviant step was not snapshotted
        else:
            stats["rejected"] += 1
            out.violation("%s: %s case %s: %s" % (
                "the real code conforms to the model of the unchanged tree, which violates P" if w[0] != "diverges"
                else "the real code diverges from M at step %s and P rejects the execution" % w[1],
                tag, c["id"], v["detail"]), {"component": "links", "case": c, "observed": r})


def cover(g, rng, max_len=120, hop=6):
    """Paths from the initial state that together take every edge of the graph: follow uncovered edges;
    when the current state has none left, walk to the nearest state that has (bounded BFS); start a new path
    when the bound or a dead end is reached."""
    g.shortest_paths()
    unc = {s: list(range(len(g.succ[s]))) for s in g.succ if s in g.parent}
    for s in unc:
        rng.shuffle(unc[s])
    remaining = sum(len(v) for v in unc.values())
    order = sorted((s for s in unc), key=lambda s: len(g.path_to(s)))
    idx = 0
    paths = []
    while remaining > 0:
        while idx < len(order) and not unc.get(order[idx]):
            idx += 1
        if idx >= len(order):
            break
        cur = order[idx]
        acts = list(g.path_to(cur))
        while len(acts) < max_len:
            u = unc.get(cur)
            if u:
                a, t = g.succ[cur][u.pop()]
                remaining -= 1
                acts.append(a)
                cur = t
                continue
            # bounded BFS to the nearest state with uncovered edges
            prev = {cur: None}
            frontier = [cur]
            found = None
            for _ in range(hop):
                nxt = []
                for s in frontier:
                    for (a, t) in g.succ.get(s, ()):
                        if t not in prev:
                            prev[t] = (s, a)
                            if unc.get(t):
                                found = t
                                break
                            nxt.append(t)
                    if found:
                        break
                if found or not nxt:
                    break
                frontier = nxt
            if not found:
                break
            route = []
            n = found
            while prev[n] is not None:
                s, a = prev[n]
                route.append(a)
                n = s
            route.reverse()
            acts += route
            cur = found
        paths.append(acts)
    return paths, g.n_edges - remaining


def mk_cases(prefix, cfg, paths):
    return [{"id": "%s.%d" % (prefix, i), "cfg": cfg, "acts": p} for i, p in enumerate(paths) if p]


# ----------------------------------------------------------------------------- run

def run(tier, out):
    rng = random.Random(core.seed())
    quick = tier == "quick"
    t_start = time.time()
    wd = core.workdir(PROP)
    core.build_harness("h_runtime", "links")
    variant = probe(wd)
    entries = {f["id"]: f for f in core.known_findings() if PROP in f["property"].split(",")}
    openf = {f for f in ALL_F if entries.get(f, {}).get("status") == "open"}
    findings_text = {f: "%s %s" % (f, entries.get(f, {}).get("what", "")) for f in ALL_F}
    # the excuses the probed variant of M needs
    needed = set()
    if not variant["KeepEntry"]:
        needed.add("F3a")
    if variant["Guard"] == "none":
        needed.add("F3b")
    repaired = {"KeepEntry": True, "Guard": "all"}
    core.build_harness("h_runtime", "introspect")
    ivariant = probe_i(wd)
    ineeded = set()
    if not ivariant["MsgFirst"]:
        ineeded.add("F3d")
    if not ivariant["LaneMetaLives"]:
        ineeded.add("F3e")
    irepaired = {"MsgFirst": True, "LaneMetaLives": True}
    gneeded = set()
    ivariant_all = dict(ivariant)
    core.log("[C20] probed variant of M: %s %s; excuses it needs: %s; open findings: %s" % (
        variant, ivariant_all, sorted(needed | ineeded | gneeded), sorted(openf)))

    # ---- B3 + graph dumps, in parallel (<= 4 TLC workers in total)
    jobs = {}
    big_k = (2, 3) if quick else (3, 3)
    with cf.ThreadPoolExecutor(max_workers=3 if quick else 2) as ex:
        jobs["bigK"] = ex.submit(job_check, wd, "bigK", consts("K", big_k[0], big_k[1], variant, needed), False,
                                 2, False, False)
        jobs["dumpW"] = ex.submit(job_check, wd, "dumpW", consts("W", 2, 2, variant, needed), True)
        jobs["dumpK"] = ex.submit(job_check, wd, "dumpK", consts("K", 2, 2, variant, needed), True)
        jobs["dumpK0"] = ex.submit(job_check, wd, "dumpK0", consts("K", 2, 2, variant, needed, agg=False), True)
        jobs["simW"] = ex.submit(job_sim, wd, "simW", consts("W", 3, 3, variant, needed), 25 if quick else 400,
                                 24 if quick else 40, core.seed())
        jobs["simK"] = ex.submit(job_sim, wd, "simK", consts("K", 3, 3, variant, needed), 15 if quick else 300,
                                 20 if quick else 40, core.seed() + 1)
        cnt = dict(Incs={"c1", "c2"}, Snaps={"s1"}, Amounts={1, 2}, MaxInc=2, MaxSnap=2, MaxSpur=1, Cap=100, SnapMode="cas")
        jobs["cnt"] = ex.submit(job_counters, wd, "cnt", cnt)
        jobs["cntStore"] = ex.submit(job_counters, wd, "cntStore", dict(cnt, SnapMode="store"))
        if needed:
            # without the excuses the unchanged tree's variant must fail, one counterexample per finding
            if "F3a" in needed:
                jobs["strictA"] = ex.submit(job_check, wd, "strictA", consts("K", 2, 2, variant, set()), False, 1, False, False)
            if "F3b" in needed:
                v2 = dict(variant, KeepEntry=True)
                jobs["strictB"] = ex.submit(job_check, wd, "strictB", consts("W", 2, 2, v2, set()), False, 1, False, False)
            # the repaired variant satisfies P with no excuse and never meets the findings' circumstances
            jobs["fixK"] = ex.submit(job_check, wd, "fixK", consts("K", 2, 2, repaired, set()), False, 1, True)
            jobs["fixW"] = ex.submit(job_check, wd, "fixW", consts("W", 2, 2, repaired, set()), False, 1, True)
        # the reporting layer (Introspection.tla)
        jobs["iChk"] = ex.submit(job_icheck, wd, "iChk", i_consts(1, 1, 1, ivariant, ineeded))
        jobs["iSim"] = ex.submit(job_isim, wd, "iSim", i_consts(2, 2 if not quick else 1, 2, ivariant, ineeded, 30),
                                 30 if quick else 500, core.seed() + 2)
        if "F3d" in ineeded:
            jobs["iStrictD"] = ex.submit(job_icheck, wd, "iStrictD", i_consts(1, 1, 1, ivariant, ineeded - {"F3d"}))
        if "F3e" in ineeded:
            jobs["iStrictE"] = ex.submit(job_icheck, wd, "iStrictE", i_consts(1, 1, 1, ivariant, ineeded - {"F3e"}))
        if ineeded:
            jobs["iFix"] = ex.submit(job_icheck, wd, "iFix", i_consts(1, 1, 1, irepaired, set()),
                                     ("NoLostRegistration", "NoEatenCounts"))
        # the registry of agents (IntrospectionRegistry.tla)
        jobs["gDump"] = ex.submit(job_gcheck, wd, "gDump", {"NA": 2}, True)
        if not quick:
            jobs["gBig"] = ex.submit(job_gcheck, wd, "gBig", {"NA": 3}, False, 2)
            jobs["iBig"] = ex.submit(job_icheck, wd, "iBig", i_consts(1, 2, 2, ivariant, ineeded), (), 2)
            jobs["bigK2"] = ex.submit(job_check, wd, "bigK2", consts("K", 3, 2, variant, needed), False, 2, False, False)
            jobs["bigW"] = ex.submit(job_check, wd, "bigW", consts("W", 3, 2, variant, needed), False, 2, False, False)
            jobs["bigW2"] = ex.submit(job_check, wd, "bigW2", consts("W", 2, 3, variant, needed), False, 2, False, False)
            jobs["cntBig"] = ex.submit(job_counters, wd, "cntBig",
                                       dict(cnt, Snaps={"s1", "s2"}, MaxSpur=0), None, (), 2)
            jobs["cntLive"] = ex.submit(job_counters, wd, "cntLive", cnt, "FairSpec", ("Termination",), 1)
            jobs["cntSat"] = ex.submit(job_counters, wd, "cntSat", dict(cnt, Cap=3))
    R = {k: f.result() for k, f in jobs.items()}
    t_tlc = time.time() - t_start

    tlc_stats = {}
    cov = {}
    states = transitions = 0
    for k, r in R.items():
        tlc_stats[k] = {"status": r.status, "violated": r.violated, "generated": r.generated, "distinct": r.distinct,
                        "depth": r.depth, "wall_s": round(r.wall, 1)}
        expect_fail = k in ("strictA", "strictB", "cntStore", "iStrictD", "iStrictE")
        if expect_fail:
            if r.ok:
                raise core.ToolError("%s: the model without the excuse / with the wrong design satisfies P - "
                                     "the specification has lost its teeth" % k)
            continue
        if not r.ok:
            raise core.ToolError("M violates P in TLC (%s: %s %s):\n%s" % (k, r.status, r.violated, r.counterexample[:3000]))
        if k.startswith("sim") or k == "iSim":
            continue
        states += r.distinct
        transitions += r.generated
        for a, (d, t) in r.coverage.items():
            if a in ("Init", "EdgeDump"):
                continue
            o = cov.get(a, (0, 0))
            cov[a] = (o[0] + d, o[1] + t)
    never = sorted(a for a, (d, t) in cov.items() if t == 0)
    core.log("[C20] TLC: %s" % json.dumps(tlc_stats))

    # ---- B1/B2: replay
    pb = PBatch(wd, openf)
    stats = dict(g_cases=0, g_steps=0, g_conform=0, g_known=0, g_reported=0, g_kf_hits={}, i_cases=0, i_steps=0, i_conform=0, i_accepted=0, i_p_events=0, i_kf_hits={}, i_drift_candidates=[], r_cases=0, r_steps=0, r_accepted=0, r_not_stopped=0, r_kf_hits={}, unexamined=0, excused_without_deviation=0, cases=0, steps=0, conform=0, drift=0, rejected=0, known=0, p_validated=0, excused_by_model=0,
                 excused_cap=150 if quick else 1500, kf_hits={}, kf_samples={})
    graph_edges = 0
    covered_edges = 0
    for key, level, agg in (("dumpK", "K", True), ("dumpK0", "K", False), ("dumpW", "W", True)):
        r = R[key]
        g = core.Graph(r.tagged["EDGE"], init_views=r.tagged["INIT"])
        graph_edges += g.n_edges
        paths, nc = cover(g, rng)
        covered_edges += nc
        paths += g.random_walks(150 if quick else 3000, 16 if quick else 30, rng)
        cfg = {"level": level, "nl": 2, "nr": 2, "agg": agg}
        cases = mk_cases(key, cfg, paths)
        sp = [sparse_variant(p, 2, rng) for p in rng.sample(paths, min(len(paths), 200 if quick else 3000))]
        cases += mk_cases(key + "s", cfg, sp)
        run_group(out, key, cases, wd, pb, openf, stats, findings_text, 20 if quick else 10)
        core.log("[C20] %s: %d states %d edges -> %d cases; so far conform=%d drift=%d rejected=%d known=%d" % (
            key, r.distinct, g.n_edges, len(cases), stats["conform"], stats["drift"], stats["rejected"], stats["known"]))
        if key == "dumpW":
            w_walks = [p for p in paths[-(150 if quick else 3000):] if len(p) >= 6]
            out.sample({"level": "W", "calls_with_expected_outputs": paths[len(paths) // 2][:6]})
        if key == "dumpK":
            out.sample({"level": "K", "calls_with_expected_outputs": paths[len(paths) // 3][:6]})
    for key, level in (("simW", "W"), ("simK", "K")):
        paths = R[key].tagged["REPLAY"]
        seen, uniq = set(), []
        for p in paths:
            c = core.canon(p)
            if c not in seen and len(p) >= 4:
                seen.add(c)
                uniq.append(p)
        rng.shuffle(uniq)
        uniq = uniq[: 400 if quick else 6000]
        cfg = {"level": level, "nl": 3, "nr": 3, "agg": True}
        cases = mk_cases(key, cfg, uniq) + mk_cases(key + "s", cfg, [sparse_variant(p, 3, rng) for p in uniq[: len(uniq) // 2]])
        run_group(out, key, cases, wd, pb, openf, stats, findings_text, 20 if quick else 10)
        core.log("[C20] %s: %d simulated behaviours (3x3) -> %d cases; so far conform=%d drift=%d rejected=%d known=%d" % (
            key, len(uniq), len(cases), stats["conform"], stats["drift"], stats["rejected"], stats["known"]))

    # ---- B2 on the whole runtime (level R): AgentRouteTask + NodeReporting + fake agent, judged by P only
    t_r0 = time.time()
    w_paths = [p for p in R["simW"].tagged["REPLAY"] if len(p) >= 6]
    rng.shuffle(w_paths)
    run_r_level(out, wd, pb, [list(x) for x in R_SIGNATURES], 2, 2, rng, stats, findings_text, "rsig")
    run_r_level(out, wd, pb, w_paths[: 120 if quick else 2500], 3, 3, rng, stats, findings_text, "rsim")
    run_r_level(out, wd, pb, w_walks[: 80 if quick else 1500], 2, 2, rng, stats, findings_text, "rwalk")
    t_r = time.time() - t_r0
    core.log("[C20] level R (whole runtime): %d scripts, %d steps, accepted by P %d, findings hit %s" % (
        stats["r_cases"], stats["r_steps"], stats["r_accepted"], stats["r_kf_hits"]))

    # ---- level I: the real introspection task and meta agents
    t_i0 = time.time()
    run_i_level(out, wd, [list(x) for x in I_SIGNATURES], 2, 1, openf, stats, findings_text, "isig", with_expected=False)
    i_paths, seen = [], set()
    for p_ in R["iSim"].tagged["REPLAY"]:
        c_ = core.canon([rp.inputs(a, I_INPUT) for a in p_])
        if c_ not in seen:
            seen.add(c_)
            i_paths.append(p_)
    rng.shuffle(i_paths)
    i_paths = i_paths[: 150 if quick else 3000]
    run_i_level(out, wd, i_paths, 2, 1 if quick else 2, openf, stats, findings_text, "isim")
    gg = core.Graph(R["gDump"].tagged["EDGE"], init_views=R["gDump"].tagged["INIT"])
    g_paths, g_cov = cover(gg, rng, max_len=60)
    g_paths += gg.random_walks(100 if quick else 3000, 25, rng)
    graph_edges += gg.n_edges
    covered_edges += g_cov
    run_g_level(out, wd, g_paths, openf, stats, findings_text, "greg")
    core.log("[C20] level G (registry of agents, mesh meta agent): %d states %d edges -> %d scripts, %d steps, equal to M %d, broken in F3f's circumstances %d" % (
        R["gDump"].distinct, gg.n_edges, stats["g_cases"], stats["g_steps"], stats["g_conform"], stats["g_known"]))
    t_i = time.time() - t_i0
    if i_paths:
        out.sample({"level": "I", "calls_with_expected_observations": i_paths[0][:10]})
    core.log("[C20] level I (introspection task + meta agents): %d scripts, %d steps, equal to M %d, accepted by P %d, findings hit %s" % (
        stats["i_cases"], stats["i_steps"], stats["i_conform"], stats["i_accepted"], stats["i_kf_hits"]))

    # a finding that is listed but no longer observed: say so (nothing is suppressed by it)
    for f in sorted(openf - set(stats["kf_hits"])):
        out.notes.append("open finding %s was not observed on this tree" % f)

    stress(out, rng, 6 if quick else 60, 20000 if quick else 300000)

    out.add(states=states, transitions=transitions,
            traces_validated_against_impl=stats["cases"] + stats["r_cases"] + stats["i_cases"] + stats["g_cases"],
            introspection_scripts=stats["i_cases"], introspection_steps=stats["i_steps"],
            introspection_equal_to_M=stats["i_conform"], introspection_accepted_by_P=stats["i_accepted"],
            introspection_p_trace_events=stats["i_p_events"], introspection_finding_hits=stats["i_kf_hits"],
            introspection_model_variant=ivariant_all,
            registry_scripts=stats["g_cases"], registry_steps=stats["g_steps"], registry_equal_to_M=stats["g_conform"],
            registry_contract_broken_under_F3f=stats["g_known"],
            whole_runtime_scripts=stats["r_cases"], whole_runtime_steps=stats["r_steps"],
            whole_runtime_accepted_by_P=stats["r_accepted"], whole_runtime_finding_hits=stats["r_kf_hits"],
            whole_runtime_not_stopped_cleanly=stats["r_not_stopped"],
            replayed_calls=stats["steps"], conform_to_M=stats["conform"], model_drift=stats["drift"],
            p_rejected=stats["rejected"], unexamined_after_reject_cap=stats["unexamined"], p_validated_by_tlc=stats["p_validated"], p_trace_events=pb.events,
            p_tlc_runs=pb.n, excused_accepted_by_model_equivalence=stats["excused_by_model"],
            graph_edges=graph_edges, graph_edges_covered_by_replay=covered_edges, known_finding_hits=stats["kf_hits"], known_finding_samples=stats["kf_samples"],
            model_variant=variant, tlc=tlc_stats,
            phase_wall_s={"tlc_model_checking": round(t_tlc, 1), "replay_K_W": round(t_r0 - t_start - t_tlc, 1),
                          "whole_runtime": round(t_r, 1), "introspection": round(t_i, 1)},
            action_coverage={a: {"distinct": d, "taken": t} for a, (d, t) in sorted(cov.items())},
            actions_never_taken=never, exhaustive=True,
            rule="B3: complete state spaces of Links.tla (K and W, scopes in `tlc`), P as action property on every "
                 "transition; B1: every transition of the 2x2 graphs (K with and without aggregate, W) + random walks + "
                 "TLC-simulated 3x3 behaviours + sparse-snapshot variants replayed on the real Links / WriteTaskHarness; "
                 "a case = one call sequence with all expected outputs",
            checker_cmd="tlc MC_Links / Links (INVARIANTS %s PROPERTY PStep) ; tlc -simulate Sim_Links ; tlc Counters ; "
                        "h_runtime links ; tlc Trace_Links (POSTCONDITION TraceAccepted)" % " ".join(STATE_INVS))
    out.assumptions += [
        "level W runs every write as soon as it is scheduled (the write task may interleave them with other messages; "
        "this changes when a write failure is noticed, not what the registry does then)",
        "remote ids are re-used after a removal only through a new `att` (as the harness does)",
        "an event addressed to a remote that is no longer attached may or may not be counted (the statement is silent)",
        "a Link for a lane that has failed is still a link (the remote is told `linked`); P is silent about the reporter of a removed lane",
        "Counters.tla models Relaxed atomics as sequentially consistent single-location operations (coherence of one "
        "atomic is all the protocol uses)"]


def stress(out, rng, runs, iters):
    res = core.run_harness("h_runtime", ["links", "stress", str(rng.randrange(1 << 30)), str(runs), str(iters)])
    n = snaps = incs = 0
    for line in res.splitlines():
        o = json.loads(line)
        n += 1
        snaps += o["snapshots"]
        incs += o["increments"]
        if not o["ok"]:
            out.violation("counters on real threads: %s" % o["what"], {"component": "links-stress", "run": o})
    out.add(stress_runs=n, stress_snapshots=snaps, stress_count_calls=incs)
    core.log("[C20] stress: %d runs, %d count_* calls, %d concurrent snapshots" % (n, incs, snaps))


def replay(path, out):
    wd = core.workdir(PROP + "_replay")
    obj = json.load(open(path))["replay"]
    if obj.get("component") == "links-stress" or "case" not in obj:
        print(json.dumps(obj, indent=1)[:4000])
        core.build_harness("h_runtime", "links")
        res = core.run_harness("h_runtime", ["links", "stress", "1", "10", "100000"])
        bad = [json.loads(l) for l in res.splitlines() if not json.loads(l)["ok"]]
        if bad:
            print("VIOLATION property=%s replay=%s" % (PROP, path))
            return 1
        return 0
    case = obj["case"]
    if obj.get("component") == "registry":
        core.build_harness("h_runtime", "introspect")
        res = rp.run_cases("h_runtime", "introspect", [case], wd, tag="replay", input_keys=G_INPUT)[0]
        if res.get("panic"):
            print("panic:", res["panic"])
            print("VIOLATION property=%s replay=%s" % (PROP, path))
            return 1
        exp = [rp.project(a, G_INPUT) for a in case["acts"]]
        obs = res.get("obs", [])
        for i, (a, o) in enumerate(zip(case["acts"], obs)):
            print("  %2d %-34s -> %s%s" % (i, json.dumps(rp.inputs(a, G_INPUT - {"kf"})), json.dumps(o),
                                           "" if exp[i] == o else "   EXPECTED (recorded) %s" % json.dumps(exp[i])))
        openf = {f["id"] for f in core.open_findings(PROP)}
        d = next((i for i in range(len(exp)) if i >= len(obs) or exp[i] != obs[i]), None)
        if d is None:
            return 0
        if case["acts"][d].get("nest") == 1 and "F3f" in openf:
            print("KNOWN-FINDING: property=%s F3f" % PROP)
            return 0
        print("VIOLATION property=%s replay=%s" % (PROP, path))
        return 1
    if obj.get("component") == "introspect":
        core.build_harness("h_runtime", "introspect")
        res = rp.run_cases("h_runtime", "introspect", [case], wd, tag="replay", input_keys=I_INPUT)[0]
        if res.get("panic"):
            print("panic in the introspection layer:", res["panic"])
            print("VIOLATION property=%s replay=%s" % (PROP, path))
            return 1
        for i, (a, o) in enumerate(zip(case["acts"], res.get("obs", []))):
            print("  %2d %-30s -> %s" % (i, json.dumps(rp.inputs(a, I_INPUT)), json.dumps(o)))
        openf = {f["id"] for f in core.open_findings(PROP)}
        v = PBatch(wd, openf & {"F3d", "F3e"}, module="Trace_Introspection", trace_of=i_trace).validate([(case, res)])[0]
        print("P verdict:", {k: (sorted(x) if isinstance(x, set) else x) for k, x in v.items()})
        if not v["accepted"]:
            print("VIOLATION property=%s replay=%s" % (PROP, path))
            return 1
        for f in sorted(v["kf"]):
            print("KNOWN-FINDING: property=%s %s" % (PROP, f))
        return 0
    core.build_harness("h_runtime", "links")
    res = rp.run_cases("h_runtime", "links", [case], wd, tag="replay", input_keys=INPUT_KEYS)[0]
    if res.get("panic"):
        print("panic in the code under test:", res["panic"])
        print("VIOLATION property=%s replay=%s" % (PROP, path))
        return 1
    exp = [norm_step(a["k"], rp.project(a, INPUT_KEYS)) for a in case["acts"]]
    obs = [norm_step(a["k"], o) for a, o in zip(case["acts"], res.get("obs", []))]
    d = next((i for i in range(len(exp)) if i >= len(obs) or exp[i] != obs[i]), None)
    print("first divergence from M (as recorded in the replay file) at step:", d)
    for i, (a, o) in enumerate(zip(case["acts"], res.get("obs", []))):
        print("  %2d %-28s -> %s" % (i, json.dumps(rp.inputs(a, INPUT_KEYS - {"kf"})), json.dumps(o.get("s"))))
    openf = {f["id"] for f in core.open_findings(PROP)}
    v = PBatch(wd, openf).validate([(case, res)])[0]
    print("P verdict:", {k: (sorted(x) if isinstance(x, set) else x) for k, x in v.items()})
    if not v["accepted"]:
        print("VIOLATION property=%s replay=%s" % (PROP, path))
        return 1
    for f in sorted(v["kf"]):
        print("KNOWN-FINDING: property=%s %s" % (PROP, f))
    return 0

"""C14 - supply lanes, command lanes and agent-sent commands are never coalesced.

B2 (configuration E): TLC-generated environment scripts (AgentEnv.tla): bursts of instruction commands that make
the agent push to its supply lane and send commands to other lanes, with slow / stalled remotes on small
channels; the recorded log is validated against Trace_NoCoalesce.tla (P).
B1/B3 (configuration K): CommandOutput.tla model-checked and replayed on the real CommandOutput
(checks/k_cmdoutput.py).
"""
import json, os
from vlib import core
from checks import e2e

CONSTS = {"Remotes": {1, 2, 3}, "Targets": {"/t1", "/t2"}}


def profiles(tier):
    q = tier == "quick"
    return [
        dict(n=60 if q else 800, maxlen=22, nremotes=2, caps=(16, 64, 4096), vlanes=[], mlanes=[], slanes=["sup"], usecmd=True, faults=("drop",), burst=True),
        dict(n=50 if q else 800, maxlen=30, nremotes=3, caps=(16, 32), vlanes=["val"], mlanes=[], slanes=["sup"], usecmd=True, faults=(), burst=False),
        dict(n=40 if q else 600, maxlen=22, nremotes=2, caps=(16, 4096), vlanes=[], mlanes=[], slanes=["sup"], usecmd=True, faults=("rich",), advances=(25, 60), burst=True),
    ]


def bursts(tier):
    """long bursts of supply pushes / sends far above the channel capacity, with a stalled remote / target"""
    out = []
    for n in ((30, 120) if tier == "quick" else (30, 120, 400)):
        for cap in (16, 64):
            for stall in (True, False):
                acts = [{"k": "attach", "r": 1, "cap": cap}, {"k": "attach", "r": 2, "cap": 4096},
                        {"k": "send", "r": 1, "lane": "sup", "op": "link"}, {"k": "send", "r": 2, "lane": "sup", "op": "sync"},
                        {"k": "read", "r": 1, "n": 1}, {"k": "read", "r": 2, "n": 0}]
                v = 1
                for i in range(n // 3):
                    prog = [{"i": "sup", "v": v}, {"i": "send", "target": "t1", "v": v + 1}, {"i": "sup", "v": v + 2}]
                    acts.append({"k": "send", "r": 2, "lane": "cmd", "op": "cmd", "m": "prog", "prog": prog, "tag": v, "nosettle": True})
                    v += 3
                    if not stall and i % 5 == 4:
                        acts.append({"k": "read", "r": 1, "n": 3})
                out.append(acts)
    return out


def command_bursts(tier):
    """bursts of agent-sent commands (ad hoc and through registered commanders, overwritable and queued) that overflow
    the channel between the agent and the runtime's links task: its frames are then cut at arbitrary offsets"""
    out = []
    for n in ((12, 40) if tier == "quick" else (12, 40, 150)):
        acts = [{"k": "attach", "r": 1, "cap": 4096}]
        v = 1
        for i in range(n):
            kind = i % 4
            if kind == 0:
                prog = [{"i": "cqueue", "target": "t1", "v": v}, {"i": "send", "target": "t2", "v": v + 1}, {"i": "cqueue", "target": "t1", "v": v + 2}]
            elif kind == 1:
                prog = [{"i": "send", "target": "t1", "v": v}, {"i": "send", "target": "t1", "v": v + 1}, {"i": "cqueue", "target": "t2", "v": v + 2}]
            elif kind == 2:
                prog = [{"i": "csend", "target": "t2", "v": v}, {"i": "cqueue", "target": "t2", "v": v + 1}, {"i": "send", "target": "t1", "v": v + 2}]
            else:
                prog = [{"i": "cqueue", "target": "t1", "v": v}, {"i": "cqueue", "target": "t2", "v": v + 1}, {"i": "cqueue", "target": "t1", "v": v + 2}]
            acts.append({"k": "send", "r": 1, "lane": "cmd", "op": "cmd", "m": "prog", "prog": prog, "tag": v, "nosettle": i % 3 != 2})
            v += 3
        out.append(acts)
    return out


def run(tier, out):
    wd = core.workdir("C14")
    core.build_harness("h_runtime", "e2e")
    tot_cases = tot_events = 0
    batches = []
    for pi, p in enumerate(profiles(tier)):
        scripts, r = e2e.gen_scripts(wd, seed=core.seed() + 40 * pi, tag="env%d" % pi, **p)
        out.add(states=r.generated, transitions=r.generated)
        batches.append(("profile %d" % pi, scripts, {}))
    batches.append(("bursts", bursts(tier), {"target_cap": 64}))
    for cb in (17, 23, 31, 40, 64):
        batches.append(("command bursts, %d-byte command channel" % cb, command_bursts(tier), {"cmd_buf": cb, "target_cap": 4096 if cb % 2 else 64}))
    for bi, (name, scripts, cfg) in enumerate(batches):
        cases, results = e2e.run_scripts(wd, scripts, dict({"store": False}, **cfg), tag="run%d" % bi)
        acc, rej, nev = e2e.validate_cases(out, "C14", "Trace_NoCoalesce", cases, results, e2e.proj_nocoalesce, CONSTS, wd,
                                           "no coalescing (%s)" % name, tag="tv%d" % bi)
        core.log("[C14] %s: %d scripts, %d projected events, accepted=%d rejected=%d" % (name, len(cases), nev, acc, rej))
        tot_cases += acc
        tot_events += nev
        if bi == 0 and cases:
            out.sample({"script": cases[0]["acts"][:8], "projected": e2e.proj_nocoalesce(results[0]["log"])[:16]})
    try:
        from checks import k_cmdoutput
        k_cmdoutput.run_k(tier, out, os.path.join(wd, "k"))
    except ImportError:
        out.notes.append("component-level CommandOutput check not present")
    from checks import k_writetask
    k_writetask.run_k(tier, out, os.path.join(wd, "kwt"), prop="C14", only=("KindS", "KindVS"))
    from checks import k_lanes
    k_lanes.run_k(tier, out, os.path.join(wd, "klanes"), prop="C14")
    out.add(traces_validated_against_impl=tot_cases, trace_events_validated=tot_events,
            rule="scripts are behaviours of AgentEnv.tla (TLC simulation, seeded) plus long bursts; every recorded execution of the real agent+runtime is validated against Trace_NoCoalesce.tla",
            checker_cmd="tlc -simulate AgentEnv; h_runtime/e2e; tlc Trace_NoCoalesce (POSTCONDITION TraceAccepted)")
    out.assumptions += ["single-threaded paused tokio runtime: the log order is the causal order",
                        "agent-sent commands in configuration E are overwritable (send_command); non-overwritable ones are covered at component level"]


def replay(path, out):
    obj = json.load(open(path))["replay"]
    if obj.get("component") == "lanes":
        from checks import k_lanes
        return k_lanes.replay(path, out)
    if str(obj.get("component", "")).startswith("WriteTask"):
        from checks import k_writetask
        return k_writetask.replay(path, out)
    if obj.get("component") != "e2e":
        from checks import k_cmdoutput
        return k_cmdoutput.replay(path, out)
    wd = core.workdir("C14_replay")
    case = obj["case"]
    cases, results = e2e.run_scripts(wd, [case["acts"]], case.get("cfg", {}), tag="replay", final=(), vary=False)
    ev = e2e.proj_nocoalesce(results[0]["log"])
    res = e2e.validate("Trace_NoCoalesce", ev, os.path.join(wd, "tv"), CONSTS)
    print(json.dumps(res))
    if not res["accepted"]:
        print("rejected at", ev[res["matched"]] if res["matched"] < len(ev) else None)
        print("VIOLATION property=C14 replay=%s" % path)
        return 1
    return 0

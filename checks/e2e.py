"""Configuration E (real agent + real runtime + recording store): script generation from
specs/AgentEnv.tla, concretisation, execution by harness/h_runtime/src/bin/e2e.rs, projection of
the recorded log for the property trace specifications, validation by TLC.

Used by the checks of C01, C02, C03, C04, C05, C14 (and the B2 part of C20)."""
import json, os, re, random
from vlib import core

ALL_VLANES = ["val", "val2", "tval"]
ALL_MLANES = ["map", "omap", "tmap"]
PERSISTENT = {"val", "val2", "map", "omap"}


# ----------------------------------------------------------------------------- generation

def gen_scripts(wd, n, maxlen, seed, nremotes=2, caps=(16, 64, 4096), vlanes=("val",), mlanes=(), slanes=(),
                usecmd=False, keys=(1, 2), faults=(), tag="env", burst=False, advances=()):
    """n behaviours of AgentEnv.tla by TLC simulation (seeded)."""
    consts = {"NRemotes": nremotes, "MaxLen": maxlen, "Caps": set(caps), "VLanes": set(vlanes),
              "MLanes": set(mlanes), "SLanes": set(slanes), "UseCmd": usecmd, "Keys": set(keys),
              "Faults": set(faults), "Burst": burst, "Advances": set(advances)}
    c = core.cfg(constants=consts)
    r = core.run_tlc("AgentEnv", c, os.path.join(wd, tag), workers=1, simulate="num=%d" % n,
                     extra=["-depth", str(2 * maxlen + 4), "-seed", str(seed)], coverage=False, timeout=600)
    return r.tagged["SCRIPT"], r


def instr_text(ins):
    i = ins["i"]
    if i == "set":
        return "set %s %d" % (ins["lane"], ins["v"])
    if i == "upd":
        return "upd %s %d %d" % (ins["lane"], ins["key"], ins["v"])
    if i == "rem":
        return "rem %s %d" % (ins["lane"], ins["key"])
    if i == "clr":
        return "clr %s" % ins["lane"]
    if i == "sup":
        return "sup %d" % ins["v"]
    if i == "send":
        return "send /%s in %d" % (ins["target"], ins["v"])
    if i == "get":
        return "get %s" % ins["lane"]
    if i == "tv":
        return "tv %s %d" % (ins["lane"], ins["v"])
    if i == "te":
        return "te %s %d %d" % (ins["lane"], ins["key"], ins["v"])
    if i == "ter":
        return "ter %s %d" % (ins["lane"], ins["key"])
    if i == "rmap":
        return "rmap %s %d %d" % (ins["lane"], ins["key"], ins["v"])
    if i == "later":
        return "later %d %s" % (ins["ms"], instr_text(ins["then"]))
    if i == "susp":
        return "susp %s" % instr_text(ins["then"])
    if i in ("csend", "cqueue"):
        return "%s /%s %d" % (i, ins["target"], ins["v"])
    if i == "trigstop":
        return "trigstop"
    raise ValueError(ins)


def body_of(act):
    m = act.get("m")
    if m == "set" or m == "raw":
        return str(act["v"])
    if m == "upd":
        return "@update(key:%d) %d" % (act["key"], act["v"])
    if m == "rem":
        return "@remove(key:%d)" % act["key"]
    if m == "clr":
        return "@clear"
    if m == "take":
        return "@take(%d)" % act["n"]
    if m == "drop":
        return "@drop(%d)" % act["n"]
    if m == "badv":
        return '"x"'
    if m == "badm":
        return "@bogus"
    if m == "prog":
        text = "; ".join(instr_text(x) for x in act["prog"]) + "; tag %s" % act.get("tag", 0)
        return '"%s"' % text
    if "body" in act:
        return act["body"]
    return ""


def concretise(script, final=("quiesce", "stop")):
    acts = []
    for a in script:
        a = dict(a)
        if a["k"] == "send" and a["op"] == "cmd":
            a["body"] = body_of(a)
        acts.append(a)
    for f in final:
        acts.append({"k": f})
    return acts


LANE_OUT = (None, 16, 8, 48, None, 96, 8)


def run_scripts(wd, scripts, cfg, tag="e2e", final=("quiesce", "stop"), vary=True):
    """vary: cycle the size of the agent's lane output buffers over the cases (None = default 4096): small
    buffers make lane writes block so that the agent loop interleaves requests with a lane's pending output"""
    cases = []
    for i, s in enumerate(scripts):
        c = dict(cfg)
        lo = LANE_OUT[i % len(LANE_OUT)] if vary and "lane_out" not in c else None
        if lo:
            c["lane_out"] = lo
        cases.append({"id": i, "cfg": c, "acts": concretise(s, final)})
    inp, outp = os.path.join(wd, tag + ".in.ndjson"), os.path.join(wd, tag + ".out.ndjson")
    core.write_ndjson(inp, cases)
    core.run_harness("h_runtime", ["e2e"], stdin_path=inp, stdout_path=outp, timeout=3000)
    res = core.read_ndjson(outp)
    if len(res) != len(cases):
        raise core.ToolError("e2e harness answered %d of %d cases" % (len(res), len(cases)))
    return cases, res


# ----------------------------------------------------------------------------- body parsing (pure, no guessing)

_INT = re.compile(r"^-?\d+$")
_UPD = re.compile(r"^@update\(key:(-?\d+)\)\s*(-?\d+)$")
_REM = re.compile(r"^@remove\(key:(-?\d+)\)$")


def parse_int(body):
    if body is not None and _INT.match(body.strip()):
        v = int(body.strip())
        if -2**31 < v < 2**31:
            return v
    return None


def parse_map_op(body):
    if body is None:
        return None
    b = body.strip()
    m = _UPD.match(b)
    if m:
        return {"op": "upd", "k": int(m.group(1)), "v": int(m.group(2))}
    m = _REM.match(b)
    if m:
        return {"op": "rem", "k": int(m.group(1))}
    if b == "@clear":
        return {"op": "clr"}
    return None


def max_remote(log):
    m = 1
    for e in log:
        if "r" in e:
            m = max(m, e["r"])
    return m


# ----------------------------------------------------------------------------- projections

def proj_value(log, vlanes):
    """events of Trace_ValueView.tla"""
    out = [{"e": "reset"}]
    first_start = True
    for e in log:
        k = e["e"]
        if k == "start":
            if not first_start:
                out.append({"e": "init", "vals": {l: e.get(l, 0) for l in vlanes}})
            first_start = False
        elif k == "lane" and e["lane"] in vlanes and e["op"] == "set":
            out.append({"e": "set", "lane": e["lane"], "v": e["v"]})
        elif k == "req" and e["lane"] in vlanes and e["op"] in ("link", "sync", "unlink"):
            out.append({"e": "req", "r": e["r"], "lane": e["lane"], "op": e["op"]})
        elif k == "frame" and e["lane"] in vlanes:
            f = {"e": "frame", "r": e["r"], "lane": e["lane"], "kind": e["kind"]}
            if e["kind"] == "event":
                v = parse_int(e.get("body"))
                if v is None:
                    f["bad"] = True
                    f["v"] = 0
                else:
                    f["v"] = v
            out.append(f)
        elif k in ("drop", "dropread", "eof", "frame_error"):
            out.append({"e": "gone", "r": e["r"]})
        elif k in ("stopping", "stop"):
            out.append({"e": "stopping"})
        elif k == "quiescent":
            out.append({"e": "quiescent", "drained": e["drained"]})
    return out


def validate(module, events, wd, constants, timeout=900):
    return core.trace_validate(module, events, wd, constants=constants, timeout=timeout)


def locate_case(events_per_case, matched):
    """which case (index) contains concatenated event number `matched` (0-based index of first unmatched)"""
    n = 0
    for idx, ev in enumerate(events_per_case):
        if matched < n + len(ev):
            return idx, matched - n
        n += len(ev)
    return len(events_per_case) - 1, 0


def validate_cases(out, prop, module, cases, results, project, constants, wd, what, tag="tv", kf_handler=None):
    """Project every log, validate the concatenation in one TLC run; on rejection isolate the failing
    case, report it, and continue with the rest.  Returns (accepted_cases, rejected_cases)."""
    per_case = []
    hist = out.cov.setdefault("p_event_histogram", {})
    for c, r in zip(cases, results):
        ev = project(r["log"])
        per_case.append(ev)
        for e in ev:       # which P actions the recorded executions exercised (vacuity check)
            key = module + ":" + e["e"] + ("/" + str(e.get("kind") or e.get("op") or e.get("m")) if (e.get("kind") or e.get("op") or e.get("m")) else "")
            hist[key] = hist.get(key, 0) + 1
    pending = list(range(len(cases)))
    accepted = 0
    rejected = 0
    rounds = 0
    # panics / hangs in code under test are P rejections by themselves
    for idx in list(pending):
        r = results[idx]
        bad = r.get("panic") or any(e["e"] in ("agent_panic", "hang") for e in r["log"])
        if bad:
            what_bad = r.get("panic") or [e for e in r["log"] if e["e"] in ("agent_panic", "hang")][0]
            out.violation("%s: the code under test panicked or hung: %s" % (what, json.dumps(what_bad)[:300]),
                          {"component": "e2e", "case": cases[idx], "log": r["log"]})
            pending.remove(idx)
            rejected += 1
    while pending and rounds < 12:
        rounds += 1
        evs = []
        for idx in pending:
            evs += per_case[idx]
        res = validate(module, evs, os.path.join(wd, "%s_%d" % (tag, rounds)), constants)
        out.add(states=res.get("states", 0), transitions=res.get("generated", 0))
        for k in res.get("kf", []) or []:
            if kf_handler:
                kf_handler(k)
            else:
                hit = [f for f in core.known_findings() if f["id"] == k and f["status"] == "open"]
                out.known_finding("%s %s" % (k, hit[0]["what"] if hit else "(deviation action taken)"))
        if res["accepted"]:
            accepted += len(pending)
            pending = []
            break
        pos, off = locate_case([per_case[i] for i in pending], res["matched"])
        idx = pending[pos]
        accepted += pos
        ev = per_case[idx][off] if off < len(per_case[idx]) else None
        # confirm in isolation (so that the verdict does not depend on neighbouring cases)
        solo = validate(module, per_case[idx], os.path.join(wd, "%s_%d_solo" % (tag, rounds)), constants)
        if not solo["accepted"]:
            off = solo["matched"]
            ev = per_case[idx][off] if off < len(per_case[idx]) else None
            out.violation("%s: P (%s) rejects the recorded execution at event %d: %s ; preceding: %s" % (
                what, module, off, json.dumps(ev), json.dumps(per_case[idx][max(0, off - 4):off])),
                {"component": "e2e", "module": module, "constants": {k: sorted(v) if isinstance(v, (set, frozenset)) else v for k, v in constants.items()},
                 "case": cases[idx], "log": results[idx]["log"], "projected": per_case[idx], "rejected_at": off})
            rejected += 1
        else:
            accepted += 1
        pending = pending[pos + 1:]
    if pending:
        out.notes.append("%d cases not validated after %d rejections (capped)" % (len(pending), rounds))
    return accepted, rejected, sum(len(p) for p in per_case)


# ----------------------------------------------------------------------------- C04 projection

AGENT_LANES = ["val", "val2", "tval", "map", "omap", "tmap", "sup", "cmd"]
SYNC_LANES = ["val", "val2", "tval", "map", "omap", "tmap", "sup"]


def render_map_op(e):
    if e["op"] == "upd":
        return "@update(key:%d) %d" % (e["k"], e["v"])
    if e["op"] == "rem":
        return "@remove(key:%d)" % e["k"]
    return "@clear"


def proj_link(log):
    """events of Trace_LinkProtocol.tla"""
    out = [{"e": "reset"}]
    first_start = True
    clean = False
    for e in log:
        k = e["e"]
        if k == "start":
            if not first_start:
                out.append({"e": "restart"})
            first_start = False
            for l in ALL_VLANES:
                out.append({"e": "produce", "lane": l, "body": str(e.get(l, 0))})
            for l in ALL_MLANES:
                for (kk, vv) in e.get(l, []):
                    out.append({"e": "produce", "lane": l, "body": "@update(key:%d) %d" % (kk, vv)})
        elif k == "lane" and e["lane"] in ALL_VLANES and e["op"] == "set":
            out.append({"e": "produce", "lane": e["lane"], "body": str(e["v"])})
        elif k == "lane" and e["lane"] in ALL_MLANES:
            out.append({"e": "produce", "lane": e["lane"], "body": render_map_op(e)})
        elif k == "supply":
            out.append({"e": "produce", "lane": e["lane"], "body": str(e["v"])})
        elif k == "req":
            out.append({"e": "req", "r": e["r"], "lane": e["lane"], "op": e["op"]})
        elif k == "frame":
            f = {"e": "frame", "r": e["r"], "lane": e["lane"], "kind": e["kind"]}
            if "body" in e:
                f["body"] = e["body"]
            if "node" in e or "origin" in e:
                f["kind"] = "misaddressed"      # wrong node uri / origin: no P action matches
            out.append(f)
        elif k in ("drop", "dropread", "eof"):
            out.append({"e": "gone", "r": e["r"]})
        elif k == "frame_error":
            out.append({"e": "trunc", "r": e["r"]})
        elif k == "closed":
            out.append({"e": "closed", "r": e["r"]})
            if e.get("reason") in ("RemoteTimedOut", "ChannelClosed") or str(e.get("reason", "")).startswith("DuplicateRegistration"):
                # the runtime has dropped this remote (pruned after being idle without links, its channel
                # failed, or its id was registered again): nothing further is owed to it
                out.append({"e": "gone", "r": e["r"]})
        elif k == "quiescent":
            out.append({"e": "quiescent", "drained": e["drained"]})
        elif k == "stopped":
            clean = e.get("result") == "ok" and not e.get("spontaneous")
            out.append({"e": "end", "clean": clean})
        elif k == "killed":
            out.append({"e": "end", "clean": False})
    return out


# ----------------------------------------------------------------------------- C02 / C03 map projection

_TD = re.compile(r"^@(take|drop)\((\d+)\)$")


def proj_map(log, mlanes, keys=(1, 2, 3)):
    """events of Trace_MapReplica.tla"""
    out = [{"e": "reset"}]
    first_start = True
    unsettled = False
    deferred = 0          # instructions waiting for a timer / suspended: they may run at any later moment
    for e in log:
        k = e["e"]
        if k == "settled":
            unsettled = False
            continue
        if k == "req" and e.get("ns"):
            unsettled = True
        if k == "cmdh":
            deferred += len(re.findall(r"(?:^|; *)(?:later|susp) ", e.get("v", "")))
        if k == "deferred":
            deferred = max(0, deferred - 1)
        if k == "start":
            deferred = 0
            if not first_start:
                maps = {}
                for l in mlanes:
                    d = dict((kk, vv) for kk, vv in e.get(l, []))
                    maps[l] = {str(kk): d.get(kk, -1) for kk in keys}
                # JSON object keys are strings; the spec indexes by integer keys -> give a sequence indexed 1..n
                out.append({"e": "init", "maps": {l: [d2 for d2 in (maps[l][str(kk)] for kk in keys)] for l in mlanes}})
            first_start = False
        elif k == "store" and e.get("item") in mlanes and e.get("op") in ("clr", "upd", "rem"):
            kk, vv = parse_int(e.get("key")), parse_int(e.get("body"))
            if e["op"] == "clr":
                out.append({"e": "sclr", "lane": e["item"]})
            elif e["op"] == "upd" and kk is not None and vv is not None:
                out.append({"e": "supd", "lane": e["item"], "k": kk, "v": vv})
            elif e["op"] == "rem" and kk is not None:
                out.append({"e": "srem", "lane": e["item"], "k": kk})
        elif k == "lane" and e["lane"] in mlanes:
            o = {"e": "op", "lane": e["lane"], "m": e["op"]}
            if e["op"] in ("upd", "rem"):
                o["k"] = e["k"]
            if e["op"] == "upd":
                o["v"] = e["v"]
            out.append(o)
        elif k == "req" and e["lane"] in mlanes:
            if e["op"] in ("link", "sync", "unlink"):
                out.append({"e": "req", "r": e["r"], "lane": e["lane"], "op": e["op"]})
            else:
                m = _TD.match(e.get("body", "").strip())
                if m and not unsettled and deferred == 0:
                    out.append({"e": "td", "lane": e["lane"], "m": m.group(1), "n": int(m.group(2))})
                else:
                    out.append({"e": "mark"})
        elif k == "req":
            out.append({"e": "mark"})
        elif k == "frame" and e["lane"] in mlanes:
            f = {"e": "frame", "r": e["r"], "lane": e["lane"], "kind": e["kind"]}
            if e["kind"] == "event":
                op = parse_map_op(e.get("body"))
                if op is None:
                    f["bad"] = True
                    f["m"] = "bad"
                else:
                    f["m"] = op["op"]
                    if "k" in op:
                        f["k"] = op["k"]
                    if "v" in op:
                        f["v"] = op["v"]
            out.append(f)
        elif k in ("drop", "dropread", "eof", "frame_error"):
            out.append({"e": "gone", "r": e["r"]})
        elif k in ("stopping", "stop"):
            out.append({"e": "stopping"})
        elif k == "quiescent":
            out.append({"e": "quiescent", "drained": e["drained"]})
    return out


# ----------------------------------------------------------------------------- C14 projection

_TAG = re.compile(r"tag (\d+)")


def proj_nocoalesce(log, slane="sup", clane="cmd"):
    """events of Trace_NoCoalesce.tla"""
    out = [{"e": "reset"}]
    first_start = True
    for e in log:
        k = e["e"]
        if k == "start":
            if not first_start:
                out.append({"e": "restart"})
            first_start = False
        elif k == "supply":
            out.append({"e": "push", "v": e["v"]})
        elif k == "req" and e["lane"] == slane and e["op"] in ("link", "sync", "unlink"):
            out.append({"e": "req", "r": e["r"], "op": e["op"]})
        elif k == "req" and e["lane"] == clane and e["op"] == "cmd":
            m = _TAG.search(e.get("body", ""))
            out.append({"e": "csent", "r": e["r"], "tag": int(m.group(1)) if m else -1})
        elif k == "cmdh":
            m = _TAG.search(e.get("v", ""))
            out.append({"e": "chand", "tag": int(m.group(1)) if m else -2})
        elif k == "frame" and e["lane"] == slane:
            f = {"e": "frame", "r": e["r"], "kind": e["kind"]}
            if e["kind"] == "event":
                v = parse_int(e.get("body"))
                if v is None:
                    f["bad"] = True
                    f["v"] = 0
                else:
                    f["v"] = v
            out.append(f)
        elif k == "sent":
            out.append({"e": "asent", "t": e["node"], "v": e["v"], "ow": bool(e.get("ow", True))})
        elif k == "out":
            v = parse_int(e.get("body"))
            out.append({"e": "aout", "t": e["node"], "v": v if v is not None else -999})
        elif k in ("drop", "dropread", "eof", "frame_error"):
            out.append({"e": "gone", "r": e["r"]})
        elif k in ("stopping", "stop"):
            out.append({"e": "stopping"})
        elif k == "quiescent":
            out.append({"e": "quiescent", "drained": e["drained"], "targets_drained": True})
    return out


# ----------------------------------------------------------------------------- C05 projection

P_VALS = ["val", "val2", "vstore"]
P_MAPS = ["map", "omap", "mstore"]
T_VALS = ["tval"]
T_MAPS = ["tmap"]


def proj_persist(log, keys=(1, 2, 3)):
    """events of Trace_Persistence.tla"""
    out = [{"e": "reset"}]
    first = True
    for e in log:
        k = e["e"]
        if k == "store":
            item, op = e["item"], e["op"]
            if op == "put":
                v = parse_int(e.get("body"))
                out.append({"e": "sput", "item": item, "v": v} if v is not None else {"e": "sbad", "item": item})
            elif op == "del":
                out.append({"e": "sdel", "item": item})
            elif op == "upd":
                kk, v = parse_int(e.get("key")), parse_int(e.get("body"))
                out.append({"e": "supd", "item": item, "k": kk, "v": v} if kk is not None and v is not None else {"e": "sbad", "item": item})
            elif op == "rem":
                kk = parse_int(e.get("key"))
                out.append({"e": "srem", "item": item, "k": kk} if kk is not None else {"e": "sbad", "item": item})
            elif op == "clr":
                out.append({"e": "sclr", "item": item})
        elif k == "frame" and e["kind"] == "event":
            if e["lane"] in ALL_VLANES:
                v = parse_int(e.get("body"))
                out.append({"e": "vframe", "lane": e["lane"], "v": v if v is not None else -999})
            elif e["lane"] in ALL_MLANES:
                op = parse_map_op(e.get("body"))
                if op is None:
                    out.append({"e": "mframe", "lane": e["lane"], "m": "bad", "k": -1, "v": -1})
                else:
                    out.append({"e": "mframe", "lane": e["lane"], "m": op["op"], "k": op.get("k", -1), "v": op.get("v", -1)})
        elif k == "start":
            vals = {x: e.get(x, 0) for x in P_VALS + T_VALS}
            maps = {}
            for x in P_MAPS + T_MAPS:
                d = dict((kk, vv) for kk, vv in e.get(x, []))
                extra = [kk for kk in d if kk not in keys]
                maps[x] = [d.get(kk, -1) for kk in keys] if not extra else [-777 for _ in keys]
            out.append({"e": "start", "first": first, "vals": vals, "maps": maps})
            first = False
    return out


# ----------------------------------------------------------------------------- inactivity (use of the timeout coordinator)

def proj_inactivity(log):
    """events of Trace_Inactivity.tla"""
    out = [{"e": "reset"}]
    timed_out = False
    for e in log:
        k = e["e"]
        if k in ("attach", "req"):
            out.append({"e": "act"})
        elif k == "advance":
            out.append({"e": "adv", "ms": e["ms"]})
        elif k == "closed":
            if e.get("reason") == "AgentTimedOut":
                timed_out = True
        elif k == "stopped":
            out.append({"e": "stopped", "timedout": bool(e.get("spontaneous")) and timed_out})
        elif k in ("restart", "killed"):
            break
    out.append({"e": "end"})
    return out

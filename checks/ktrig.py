"""./check KTRIG - the component-level check of the one-shot trigger and the promise of swimos_trigger (the stop signal of
every agent / runtime task) on its own.  See checks/k_trigger.py (the C17 check can call run_k from there).

Verdict lines carry the property id C17; the evidence of a stand-alone run goes to evidence/KTRIG.json so that it
does not overwrite the evidence of the full C17 check."""
import os, shutil
from vlib import core
from checks import k_trigger

PROP = "C17"


def run(tier, out):
    wd = core.workdir("KTRIG")
    out.prop = PROP                      # VIOLATION / KNOWN-FINDING lines and replays/ directory
    k_trigger.run_k(tier, out, wd, prop=PROP)
    orig_finish = out.finish

    def finish():
        real = core.EVIDENCE
        tmp = os.path.join(wd, "evidence")
        core.EVIDENCE = tmp
        try:
            rc = orig_finish()
        finally:
            core.EVIDENCE = real
        os.makedirs(real, exist_ok=True)
        ev = os.path.join(tmp, "%s.json" % PROP)
        shutil.copy(ev, os.path.join(real, "KTRIG.json"))
        return rc
    out.finish = finish


def replay(path, out):
    out.prop = PROP
    return k_trigger.replay(path, out)

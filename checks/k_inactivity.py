"""C17, second part: the USE of the inactivity coordinator by the agent runtime (read / write / http tasks).
Scripts (behaviours of AgentEnv.tla with clock advances) are run against the real agent + runtime with a short
inactive_timeout under an explicitly advanced paused clock; the log is validated against Trace_Inactivity.tla:
the agent stops for inactivity only when every task has been idle for the whole timeout, and does stop then."""
import os
from vlib import core
from checks import e2e

TIMEOUT = 1000


def run_use(tier, out, wd=None):
    wd = wd or core.workdir("C17_use")
    core.build_harness("h_runtime", "e2e")
    q = tier == "quick"
    tot = stops = 0
    for pi, p in enumerate([
        dict(n=60 if q else 800, maxlen=18, nremotes=2, caps=(64, 4096), vlanes=["val"], advances=(300, 700, 1100)),
        dict(n=40 if q else 600, maxlen=26, nremotes=3, caps=(4096,), vlanes=["val", "val2"], mlanes=["map"], usecmd=True, advances=(100, 500, 900)),
    ]):
        scripts, r = e2e.gen_scripts(wd, seed=core.seed() + 70 * pi, tag="envI%d" % pi, **p)
        cases, results = e2e.run_scripts(wd, scripts, {"inactive_ms": TIMEOUT, "drain_after_advance": True}, tag="runI%d" % pi,
                                         final=(), vary=False)
        acc, rej, nev = e2e.validate_cases(out, "C17", "Trace_Inactivity", cases, results, e2e.proj_inactivity,
                                           {"Timeout": TIMEOUT, "Slack": 100}, wd, "inactivity shutdown (profile %d)" % pi, tag="tvI%d" % pi)
        s = sum(1 for r_ in results for e in r_["log"] if e["e"] == "stopped" and e.get("spontaneous"))
        core.log("[C17-use] profile %d: %d scripts, %d projected events, %d inactivity stops observed, accepted=%d rejected=%d" % (
            pi, len(cases), nev, s, acc, rej))
        tot += acc
        stops += s
        out.add(states=r.generated, transitions=r.generated)
    out.add(traces_validated_against_impl=tot, inactivity_stops_observed=stops)
    return tot

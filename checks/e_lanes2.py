"""Configuration E for the lane kinds the other E checks do not address: the demand lane `dem`, the demand-map
lane `dmap` and the HTTP lane `http` of the harness agent (harness/h_runtime/src/bin/e2e.rs), and the HTTP task of
the agent runtime (routing by lane name, not-found).

Scripts are behaviours of specs/AgentEnv.tla with the features "demand" / "http" (TLC simulation, seeded); they are
executed against the real agent + runtime; the one recorded log is projected (pure parsing) for

  * specs/Trace_Demand.tla        what a demand / demand-map lane sends is what it computed, in order, never stale,
                                  a sync delivers what was computed for it (hidden request model as in Trace_ValueView)
  * specs/Trace_Http.tla          every HTTP request is answered exactly once by what its own handler computed;
                                  unknown lanes are answered 404; drops only while the agent stops
  * specs/Trace_LinkProtocol.tla  the WARP link state machine applies to the stateless lanes as to every lane kind
  * specs/Trace_ValueView.tla     (HTTP scripts) what PUT / POST write to `val` is seen by the subscribers of `val`

Entry points: run_e(tier, out, wd, prop) (called from checks/c04.py), replay(path, out).
"""
import json, os, re
from vlib import core
from checks import e2e

DLANES = ["dem", "dmap"]
KEYS = (1, 2, 3)

LINK_CONSTS = {"Lanes": set(e2e.AGENT_LANES) | set(DLANES), "SyncLanes": set(e2e.SYNC_LANES) | set(DLANES), "Remotes": {1, 2, 3}}
VALUE_CONSTS = {"VLanes": {"val"}, "Remotes": {1, 2, 3}}
HTTP_CONSTS = {}


def open_ids():
    return {f["id"] for f in core.known_findings() if f["status"] == "open"}


def demand_consts():
    return {"Remotes": {1, 2, 3}, "Keys": set(KEYS), "EnabledFindings": {x for x in ("F5",) if x in open_ids()}}


# ----------------------------------------------------------------------------- scripts

def instr_text(ins):
    if ins["i"] == "cue":
        return "cue %s" % ins["lane"]
    if ins["i"] == "cuek":
        return "cuek %s %d" % (ins["lane"], ins["key"])
    return e2e.instr_text(ins)


def prepare(script):
    """the abstract actions of the features "demand" / "http" made concrete (e2e.concretise passes them through)"""
    out = []
    for a in script:
        a = dict(a)
        if a["k"] == "send" and a.get("m") == "prog" and any(x["i"] in ("cue", "cuek") for x in a["prog"]):
            text = "; ".join(instr_text(x) for x in a["prog"]) + "; tag %s" % a.get("tag", 0)
            a = {"k": "send", "r": a["r"], "lane": a["lane"], "op": "cmd", "body": '"%s"' % text, "nosettle": a.get("nosettle", False)}
        elif a["k"] == "http":
            b = {"k": "http", "method": a["method"], "id": a["id"], "nosettle": a.get("nosettle", False)}
            if a["lane"] != "none":
                b["lane"] = a["lane"]
            if a["method"] in ("PUT", "POST"):
                b["body"] = '"x"' if a.get("bad") else str(a["v"])
            a = b
        out.append(a)
    return out


def populate(script, r=3):
    """a prefix that is itself a behaviour of AgentEnv.tla with one more remote: remote r attaches and fills `map` (so that
    the demand-map lane, a view of `map`, has something to compute from the start); r never links"""
    pre = [{"k": "attach", "r": r, "cap": 4096}]
    for k in KEYS:
        pre.append({"k": "send", "r": r, "lane": "map", "op": "cmd", "m": "upd", "key": k, "v": 100 + k, "nosettle": False})
    return pre + script


def anchors():
    """Directed behaviours of AgentEnv.tla ("demand", three remotes) around a sync of the demand-map lane that races with
    a change of what the lane computes from: a key is removed right after the sync request, so that on_cue_key may
    answer "no value" for a key the keys handler reported (the shape of finding KLANES-F1, repaired by 94639e4: the sync
    must carry on past such a key); then the key and the demand lane are cued while a second remote is linked (never
    stale).  (The order in which the lane visits the keys of a sync is the iteration order of a HashSet, so which of
    them meets the race varies from run to run.)"""
    def send(r, lane, op, ns=False, **kw):
        d = {"k": "send", "r": r, "lane": lane, "op": op, "nosettle": ns}
        d.update(kw)
        return d
    out = []
    for rep in range(2):
        for k in KEYS:
            s = [{"k": "attach", "r": 1, "cap": 4096}, send(1, "dmap", "sync", True), send(1, "map", "cmd", m="rem", key=k), {"k": "quiesce"},
                 {"k": "send", "r": 1, "lane": "cmd", "op": "cmd", "body": '"cuek dmap %d; cue dem; tag 0"' % k, "nosettle": False}]
            if rep:
                s = [{"k": "attach", "r": 2, "cap": 64}, send(2, "dmap", "link"), send(2, "dem", "sync")] + s
            out.append(populate(s))
    return out


def generate(wd, tag, seed, fill=False, **p):
    scripts, r = e2e.gen_scripts(wd, seed=seed, tag=tag, **p)
    scripts = [prepare(s) for s in scripts]
    if fill:
        scripts = [populate(s) if i % 3 else s for i, s in enumerate(scripts)]
    return scripts, r


# ----------------------------------------------------------------------------- projections (pure parsing)

def proj_demand(log):
    """events of Trace_Demand.tla"""
    out = [{"e": "reset"}]
    first = True
    for e in log:
        k = e["e"]
        if k == "start":
            if not first:
                out.append({"e": "reset"})          # a new instance: the lanes hold no state, every link is gone
            first = False
        elif k == "cue" and e.get("lane") == "dem":
            out.append({"e": "cue", "v": e["v"]})
        elif k == "cuei":
            o = {"e": "cuei", "lane": e["lane"]}
            if "k" in e:
                o["k"] = e["k"]
            out.append(o)
        elif k == "keys" and e.get("lane") == "dmap":
            out.append({"e": "keys", "keys": list(e["keys"])})
        elif k == "cuekey" and e.get("lane") == "dmap":
            out.append({"e": "cuekey", "k": e["k"], "v": e["v"] if e["v"] is not None else -1})
        elif k == "req" and e["lane"] in DLANES and e["op"] in ("link", "sync", "unlink"):
            out.append({"e": "req", "r": e["r"], "lane": e["lane"], "op": e["op"]})
        elif k == "frame" and e["lane"] in DLANES:
            f = {"e": "frame", "r": e["r"], "lane": e["lane"], "kind": e["kind"]}
            if e["kind"] == "event" and e["lane"] == "dem":
                v = e2e.parse_int(e.get("body"))
                if v is None:
                    f["bad"] = True
                    f["v"] = 0
                else:
                    f["v"] = v
            elif e["kind"] == "event":
                op = e2e.parse_map_op(e.get("body"))
                if op is None:
                    f["bad"] = True
                    f["m"] = "bad"
                else:
                    f["m"] = op["op"]
                    if "k" in op:
                        f["k"] = op["k"]
                    if "v" in op:
                        f["v"] = op["v"]
            out.append(f)
        elif k in ("drop", "dropread", "eof", "frame_error"):
            out.append({"e": "gone", "r": e["r"]})
        elif k in ("stopping", "stop"):
            out.append({"e": "stopping"})
        elif k == "quiescent":
            out.append({"e": "quiescent", "drained": e["drained"]})
    return out


def proj_http(log):
    """events of Trace_Http.tla"""
    out = [{"e": "reset"}]
    for e in log:
        k = e["e"]
        if k == "start":
            out.append({"e": "init", "v": e.get("val", 0)})
        elif k == "lane" and e["lane"] == "val" and e["op"] == "set":
            out.append({"e": "set", "v": e["v"]})
        elif k == "hreq":
            route = "lane" if e.get("lane") == "http" else ("none" if "lane" not in e else "unknown")
            o = {"e": "hreq", "id": e["id"], "method": e["method"], "route": route, "op": "%s:%s" % (e["method"], route)}
            if e["method"] in ("PUT", "POST"):
                v = e2e.parse_int(e.get("body"))
                if v is None:
                    o["pbad"] = True
                else:
                    o["pv"] = v
            out.append(o)
        elif k == "hhand":
            o = {"e": "hhand", "id": e["id"], "m": e["m"]}
            if "v" in e:
                o["v"] = e["v"]
            out.append(o)
        elif k == "hresp":
            body = e.get("body", "")
            o = {"e": "hresp", "id": e["id"], "status": e["status"], "blen": len(body.encode()), "kind": str(e["status"])}
            if body:
                v = e2e.parse_int(body)
                if v is None:
                    o["bbad"] = True
                else:
                    o["bv"] = v
            if "clen" in e:
                c = e2e.parse_int(e["clen"])
                o["clen"] = c if c is not None else -1
            out.append(o)
        elif k == "hdropped":
            if e.get("full"):
                raise core.ToolError("the harness' own HTTP request channel was full (too many requests back to back)")
            out.append({"e": "hdropped", "id": e["id"]})
        elif k in ("stopping", "stop", "killed", "aborted", "stopped", "agent_panic"):
            out.append({"e": "stopping"})
        elif k == "restart":
            out.append({"e": "restart"})
        elif k == "quiescent":
            out.append({"e": "quiescent"})
    out.append({"e": "final"})
    return out


def proj_link(log):
    """events of Trace_LinkProtocol.tla: what the stateless lanes computed is what they `produce`d (byte for byte the
    bodies of their event frames); everything else as e2e.proj_link"""
    log2 = []
    for e in log:
        if e["e"] == "cue" and e.get("lane") == "dem":
            log2.append({"e": "supply", "lane": "dem", "v": e["v"]})
        elif e["e"] == "cuekey" and e.get("lane") == "dmap":
            body = "@update(key:%d) %d" % (e["k"], e["v"]) if e["v"] is not None else "@remove(key:%d)" % e["k"]
            log2.append({"e": "supply", "lane": "dmap", "v": body})
        else:
            log2.append(e)
    return e2e.proj_link(log2)


# ----------------------------------------------------------------------------- validation

class Tagging:
    """An Outcome seen by e2e.validate_cases: replay files of this component are marked so that the check that called
    run_e can route `--replay` to e_lanes2.replay"""

    def __init__(self, out):
        self._out, self.raised = out, 0

    def __getattr__(self, name):
        return getattr(self._out, name)

    def violation(self, what, obj):
        self.raised += 1
        obj = dict(obj)
        obj["component"] = "e_lanes2"
        return self._out.violation(what, obj)


def kf_handler(out):
    def h(k):
        hit = [f for f in core.known_findings() if f["id"] == k and f["status"] == "open"]
        out.known_finding("%s %s" % (k, hit[0]["what"] if hit else "(deviation action taken)"))
    return h


def vacuity(results):
    """what the recorded executions contain (so that an empty check is visible in the evidence)"""
    c = {}

    def inc(k, n=1):
        c[k] = c.get(k, 0) + n
    for r in results:
        linked = set()          # (remote, lane) that has read linked and not unlinked since
        for e in r["log"]:
            k = e["e"]
            if k == "frame" and e["lane"] in DLANES and e["kind"] in ("linked", "unlinked"):
                (linked.add if e["kind"] == "linked" else linked.discard)((e["r"], e["lane"]))
            elif k in ("start", "restart"):
                linked.clear()
            elif k == "cuei":
                n = len([1 for (_, l) in linked if l == e["lane"]])
                if n:
                    inc("never_stale_obligations_%s" % e["lane"], n)
            if k == "frame" and e["lane"] in DLANES:
                inc("%s_%s_frames" % (e["lane"], e["kind"]))
                if e["lane"] == "dmap" and e["kind"] == "event" and str(e.get("body", "")).startswith("@remove"):
                    inc("dmap_remove_events")
            elif k == "cue":
                inc("dem_computations")
            elif k == "cuei":
                inc("cue_instructions_%s" % e["lane"])
            elif k == "keys":
                inc("dmap_keys_runs")
            elif k == "cuekey":
                inc("dmap_computations")
                if e["v"] is None:
                    inc("dmap_computations_no_value")
            elif k == "hreq":
                inc("http_requests")
            elif k == "hhand":
                inc("http_handler_%s" % e["m"])
            elif k == "hresp":
                inc("http_status_%s" % e["status"])
            elif k == "hdropped":
                inc("http_dropped")
    return c


def run_e(tier, out, wd, prop="C04"):
    os.makedirs(wd, exist_ok=True)
    core.build_harness("h_runtime", "e2e")
    q = tier == "quick"
    m = 1 if q else 10
    seed = core.seed()
    # ---- the stateless lanes
    dprofiles = [
        dict(n=35 * m, maxlen=22, nremotes=2, caps=(16, 64, 4096), vlanes=["val"], mlanes=["map"], keys=KEYS, faults=("demand",), burst=True, fill=True),
        dict(n=25 * m, maxlen=26, nremotes=3, caps=(24, 4096), vlanes=["val"], mlanes=["map"], keys=KEYS, faults=("demand", "drop", "dropread"), burst=False),
    ]
    dcases, dresults = [], []
    for pi, p in enumerate(dprofiles):
        scripts, r = generate(wd, "envD%d" % pi, seed + 40 + pi, **p)
        if pi == 0:
            scripts = scripts + anchors()
        cases, results = e2e.run_scripts(wd, scripts, {"store": False}, tag="runD%d" % pi)
        for c in cases:
            c["id"] = len(dcases) + c["id"]
        dcases += cases
        dresults += results
        out.add(states=r.generated, transitions=r.generated)
    dconsts = demand_consts()
    px = Tagging(out)
    accD, rejD, nevD = e2e.validate_cases(px, prop, "Trace_Demand", dcases, dresults, proj_demand, dconsts, wd,
                                          "stateless lanes (demand, demand-map)", tag="tvD", kf_handler=kf_handler(out))
    pl = Tagging(out)
    accL, rejL, nevL = e2e.validate_cases(pl, prop, "Trace_LinkProtocol", dcases, dresults, proj_link, LINK_CONSTS, wd,
                                          "link protocol on the stateless lanes", tag="tvDL")
    core.log("[%s] lanes2 demand: %d scripts; Trace_Demand %d events accepted=%d rejected=%d; Trace_LinkProtocol %d events accepted=%d rejected=%d" % (
        prop, len(dcases), nevD, accD, px.raised, nevL, accL, pl.raised))
    # ---- HTTP
    hprofiles = [
        dict(n=30 * m, maxlen=20, nremotes=1, caps=(64, 4096), vlanes=["val"], mlanes=[], faults=("http",), burst=True),
        dict(n=10 * m, maxlen=20, nremotes=2, caps=(4096,), vlanes=["val"], mlanes=[], faults=("http", "restart", "kill", "drop"), burst=True),
    ]
    hcases, hresults = [], []
    for pi, p in enumerate(hprofiles):
        scripts, r = generate(wd, "envH%d" % pi, seed + 60 + pi, **p)
        cases, results = e2e.run_scripts(wd, scripts, {"store": "restart" in p["faults"]}, tag="runH%d" % pi)
        for c in cases:
            c["id"] = len(hcases) + c["id"]
        hcases += cases
        hresults += results
        out.add(states=r.generated, transitions=r.generated)
    ph = Tagging(out)
    accH, rejH, nevH = e2e.validate_cases(ph, prop, "Trace_Http", hcases, hresults, proj_http, HTTP_CONSTS, wd,
                                          "HTTP lanes", tag="tvH")
    accV, rejV, nevV = e2e.validate_cases(ph, prop, "Trace_ValueView", hcases, hresults, lambda log: e2e.proj_value(log, ["val"]),
                                          VALUE_CONSTS, wd, "value lane written through the HTTP lane", tag="tvHV")
    accHL, rejHL, nevHL = e2e.validate_cases(ph, prop, "Trace_LinkProtocol", hcases, hresults, proj_link, LINK_CONSTS, wd,
                                             "link protocol (HTTP scripts)", tag="tvHL")
    core.log("[%s] lanes2 http: %d scripts; Trace_Http %d events accepted=%d; Trace_ValueView %d events accepted=%d; Trace_LinkProtocol %d events accepted=%d; rejected=%d" % (
        prop, len(hcases), nevH, accH, nevV, accV, nevHL, accHL, ph.raised))
    vac = vacuity(dresults + hresults)
    out.add(lanes2={"scripts_demand": len(dcases), "scripts_http": len(hcases),
                    "events_Trace_Demand": nevD, "events_Trace_Http": nevH,
                    "events_Trace_LinkProtocol": nevL + nevHL, "events_Trace_ValueView": nevV,
                    "rejected": px.raised + pl.raised + ph.raised,
                    "enabled_findings": sorted(dconsts["EnabledFindings"]), "observed": vac})
    out.add(traces_validated_against_impl=accD + accH, trace_events_validated=nevD + nevH + nevL + nevHL + nevV)
    if dcases:
        out.sample({"lanes2_script": dcases[0]["acts"][:8],
                    "lanes2_log_excerpt": [e for e in dresults[0]["log"] if e["e"] in ("cue", "cuei", "keys", "cuekey") or (e["e"] == "frame" and e["lane"] in DLANES)][:10]})
    if hcases:
        out.sample({"lanes2_http_log_excerpt": [e for e in hresults[0]["log"] if e["e"] in ("hreq", "hhand", "hresp", "hdropped")][:9]})
    out.assumptions += ["e_lanes2: on_cue / keys / on_cue_key / the HTTP handlers log inside the handler; an HTTP response is logged when the harness next looks at the response promise (every settle)"]
    return vac


# ----------------------------------------------------------------------------- replay

MODULES = {
    "Trace_Demand": (proj_demand, demand_consts),
    "Trace_Http": (proj_http, lambda: HTTP_CONSTS),
    "Trace_LinkProtocol": (proj_link, lambda: LINK_CONSTS),
    "Trace_ValueView": (lambda log: e2e.proj_value(log, ["val"]), lambda: VALUE_CONSTS),
}


def replay(path, out):
    whole = json.load(open(path))
    obj = whole["replay"]
    prop = whole.get("property", "C04")
    wd = core.workdir("ELANES2_replay")
    case = obj["case"]
    module = obj.get("module", "Trace_Demand")
    cases, results = e2e.run_scripts(wd, [case["acts"]], case.get("cfg", {}), tag="replay", final=(), vary=False)
    log = results[0]["log"]
    for e in log:
        print(json.dumps(e))
    if results[0].get("panic") or any(e["e"] in ("agent_panic", "hang") for e in log):
        print("the code under test panicked or hung")
        print("VIOLATION property=%s replay=%s" % (prop, path))
        return 1
    proj, consts = MODULES[module]
    ev = proj(log)
    res = e2e.validate(module, ev, os.path.join(wd, "tv"), consts())
    print(json.dumps({k: v for k, v in res.items() if k != "counterexample"}))
    if not res["accepted"]:
        print("rejected at", ev[res["matched"]] if 0 <= res["matched"] < len(ev) else None)
        print("VIOLATION property=%s replay=%s" % (prop, path))
        return 1
    for k in res.get("kf") or []:
        print("KNOWN-FINDING: property=%s %s" % (prop, k))
    return 0

"""C17 - inactivity shutdown needs all parties idle at once and cannot deadlock
(runtime/swimos_runtime/src/timeout_coord/mod.rs: Voter::vote / rescind / Drop, Receiver::poll).

P  = specs/TimeoutCoordAbs.tla   the coordinator as an atomic object (vote set + stop latch) in call /
                                 linearization-point / return form; clauses S1..S5 of the statement.
M  = specs/TimeoutCoord.tla      the lock-free mechanism, one step per atomic access (fetch_or, load,
                                 compare_exchange, AtomicWaker register / wake), two-party fast path, Drop.

B3  TLC: P |= S1..S5 ; M refines P (linearizability by refinement mapping, PROPERTY Linearizable) for N = 2
    and N = 3 over ALL interleavings of atomic steps with unboundedly many operations (the state space is
    finite) ; M-only invariants ; liveness under fairness: unanimity ~> the receiver completes.
B1s every transition of the sequential state graph + every operation sequence up to a depth bound,
    called on the real downlink_timeout_coordinator / agent_timeout_coordinator, all results compared.
B1c interleavings of atomic steps (transition cover + random walks of the concurrent state graph, TLC
    simulation for N = 3 in the quick tier) imposed on real OS threads through the cfg(swimos_verif)
    interleaving points, position after every step + results + wake-ups compared.
B2  free-running multi-threaded stress, call / return / wake events validated against P by TLC
    (Trace_TimeoutCoordAbs: TLC searches for the linearization points).
Alarm rule: an execution equal to M is accepted (TLC has shown M |= P); anything else is given to P.
"""
import json, os, random, collections
from vlib import core
from vlib import replay as rp

PROP = "C17"
MEMBER, BIN = "h_runtime", "timeoutcoord"
INPUT_KEYS = {"k", "t", "op"}
P_INVS = ["PTypeOK", "S1_StopOnlyIfAllVote", "S5_DroppedCounts", "S3_ToldUnanimous", "S2_ToldPending"]
P_PROPS = ["S4_Latch", "S2_StaysOut", "S1_StopMoment"]
M_INVS = ["TypeOK", "VotedMirrorsBit", "TwoPartyPathIffN2", "NoLostWakeupM", "S1_StopOnlyIfAllVote",
          "S2_ToldPending", "S3_ToldUnanimous", "S5_DroppedCounts"]
M_PROPS = ["Linearizable", "S4_Latch", "S2_StaysOut", "UnanimityReachesReceiver", "AllGoneReachesReceiver"]
MAX_REPORT = 8


# ------------------------------------------------------------------------------------ P as the judge

def trace_of(result):
    return [{"k": "reset"}] + list(result.get("ev", [])) + [{"k": "end"}]


class Judge:
    """Validates recorded histories against P (Trace_TimeoutCoordAbs), many per TLC run."""

    def __init__(self, wd):
        self.wd, self.n, self.events = wd, 0, 0

    def _run(self, n, events):
        self.n += 1
        self.events += len(events)
        return core.trace_validate("Trace_TimeoutCoordAbs", events, os.path.join(self.wd, "tv%d" % self.n),
                                   constants={"N": n}, invariants=["TraceInv"], timeout=900)

    def verdicts(self, n, histories, max_rejected=MAX_REPORT):
        """histories: list of event lists (each starting with reset).  Returns a list of
        None (accepted) | dict(detail) (rejected) | "unjudged" (budget of rejections exhausted)."""
        out = [None] * len(histories)
        start = 0
        rejected = 0
        while start < len(histories):
            offs, ev = [], []
            for h in histories[start:]:
                offs.append(len(ev))
                ev += h
            r = self._run(n, ev)
            if r.get("status", "").startswith("invariant"):
                raise core.ToolError("P's own theorem failed during trace validation: %s" % r)
            if r["accepted"]:
                break
            m = r["matched"]                       # events matched; event m (0-based) is the one refused
            k = max(j for j, o in enumerate(offs) if o <= m)
            h = histories[start + k]
            at = m - offs[k]
            out[start + k] = {"detail": "P (Trace_TimeoutCoordAbs, N=%d) cannot linearize the recorded history: "
                                        "stuck at event %d of %d: %s" % (n, at, len(h), json.dumps(h[at] if at < len(h) else None)),
                              "at": at}
            rejected += 1
            start = start + k + 1
            if rejected >= max_rejected:
                for j in range(start, len(histories)):
                    out[j] = "unjudged"
                break
        return out


def triage(out, judge, n, cases, results, what, stats):
    """The alarm rule for replayed cases."""
    diverging = []
    for c, r in zip(cases, results):
        stats["steps"] += len(c["acts"])
        if "harness:" in str(r.get("panic") or ""):
            raise core.ToolError("the harness itself failed on case %s: %s" % (c["id"], r["panic"]))
        if r.get("panic") or r.get("hang"):
            stats["rejected"] += 1
            if stats["rejected"] <= MAX_REPORT:
                out.violation("%s: case %s: the code under test %s" % (
                    what, c["id"], ("panicked: " + str(r.get("panic"))) if r.get("panic") else ("hung: " + str(r.get("hang")))),
                    {"component": what, "n": n, "case": c, "observed": r})
            continue
        d = rp.first_diff(c["acts"], r.get("obs", []), INPUT_KEYS)
        if d is None:
            stats["conform"] += 1
        else:
            diverging.append((c, r, d))
    if not diverging:
        return
    vs = judge.verdicts(n, [trace_of(r) for (_, r, _) in diverging])
    for (c, r, d), v in zip(diverging, vs):
        if v is None:
            stats["drift"] += 1
            if stats["drift"] <= 3:
                out.notes.append("MODEL-DRIFT %s: case %s step %d expected %s observed %s (accepted by P)" % (
                    what, c["id"], d, json.dumps(c["acts"][d]), json.dumps(r["obs"][d] if d < len(r.get("obs", [])) else None)))
        elif v == "unjudged":
            stats["unjudged"] += 1
        else:
            stats["rejected"] += 1
            out.violation("%s: case %s diverges from M at step %d (expected %s, real code gave %s). %s" % (
                what, c["id"], d, json.dumps(c["acts"][d]), json.dumps(r["obs"][d] if d < len(r.get("obs", [])) else None),
                v["detail"]), {"component": what, "n": n, "case": c, "observed": r})


# ------------------------------------------------------------------------------------ case generation

def op_graph(g):
    """Collapse the sequential atomic-step graph into operation-level edges between quiescent states."""
    def quiescent(node):
        v = json.loads(node)
        # View == <<flags, voted, alive, pc, op, cur, res, rpc, ...>>
        pcs = v[3]
        pcs = pcs.values() if isinstance(pcs, dict) else pcs
        return all(p == "idle" for p in pcs) and v[7] == "idle"
    ops = collections.defaultdict(list)
    for s in g.nodes:
        if not quiescent(s):
            continue
        for (a, t) in g.succ.get(s, ()):
            assert a["k"] == "call", a
            woke = False
            cur = t
            while True:
                nxt = g.succ[cur]
                assert len(nxt) == 1, "sequential graph must be deterministic inside an operation"
                b, cur2 = nxt[0]
                woke = woke or bool(b.get("woke"))
                cur = cur2
                if b["k"] == "ret":
                    ops[s].append(({"k": "op", "t": a["t"], "op": a["op"], "r": b["r"], "woke": woke}, cur))
                    break
    return ops


def all_sequences(ops, init, depth, cap):
    """Every operation sequence of length <= depth from init (maximal ones only: length depth or terminal)."""
    out = []
    stack = [(init, [])]
    while stack:
        s, acts = stack.pop()
        succ = ops.get(s, [])
        if len(acts) == depth or not succ:
            if acts:
                out.append(acts)
                if len(out) >= cap:
                    break
            continue
        for (a, t) in succ:
            stack.append((t, acts + [a]))
    return out


def op_cover(ops, init, rng, extend):
    """Operation sequences covering every operation-level transition (shortest prefix + the edge + random tail)."""
    parent = {init: None}
    dq = collections.deque([init])
    while dq:
        s = dq.popleft()
        for (a, t) in ops.get(s, []):
            if t not in parent:
                parent[t] = (s, a)
                dq.append(t)

    def prefix(s):
        acts = []
        while parent[s] is not None:
            s, a = parent[s]
            acts.append(a)
        return acts[::-1]
    out = []
    for s in parent:
        for (a, t) in ops.get(s, []):
            acts = prefix(s) + [a]
            cur = t
            for _ in range(extend):
                nx = ops.get(cur)
                if not nx:
                    break
                b, cur = nx[rng.randrange(len(nx))]
                acts.append(b)
            out.append(acts)
    return out, sum(len(v) for v in ops.values())


def step_kinds(paths):
    """histogram of the atomic steps in the schedules: 'position before -> position after' per thread"""
    h = collections.Counter()
    for p in paths:
        at = {}
        for a in p:
            if a["k"] == "call":
                at[a["t"]] = a["at"]
            elif a["k"] == "step":
                h["%s->%s" % (at.get(a["t"], "?"), a["at"])] += 1
                at[a["t"]] = a["at"]
    return h


def dump_graph(n, sequential, wd, tag):
    c = core.cfg(spec="Spec", constants={"N": n, "Sequential": sequential, "TrackAct": True},
                 invariants=["InitDump"], view="View", action_constraints=["EdgeDump"])
    r = core.run_tlc("MC_TimeoutCoord", c, os.path.join(wd, tag), workers=1, coverage=False, timeout=1800, xmx="6g")
    if not r.ok:
        raise core.ToolError("state graph dump failed: %s" % r.status)
    g = core.Graph(r.tagged["EDGE"], init_views=r.tagged["INIT"])
    return r, g


def simulate(n, num, depth, wd, tag, seed):
    c = core.cfg(init="SimInit", next_="SimNext",
                 constants={"N": n, "Sequential": False, "TrackAct": True, "Depth": depth}, invariants=["Dump"])
    r = core.run_tlc("MC_TimeoutCoordSim", c, os.path.join(wd, tag), workers=1, simulate="num=%d" % num,
                     extra=["-depth", str(depth + 1), "-seed", str(seed)], coverage=False)
    seen, out = set(), []
    for h in r.tagged["REPLAY"]:
        k = core.canon(h)
        if k not in seen:
            seen.add(k)
            out.append(h)
    return out


# ------------------------------------------------------------------------------------ the check

def model_check(out, wd, tier, tot, cov):
    """B3."""
    for n in (2, 3):
        c = core.cfg(spec="PSpec", constants={"N": n}, invariants=P_INVS, properties=P_PROPS)
        r = core.run_tlc("MC_TimeoutCoordAbs", c, os.path.join(wd, "p%d" % n), workers=4)
        if not r.ok:
            raise core.ToolError("P does not entail the clauses of the statement (%s %s), N=%d:\n%s" % (
                r.status, r.violated, n, r.counterexample[:3000]))
        tot["p_states"] += r.distinct
        core.log("[C17] P  N=%d: %d distinct states, %d generated, depth %d: S1..S5 hold (%.1fs)" % (n, r.distinct, r.generated, r.depth, r.wall))
    for n in (2, 3):
        c = core.cfg(spec="FairSpec", constants={"N": n, "Sequential": False, "TrackAct": False},
                     invariants=M_INVS, properties=M_PROPS)
        r = core.run_tlc("MC_TimeoutCoord", c, os.path.join(wd, "m%d" % n), workers=4, timeout=1500)
        if not r.ok:
            # M is meant to mirror the code and to satisfy P: a counterexample on the model alone is a tool-side
            # alarm (the specification needs attention), never a verdict about the code.
            raise core.ToolError("M violates P in TLC (%s %s) for N=%d:\n%s" % (r.status, r.violated, n, r.counterexample[:4000]))
        tot["states"] += r.distinct
        tot["generated"] += r.generated
        for a, (d, t) in r.coverage.items():
            o = cov.get(a, (0, 0))
            cov[a] = (o[0] + d, o[1] + t)
        core.log("[C17] M  N=%d: %d distinct states, %d generated, depth %d: invariants, Linearizable (M refines P), "
                 "liveness hold (%.1fs)" % (n, r.distinct, r.generated, r.depth, r.wall))
    if os.environ.get("VERIF_C17_N4"):
        # opt-in (about 2.1e6 states, 5..20 minutes): the generic multi_party_coordinator::<4>, model only - the code
        # path is the same CAS loop as for N = 3 but N = 4 cannot be constructed from outside the crate.
        c = core.cfg(spec="Spec", constants={"N": 4, "Sequential": False, "TrackAct": False},
                     invariants=M_INVS, properties=["Linearizable", "S4_Latch", "S2_StaysOut"])
        r = core.run_tlc("MC_TimeoutCoord", c, os.path.join(wd, "m4"), workers=4, timeout=3000)
        if not r.ok:
            raise core.ToolError("M violates P in TLC (%s %s) for N=4:\n%s" % (r.status, r.violated, r.counterexample[:4000]))
        tot["n4_states"] += r.distinct
        core.log("[C17] M  N=4 (model only): %d distinct states, %d generated: invariants and Linearizable hold (%.1fs)" % (
            r.distinct, r.generated, r.wall))


def run(tier, out):
    quick = tier == "quick"
    rng = random.Random(core.seed())
    wd = core.workdir(PROP)
    core.build_harness(MEMBER, BIN)
    judge = Judge(wd)
    tot = collections.Counter()
    cov = {}
    import time
    t0 = time.time()
    phases = {}

    def phase(name):
        nonlocal t0
        phases[name] = round(time.time() - t0, 1)
        t0 = time.time()
    phase("build")
    model_check(out, wd, tier, tot, cov)
    phase("B3_tlc")

    stats = {k: dict(cases=0, steps=0, conform=0, drift=0, rejected=0, unjudged=0) for k in ("seq", "conc")}
    p_samples = {2: [], 3: []}
    tot_kinds = collections.Counter()

    def run_cases(n, mode, paths, tag, chunk=40000, par=1):
        """replay in chunks (bounded memory; `par` harness processes side by side - the lock-step replay mostly
        waits on thread hand-overs); returns the first chunk's cases and results for the samples"""
        from concurrent.futures import ThreadPoolExecutor
        first = None
        st = stats[mode]

        def one(lo):
            cases = [{"id": "%s.%d" % (tag, lo + i), "cfg": {"n": n, "mode": mode}, "acts": p}
                     for i, p in enumerate(paths[lo:lo + chunk])]
            return cases, rp.run_cases(MEMBER, BIN, cases, wd, tag="%s_%d" % (tag, lo), input_keys=INPUT_KEYS)
        los = list(range(0, len(paths), chunk))
        with ThreadPoolExecutor(max_workers=par) as ex:
            for g0 in range(0, len(los), par):
                for cases, results in ex.map(one, los[g0:g0 + par]):
                    st["cases"] += len(cases)
                    triage(out, judge, n, cases, results, "TimeoutCoord[N=%d,%s]" % (n, mode), st)
                    for c_, r_ in list(zip(cases, results))[:: max(1, len(paths) // 40)]:
                        if "ev" in r_ and not r_.get("hang") and not r_.get("panic"):
                            p_samples[n].append(trace_of(r_))
                    if first is None:
                        first = (cases, results)
                if st["rejected"] >= 4 * MAX_REPORT:
                    out.notes.append("replay of %s stopped early: enough violations to report" % tag)
                    break
        return first if first else ([], [])

    # ---- B1-sequential
    depth = {2: 6 if quick else 8, 3: 5 if quick else 6}
    for n in (2, 3):
        r, g = dump_graph(n, True, wd, "gseq%d" % n)
        ops = op_graph(g)
        init = g.inits[0]
        cover, n_op_edges = op_cover(ops, init, rng, extend=4)
        exhaustive = all_sequences(ops, init, depth[n], cap=3000000)
        tot["transitions"] += g.n_edges
        tot["seq_op_transitions"] += n_op_edges
        tot["seq_exhaustive_sequences"] += len(exhaustive)
        cases, results = run_cases(n, "seq", cover + exhaustive, "seq%d" % n)
        core.log("[C17] B1-seq N=%d: sequential graph %d states / %d atomic edges -> %d quiescent states / %d operation "
                 "transitions; %d covering + %d exhaustive (depth %d) sequences replayed" % (
                     n, len(g.nodes), g.n_edges, len(ops), n_op_edges, len(cover), len(exhaustive), depth[n]))
        if n == 2:
            i = next((j for j, c in enumerate(cases) if any(a["r"] == "U" for a in c["acts"])), 0)
            out.sample({"binding": "B1-sequential", "n": n, "calls_with_expected_results": cases[i]["acts"][:8],
                        "observed": results[i].get("obs", [])[:8]})

    phase("B1_sequential")
    # ---- B1-concurrent
    for n in (2, 3):
        if n == 2 or not quick:
            r, g = dump_graph(n, False, wd, "gconc%d" % n)
            paths = g.covering_paths(extend=6 if n == 2 else 2, rng=rng)
            paths += g.random_walks(300 if quick else 2000, 60, rng)
            tot["transitions"] += g.n_edges
            tot["conc_graph_edges_covered"] += g.n_edges
            how = "transition cover of the concurrent graph (%d states, %d edges) + random walks" % (len(g.nodes), g.n_edges)
        else:
            paths = []
            how = ""
        sim = simulate(n, (400 if n == 2 else 1500) if quick else 4000, 60, wd, "sim%d" % n, core.seed())
        paths += sim
        tot["tlc_simulated_behaviours"] += len(sim)
        cases, results = run_cases(n, "conc", paths, "conc%d" % n, chunk=10000, par=3)
        kinds = step_kinds(paths)
        for k_, v_ in kinds.items():
            tot_kinds["N=%d %s" % (n, k_)] += v_
        core.log("[C17] B1-conc N=%d: %d interleavings imposed on real threads (%s%s%d TLC-simulated behaviours); "
                 "CAS-retry steps replayed: %d" % (n, len(paths), how, "; " if how else "", len(sim),
                                                  kinds.get("compare_exchange->load", 0)))
        if n == 3:
            i = next((j for j, c in enumerate(cases) if sum(1 for a in c["acts"] if a["k"] == "step" and a.get("at") == "load") >= 2), 0)
            out.sample({"binding": "B1-concurrent", "n": n, "schedule_with_expected_positions": cases[i]["acts"][:14],
                        "observed": results[i].get("obs", [])[:14]})

    phase("B1_concurrent")
    # ---- P kept alive on conforming executions: a sample of them through the judge as well
    for n in (2, 3):
        vs = judge.verdicts(n, p_samples[n])
        for h, v in zip(p_samples[n], vs):
            if v is not None and v != "unjudged":
                out.violation("P rejects a recorded history that conforms to M: %s" % v["detail"],
                              {"component": "TimeoutCoord-trace", "n": n, "ev": h})
        tot["p_sampled_histories"] += len(p_samples[n])

    phase("P_samples")
    # ---- B2 stress
    stress(out, judge, wd, rng, tot, runs=300 if quick else 8000, ops=10 if quick else 14)
    phase("B2_stress")
    core.log("[C17] phase wall times (s): %s" % phases)

    for mode in ("seq", "conc"):
        st = stats[mode]
        core.log("[C17] %s: cases=%d steps=%d conform=%d drift=%d rejected=%d" % (
            mode, st["cases"], st["steps"], st["conform"], st["drift"], st["rejected"]))
    never = sorted(a for a, (d, t) in cov.items() if t == 0)
    validated = sum(stats[m]["conform"] + stats[m]["drift"] for m in stats) + tot["stress_accepted"]
    out.add(states=tot["states"], transitions=tot["transitions"], traces_validated_against_impl=validated,
            tlc_states_generated=tot["generated"], p_states=tot["p_states"],
            replayed_sequential=stats["seq"], replayed_concurrent=stats["conc"],
            sequential_operation_transitions=tot["seq_op_transitions"],
            sequential_exhaustive_sequences=tot["seq_exhaustive_sequences"], sequential_depth=depth,
            tlc_simulated_behaviours=tot["tlc_simulated_behaviours"],
            stress_runs=tot["stress_runs"], stress_events=tot["stress_events"],
            stress_overlapping_calls=tot["stress_overlap"],
            p_trace_events_validated=judge.events, p_sampled_histories=tot["p_sampled_histories"],
            model_drift=stats["seq"]["drift"] + stats["conc"]["drift"],
            phase_wall_s=phases,
            replayed_atomic_steps_by_kind=dict(sorted(tot_kinds.items())),
            action_coverage={a: {"distinct": d, "taken": t} for a, (d, t) in sorted(cov.items())},
            actions_never_taken=never, exhaustive=True,
            rule="a case is one call sequence (B1-seq), one schedule of atomic steps on real threads (B1-conc) or one "
                 "free-running multi-threaded run (B2); validated = equal to M at every step (TLC: M refines P) or "
                 "accepted by P's trace specification",
            checker_cmd="tlc MC_TimeoutCoordAbs (INVARIANTS %s PROPERTIES %s); tlc MC_TimeoutCoord FairSpec N=2,3 "
                        "(INVARIANTS %s PROPERTIES %s); tlc MC_TimeoutCoord EdgeDump; tlc -simulate MC_TimeoutCoordSim; "
                        "h_runtime timeoutcoord; tlc Trace_TimeoutCoordAbs" % (
                            " ".join(P_INVS), " ".join(P_PROPS), " ".join(M_INVS), " ".join(M_PROPS)))
    if never:
        out.notes.append("actions never taken in any configuration: %s" % never)
    out.assumptions += [
        "sequentially consistent interleaving of the atomic accesses (the schedules TLC generates and the harness "
        "imposes); effects of Relaxed/Release/Acquire orderings below that are exercised only by the free-running stress on x86-64",
        "futures::task::AtomicWaker is modelled by its contract (register and wake are atomic)",
        "N = 2 and N = 3 only (multi_party_coordinator for N >= 4 is pub(crate) and has no production caller)",
        "a Voter is used by one thread at a time (it is Send but not Sync), the Receiver future is not polled after completion",
    ]


def overlap(ev):
    """number of calls made while another thread's operation was in progress (how concurrent was the run)"""
    busy, n = set(), 0
    for e in ev:
        if e["k"] == "call":
            if busy:
                n += 1
            busy.add(e["t"])
        elif e["k"] == "ret":
            busy.discard(e["t"])
    return n


def stress(out, judge, wd, rng, tot, runs, ops):
    outp = os.path.join(wd, "stress.out.ndjson")
    core.run_harness(MEMBER, [BIN, "stress", str(rng.randrange(1 << 30)), str(runs), str(ops), "60000"], stdout_path=outp)
    res = core.read_ndjson(outp)
    by_n = {2: [], 3: []}
    for i, r in enumerate(res):
        if r.get("panic"):
            out.violation("stress run %d: %s" % (i, r["panic"]), {"component": "TimeoutCoord-stress", "n": r["n"], "run": r})
            continue
        by_n[r["n"]].append(r)
        tot["stress_events"] += len(r["ev"])
        tot["stress_overlap"] += overlap(r["ev"])
    tot["stress_runs"] += len(res)
    for n, rs in by_n.items():
        hs = [trace_of(r) for r in rs]
        vs = judge.verdicts(n, hs)
        for h, v in zip(hs, vs):
            if v is None:
                tot["stress_accepted"] += 1
            elif v != "unjudged":
                out.violation("free-running stress (N=%d): %s" % (n, v["detail"]),
                              {"component": "TimeoutCoord-stress", "n": n, "ev": h})
    if res:
        r0 = max(res, key=lambda r: overlap(r.get("ev", [])))
        out.sample({"binding": "B2-stress", "n": r0["n"], "events": r0["ev"][:16]})
    core.log("[C17] B2 stress: %d runs, %d events, %d calls overlapping another operation; accepted by P: %d" % (
        len(res), tot["stress_events"], tot["stress_overlap"], tot["stress_accepted"]))


# ------------------------------------------------------------------------------------ replay

def replay(path, out):
    wd = core.workdir(PROP + "_replay")
    obj = json.load(open(path))["replay"]
    if obj.get("component") in ("trigger", "trigger-stress"):
        from checks import k_trigger
        return k_trigger.replay(path, out)
    n = obj["n"]
    judge = Judge(wd)
    if "case" in obj:
        core.build_harness(MEMBER, BIN)
        case = obj["case"]
        res = rp.run_cases(MEMBER, BIN, [case], wd, tag="replay", input_keys=INPUT_KEYS)[0]
        print("observed:", json.dumps(res)[:3000])
        if res.get("panic") or res.get("hang"):
            print("the code under test panicked / hung: %s" % (res.get("panic") or res.get("hang")))
            print("VIOLATION property=%s replay=%s" % (PROP, path))
            return 1
        d = rp.first_diff(case["acts"], res.get("obs", []), INPUT_KEYS)
        print("first divergence from M at step:", d)
        h = trace_of(res)
    else:
        # a free-running execution cannot be re-run deterministically: re-validate the recorded history
        h = obj["ev"]
    v = judge.verdicts(n, [h])[0]
    print("P verdict:", "accepted" if v is None else json.dumps(v))
    if v is not None:
        print("VIOLATION property=%s replay=%s" % (PROP, path))
        return 1
    return 0


# ---- second part (added by the main session): the use of the coordinator by the agent runtime ----
_run_primitive = run


def run(tier, out):
    _run_primitive(tier, out)
    from checks import k_inactivity
    k_inactivity.run_use(tier, out)
    # the one-shot trigger / promise that carries the stop signal to every task (Trigger.tla, K level)
    from checks import k_trigger
    k_trigger.run_k(tier, out, core.workdir(PROP + "_ktrig"), prop="C17")

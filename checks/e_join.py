"""Configuration E for the downlinks an agent hosts, seen from the agent loop (server/swimos_agent/src/agent_model/mod.rs:
open_new_downlink, LinkFuture::{Opening, Running, Reconnecting}, HostedDownlinkEvent::*) and for the join lanes
(lanes/join/value, lanes/join/map), whose maps are fed by one downlink per key / per remote map.

The harness agent (harness/h_runtime/src/bin/e2e.rs) has a join value lane `jv`, a join map lane `jm`, and opens a value
and a map downlink on instruction; the harness serves `LinkRequest::Downlink` and plays the remote lane of every opened
downlink.  Scripts are behaviours of specs/AgentEnv.tla with the features "join" / "hosted" (TLC simulation, seeded);
the one recorded log is projected (pure parsing) for

  * specs/Trace_HostedDownlink.tla  callbacks = what the delivered notifications imply, in order, with the fold as state;
                                    requests for (re)opening as the retry strategy defines; callbacks never overlap;
                                    what a downlink writes is what the handlers asked it to write
  * specs/Trace_JoinLane.tla        the join lanes' maps = the fold of what their downlinks delivered; closed links kept /
                                    removed / retried as the join lifecycle answered; removed downlinks have no influence
  * specs/Trace_MapReplica.tla      remotes linked to `jv` / `jm` (and to `map`, which the map downlink's handlers update)
  * specs/Trace_ValueView.tla       remotes linked to `val`, which the value downlink's handlers set
  * specs/Trace_LinkProtocol.tla    the WARP link state machine on every lane involved

Entry points: run_e(tier, out, wd, prop) (called from checks/c08.py), replay(path, out).
"""
import json, os, re
from vlib import core
from checks import e2e

JLANES = ["jv", "jm"]
KEYS = (1, 2, 3)
REMOTES = {1, 2, 3}
CTL = 3            # the remote that fills / reads back (never links)

LINK_CONSTS = {"Lanes": set(e2e.AGENT_LANES) | set(JLANES), "SyncLanes": set(e2e.SYNC_LANES) | set(JLANES), "Remotes": REMOTES}
VALUE_CONSTS = {"VLanes": {"val"}, "Remotes": REMOTES}


def open_ids(prop=None):
    """ids of the open findings of this component (VERIF_EJOIN_ASSUME_FIXED=id,id: treat these as repaired - used to try
    a proposed repair on a scratch copy of the repository before the entry is marked fixed)"""
    assume = set(x for x in os.environ.get("VERIF_EJOIN_ASSUME_FIXED", "").split(",") if x)
    return {f["id"] for f in findings() if f["status"] == "open"} - assume


def findings():
    p = os.path.join(core.ROOT, "known_findings", "EJOIN.json")
    if not os.path.exists(p):
        return []
    return json.load(open(p)).get("findings", [])


def map_consts(lanes):
    return {"MLanes": set(lanes), "Remotes": REMOTES, "Keys": set(KEYS),
            "EnabledFindings": {f["id"] for f in core.known_findings() if f["status"] == "open" and f["id"] in ("F5", "F12")}}


def hosted_consts(retries):
    return {"Keys": set(KEYS), "Retries": retries, "EnabledFindings": {x for x in open_ids() if x.startswith("EJOIN-H")}}


def join_consts(retries=2, enabled=None):
    return {"Keys": set(KEYS), "Links": {1, 2}, "Retries": retries,
            "EnabledFindings": enabled if enabled is not None else {x for x in open_ids() if x.startswith("EJOIN-F")}}


# ----------------------------------------------------------------------------- scripts

def instr_text(ins):
    i = ins["i"]
    if i == "jadd":
        return "jadd jv %d /d%d %s" % (ins["key"], ins["id"], ins["resp"])
    if i == "jmadd":
        return "jmadd jm %d /d%d %s" % (ins["key"], ins["id"], ins["resp"])
    if i == "jrem":
        return "jrem jv %d" % ins["key"]
    if i == "jmrem":
        return "jmrem jm %d" % ins["key"]
    if i == "jget":
        return "jget %s" % ins["lane"]
    if i in ("dlv", "dlm"):
        return "%s /d%d %d" % (i, ins["id"], ins["flags"])
    if i == "dlset":
        return "dlset %d" % ins["v"]
    if i == "dlmu":
        return "dlmu %d %d" % (ins["key"], ins["v"])
    if i == "dlmr":
        return "dlmr %d" % ins["key"]
    if i == "dlmc":
        return "dlmc"
    if i == "dlclose":
        return "dlclose %s" % ins["which"]
    return e2e.instr_text(ins)


NEW = ("jadd", "jmadd", "jrem", "jmrem", "jget", "dlv", "dlm", "dlset", "dlmu", "dlmr", "dlmc", "dlclose")


def prog(r, text, ns=False):
    return {"k": "send", "r": r, "lane": "cmd", "op": "cmd", "body": '"%s"' % text, "nosettle": ns}


def prepare(script):
    """the abstract actions of the features "join" / "hosted" made concrete (e2e.concretise passes them through)"""
    out = []
    for a in script:
        a = dict(a)
        if a["k"] == "send" and a.get("m") == "prog" and any(x["i"] in NEW for x in a["prog"]):
            text = "; ".join(instr_text(x) for x in a["prog"]) + "; tag %s" % a.get("tag", 0)
            a = prog(a["r"], text, a.get("nosettle", False))
        elif a["k"] == "dl":
            b = {"k": "dl", "id": a["id"], "do": a["do"], "nosettle": a.get("nosettle", False)}
            if a["do"] == "event":
                if "m" in a:
                    b["m"] = a["m"]
                    if a["m"] in ("upd", "rem"):
                        b["key"] = a["key"]
                    if a["m"] == "upd":
                        b["v"] = a["v"]
                    if a["m"] in ("take", "drop"):
                        b["n"] = a["n"]
                else:
                    b["v"] = a["v"]
            a = b
        out.append(a)
    return out


def wrap(script, join):
    """a control remote attaches first (it never links) and reads the join lanes' maps back at the end; every script
    ends with everything read and the agent quiescent"""
    pre = [{"k": "attach", "r": CTL, "cap": 4096}]
    post = [{"k": "quiesce"}]
    if join:
        post += [prog(CTL, "jget jv; jget jm"), {"k": "quiesce"}]
    return pre + script + post


def generate(wd, tag, seed, join, **p):
    scripts, r = e2e.gen_scripts(wd, seed=seed, tag=tag, **p)
    return [wrap(prepare(s), join) for s in scripts], r


# ----------------------------------------------------------------------------- projections (pure parsing)

def mapseq(pairs, keys=KEYS):
    """[[k, v], ...] -> the values of keys 1..n (-1: absent); a key outside the key set makes the map unrepresentable"""
    d = dict((k, v) for k, v in pairs)
    if any(k not in keys for k in d):
        return [-777 for _ in keys]
    return [d.get(k, -1) for k in keys]


def nz(v):
    return -1 if v is None else v


AGENT_SIDE = ("cmdh", "jcb", "jadd", "jrem", "jget", "deferred", "sent", "supply", "cue", "cuei", "keys", "cuekey", "hhand", "get", "dlopen")


def plain_ids(seg):
    return sorted({e["id"] for e in seg if e["e"] == "dlopen"})


def segments(log):
    """the log cut at every start of an agent instance"""
    segs, cur = [], []
    for e in log:
        if e["e"] == "start" and cur:
            segs.append(cur)
            cur = []
        cur.append(e)
    segs.append(cur)
    return segs


def proj_hosted(log):
    """events of Trace_HostedDownlink.tla (the value / map downlinks opened by instructions)"""
    out = []
    for seg in segments(log):
        ids = set(plain_ids(seg))
        st = [e for e in seg if e["e"] == "start"]
        out.append({"e": "reset", "ids": sorted(ids), "lm": mapseq(st[0].get("map", [])) if st else [-1 for _ in KEYS]})
        for e in seg:
            k = e["e"]
            if k == "dlopen":
                out.append({"e": "open", "id": e["id"], "kind": e["kind"], "ewns": bool(e["flags"] & 1), "keep": bool(e["flags"] & 2)})
            elif k == "dlreq" and e["id"] in ids:
                out.append({"e": "dlreq", "id": e["id"], "gen": e["gen"]})
            elif k == "dlans" and e["id"] in ids:
                if e.get("taken", True):
                    out.append({"e": "dlans", "id": e["id"], "gen": e["gen"], "how": e["how"]})
            elif k == "dlin" and e["id"] in ids:
                if e.get("undelivered") == "blocked":
                    raise core.ToolError("a notification could not be written to a downlink's input channel (harness)")
                if "undelivered" in e:
                    continue
                o = {"e": "dlin", "id": e["id"], "do": e["do"]}
                if e["do"] == "event":
                    if "m" in e:
                        o["m"] = e["m"]
                        o["k"] = e.get("key", 0)
                        o["v"] = e.get("v", 0)
                        o["n"] = e.get("n", 0)
                    else:
                        o["v"] = e["v"]
                out.append(o)
            elif k == "dlcb":
                o = {"e": "cb", "id": e["id"], "cb": e["cb"], "ph": e["ph"]}
                for f in ("v", "k"):
                    if f in e:
                        o[f] = e[f]
                if "prev" in e:
                    o["prev"] = nz(e["prev"])
                if "map" in e:
                    o["map"] = mapseq(e["map"])
                out.append(o)
            elif k == "lane":
                if e["lane"] in ("val", "map"):
                    o = {"e": "lane", "lane": e["lane"], "m": e["op"]}
                    for f in ("k", "v"):
                        if f in e:
                            o[f] = e[f]
                    out.append(o)
                else:
                    out.append({"e": "other"})
            elif k in AGENT_SIDE:
                out.append({"e": "other"})
            elif k == "dlset" and e["id"] in ids:
                out.append({"e": "dlset", "id": e["id"], "v": e["v"], "ok": bool(e["ok"])})
            elif k == "dlmop" and e["id"] in ids:
                out.append({"e": "dlmop", "id": e["id"], "m": e["m"], "k": e["k"], "v": e["v"], "ok": bool(e["ok"])})
            elif k == "dlclose" and e["id"] in ids:
                out.append({"e": "dlclose", "id": e["id"], "linked": bool(e["linked"])})
            elif k == "dlout" and e["id"] in ids:
                if "err" in e:
                    out.append({"e": "dlout", "id": e["id"], "v": -999, "m": "bad", "k": 1})
                elif "body" in e:
                    v = e2e.parse_int(e["body"])
                    out.append({"e": "dlout", "id": e["id"], "v": v if v is not None else -999})
                else:
                    out.append({"e": "dlout", "id": e["id"], "m": e["m"], "k": e.get("k", 1), "v": e.get("v", 0)})
            elif k in ("stopping", "stop"):
                out.append({"e": "stopping"})
            elif k == "quiescent":
                out.append({"e": "quiescent"})
    return out


def join_ids(seg):
    return sorted({e["id"] for e in seg if e["e"] == "jadd"})


def proj_join(log):
    """events of Trace_JoinLane.tla (the downlinks of the join lanes)"""
    out = []
    for seg in segments(log):
        ids = set(join_ids(seg))
        out.append({"e": "reset", "ids": sorted(ids)})
        for e in seg:
            k = e["e"]
            if k == "jadd":
                out.append({"e": "jadd", "lane": e["lane"], "key": e["key"], "id": e["id"], "resp": e["resp"]})
            elif k == "jrem":
                out.append({"e": "jrem", "lane": e["lane"], "key": e["key"], "before": mapseq(e["before"]), "after": mapseq(e["after"])})
            elif k == "jget":
                out.append({"e": "jget", "lane": e["lane"], "map": mapseq(e["map"])})
            elif k == "dlreq" and e["id"] in ids:
                out.append({"e": "dlreq", "id": e["id"], "gen": e["gen"]})
            elif k == "dlans" and e["id"] in ids:
                if e.get("taken", True):
                    out.append({"e": "dlans", "id": e["id"], "gen": e["gen"], "how": e["how"]})
            elif k == "dlin" and e["id"] in ids:
                if e.get("undelivered") == "blocked":
                    raise core.ToolError("a notification could not be written to a downlink's input channel (harness)")
                if "undelivered" in e:
                    continue
                o = {"e": "dlin", "id": e["id"], "do": e["do"]}
                if e["do"] == "event":
                    if "m" in e:
                        o["m"] = e["m"]
                        o["k"] = e.get("key", 0)
                        o["v"] = e.get("v", 0)
                        o["n"] = e.get("n", 0)
                    else:
                        o["v"] = e["v"]
                out.append(o)
            elif k == "jcb":
                o = {"e": "jcb", "lane": e["lane"], "cb": e["cb"], "key": e["key"], "id": e["id"]}
                if "v" in e:
                    o["v"] = nz(e["v"])
                if "keys" in e:
                    o["keys"] = list(e["keys"])
                if "resp" in e:
                    o["resp"] = e["resp"]
                out.append(o)
            elif k == "lane" and e["lane"] in JLANES:
                o = {"e": "jop", "lane": e["lane"], "m": e["op"], "k": e["k"], "prev": nz(e.get("prev")), "map": mapseq(e["map"])}
                if "v" in e:
                    o["v"] = e["v"]
                out.append(o)
            elif k == "lane" or k in AGENT_SIDE or k in ("dlcb", "dlset", "dlmop", "dlclose"):
                out.append({"e": "other"})
            elif k in ("stopping", "stop"):
                out.append({"e": "stopping"})
            elif k == "quiescent":
                out.append({"e": "quiescent"})
    return out


def f1_open():
    return "EJOIN-F1" in open_ids()


def lane_changes(log):
    """the log with the join lanes' own state changes made explicit: every entry that carries a snapshot of a join lane's
    map (the lane's on_update / on_remove events, jrem) is followed by the changes of single entries that lead from the
    previous snapshot to it: {"e": "jchg", "lane", "op": upd | rem, "k", "v"} (pure function of the logged snapshots)"""
    cur = {l: {} for l in JLANES}
    out = []
    for e in log:
        out.append(e)
        k = e["e"]
        if k == "start":
            cur = {l: {} for l in JLANES}
        elif k == "lane" and e["lane"] in JLANES:
            lane = e["lane"]
            new = dict((a, b) for a, b in e["map"])
            own = e["k"] if e["op"] == "upd" else None
            for kk in sorted(cur[lane]):
                if kk not in new:
                    out.append({"e": "jchg", "lane": lane, "op": "rem", "k": kk})
            for kk in sorted(new):
                if kk == own or cur[lane].get(kk) != new[kk]:
                    out.append({"e": "jchg", "lane": lane, "op": "upd", "k": kk, "v": new[kk]})
            cur[lane] = new
        elif k == "jrem":
            lane = e["lane"]
            new = dict((a, b) for a, b in e["after"])
            before = dict((a, b) for a, b in e["before"])
            for kk in sorted(before):
                if kk not in new and kk in cur[lane]:
                    out.append({"e": "jchg", "lane": lane, "op": "rem", "k": kk, "jrem": True})
            cur[lane] = new
    return out


def proj_map_join(log, lanes=JLANES, defer_f1=None):
    """events of Trace_MapReplica.tla for the join lanes (remotes that link to / sync with `jv` / `jm`).
    While finding EJOIN-F1 is open: a removal by remove_downlink is not written before the lane is next marked as
    changed (by a later change or a sync request); the removal is then projected where it becomes visible - before the
    lane's next own event or the first frame that carries it - instead of where the lane performed it, so that
    Trace_MapReplica judges everything else (Trace_JoinLane reports the finding itself)."""
    defer_f1 = f1_open() if defer_f1 is None else defer_f1
    out = [{"e": "reset"}]
    first = True
    pending = {l: [] for l in lanes}        # removals by remove_downlink not yet projected
    for e in lane_changes(log):
        k = e["e"]
        if k == "start":
            if not first:
                out.append({"e": "init", "maps": {l: [-1 for _ in KEYS] for l in lanes}})
            first = False
            pending = {l: [] for l in lanes}
        elif k == "lane" and e["lane"] in lanes:
            for kk in pending[e["lane"]]:
                out.append({"e": "op", "lane": e["lane"], "m": "rem", "k": kk})
            pending[e["lane"]] = []
        elif k == "jchg" and e["lane"] in lanes:
            if e["k"] not in KEYS:
                continue
            if e.get("jrem") and defer_f1:
                pending[e["lane"]].append(e["k"])
                continue
            if e["k"] in pending[e["lane"]]:
                pending[e["lane"]].remove(e["k"])
                out.append({"e": "op", "lane": e["lane"], "m": "rem", "k": e["k"]})
            o = {"e": "op", "lane": e["lane"], "m": e["op"], "k": e["k"]}
            if e["op"] == "upd":
                o["v"] = e["v"]
            out.append(o)
        elif k == "req" and e["lane"] in lanes and e["op"] in ("link", "sync", "unlink"):
            out.append({"e": "req", "r": e["r"], "lane": e["lane"], "op": e["op"]})
        elif k == "req":
            out.append({"e": "mark"})
        elif k == "frame" and e["lane"] in lanes:
            f = {"e": "frame", "r": e["r"], "lane": e["lane"], "kind": e["kind"]}
            if e["kind"] == "event":
                op = e2e.parse_map_op(e.get("body"))
                if op is None:
                    f["bad"] = True
                    f["m"] = "bad"
                else:
                    f["m"] = op["op"]
                    if "k" in op:
                        f["k"] = op["k"]
                    if "v" in op:
                        f["v"] = op["v"]
                    if op["op"] == "rem" and op["k"] in pending[e["lane"]]:
                        pending[e["lane"]].remove(op["k"])
                        out.append({"e": "op", "lane": e["lane"], "m": "rem", "k": op["k"]})
            out.append(f)
        elif k in ("drop", "dropread", "eof", "frame_error"):
            out.append({"e": "gone", "r": e["r"]})
        elif k in ("stopping", "stop"):
            out.append({"e": "stopping"})
        elif k == "quiescent":
            out.append({"e": "quiescent", "drained": e["drained"]})
    return out


def proj_link(log):
    """events of Trace_LinkProtocol.tla: what the join lanes change is what they `produce` (byte for byte the bodies of
    their event frames); everything else as e2e.proj_link"""
    log2 = []
    for e in lane_changes(log):
        if e["e"] == "jchg":
            body = "@update(key:%d) %d" % (e["k"], e["v"]) if e["op"] == "upd" else "@remove(key:%d)" % e["k"]
            log2.append({"e": "supply", "lane": e["lane"], "v": body})
        elif e["e"] == "lane" and e["lane"] in JLANES:
            continue
        else:
            log2.append(e)
    return e2e.proj_link(log2)


def proj_map_hosted(log):
    """events of Trace_MapReplica.tla for the lane `map` in the hosted-downlink scripts.  The handlers of the map downlink
    change `map` whenever the agent takes a notification, so the lane operations that follow a take / drop command
    cannot be attributed to it: take / drop commands are projected as plain requests (their own semantics is C02's)."""
    return [{"e": "mark"} if e["e"] == "td" else e for e in e2e.proj_map(log, ["map"], KEYS)]


# ----------------------------------------------------------------------------- directed scripts

def dl(id, do, ns=False, **kw):
    d = {"k": "dl", "id": id, "do": do, "nosettle": ns}
    d.update(kw)
    return d


def send(r, lane, op, ns=False):
    return {"k": "send", "r": r, "lane": lane, "op": op, "nosettle": ns}


def anchors_join():
    """Directed behaviours of AgentEnv.tla ("join") around the shapes the random scripts reach rarely: a link removed
    while a remote is linked to the lane (EJOIN-F1), removed with a lifecycle that retries (EJOIN-F2), an entry of the
    join map lane updated twice by its owner and then cleared / deleted (EJOIN-F3); a refused, a fatally refused and a
    delayed opening; links closed with every answer of the lifecycle."""
    att = {"k": "attach", "r": 1, "cap": 4096}
    q = {"k": "quiesce"}
    out = []
    for resp in ("retry", "abandon", "delete"):
        out.append([att, send(1, "jv", "sync"), prog(1, "jadd jv 1 /d1 %s; jadd jv 2 /d2 %s" % (resp, resp)), dl(1, "linked"), dl(1, "event", v=5), dl(1, "synced"),
                    dl(2, "event", v=8), dl(2, "linked"), q, dl(1, "unlinked"), dl(2, "close"), q, dl(2, "linked"), dl(2, "event", v=11), dl(1, "event", v=12), q,
                    prog(1, "jrem jv 2"), q, dl(2, "event", v=13), dl(2, "linked"), q, prog(1, "jadd jv 3 /d20 %s" % resp), dl(20, "event", v=14), q])
        out.append([att, send(1, "jm", "sync"), prog(1, "jmadd jm 1 /d1 %s; jmadd jm 2 /d2 %s" % (resp, resp)), dl(1, "linked"), dl(1, "event", m="upd", key=1, v=5),
                    dl(1, "event", m="upd", key=1, v=6), dl(1, "event", m="upd", key=2, v=7), dl(1, "synced"), dl(2, "linked"), dl(2, "event", m="upd", key=3, v=8), q,
                    dl(1, "event", m="clr"), q, dl(2, "event", m="upd", key=2, v=9), dl(1, "fail"), q, prog(1, "jmrem jm 2"), q, dl(2, "linked"),
                    dl(2, "event", m="upd", key=3, v=10), q])
    # opening refused (recoverably, then for good), refused fatally, delayed
    out.append([att, {"k": "dlopen", "id": 0, "how": "refuse"}, prog(1, "jadd jv 1 /d1 abandon"), q, {"k": "dlopen", "id": 0, "how": "ok"},
                prog(1, "jadd jv 1 /d2 abandon; jadd jv 2 /d3 delete"), dl(3, "linked"), dl(3, "event", v=4), q])
    out.append([att, {"k": "dlopen", "id": 0, "how": "fatal"}, prog(1, "jmadd jm 1 /d1 abandon"), q, {"k": "dlopen", "id": 0, "how": "delay"},
                prog(1, "jadd jv 2 /d3 delete"), q, prog(1, "jrem jv 2"), {"k": "dlopen", "id": 3, "how": "ok"}, dl(3, "linked"), q])
    return out


def anchors_hosted():
    """Directed behaviours ("hosted"): a kept downlink that loses its channel (closed, broken frame, failed write) and is
    reopened, with the reopening refused until the retries are used up; values set before the downlink is open; a
    downlink stopped while notifications are queued; map operations written and coalesced."""
    att = {"k": "attach", "r": 1, "cap": 4096}
    q = {"k": "quiesce"}
    out = []
    for flags in (2, 3):
        out.append([att, send(1, "val", "sync"), prog(1, "dlv /d1 %d; dlset 3" % flags), dl(1, "linked"), dl(1, "event", v=5), dl(1, "synced"), dl(1, "event", v=6), q,
                    dl(1, "close"), q, dl(1, "linked"), dl(1, "synced"), dl(1, "event", v=7), dl(1, "fail"), q, {"k": "dlopen", "id": 1, "how": "refuse"}, dl(1, "close"), q])
        out.append([att, send(1, "map", "sync"), prog(1, "dlm /d1 %d; dlmu 1 3; dlmu 1 4; dlmr 2" % flags), dl(1, "linked"), dl(1, "event", m="upd", key=1, v=5),
                    dl(1, "event", m="upd", key=2, v=6), dl(1, "synced"), dl(1, "event", m="take", n=1), dl(1, "event", m="upd", key=3, v=7), dl(1, "event", m="drop", n=1), q,
                    dl(1, "outfail"), prog(1, "dlmu 2 8"), q, dl(1, "linked"), dl(1, "event", m="clr"), q])
    out.append([att, {"k": "dlopen", "id": 0, "how": "delay"}, prog(1, "dlv /d1 1; dlset 3; dlset 4"), q, {"k": "dlopen", "id": 1, "how": "ok"}, dl(1, "linked", ns=True),
                dl(1, "event", ns=True, v=5), dl(1, "event", ns=True, v=6), prog(1, "dlclose v"), q])
    out.append([att, prog(1, "dlv /d1 0; dlm /d2 1"), dl(1, "linked", ns=True), dl(2, "linked", ns=True), dl(1, "synced", ns=True), dl(2, "event", ns=True, m="upd", key=1, v=3),
                dl(1, "event", ns=True, v=4), dl(2, "event", ns=True, m="rem", key=1), dl(1, "event", ns=True, v=5), prog(1, "set val 6; upd map 1 7"), q,
                dl(1, "unlinked"), dl(2, "unlinked"), q])
    return out


# ----------------------------------------------------------------------------- validation

class Tagging:
    """An Outcome seen by e2e.validate_cases: replay files of this component are marked so that the check that called
    run_e can route `--replay` to e_join.replay"""

    def __init__(self, out):
        self._out, self.raised = out, 0

    def __getattr__(self, name):
        return getattr(self._out, name)

    def violation(self, what, obj):
        self.raised += 1
        obj = dict(obj)
        obj["component"] = "e_join"
        return self._out.violation(what, obj)


def kf_handler(out):
    def h(k):
        hit = [f for f in core.known_findings() if f["id"] == k and f["status"] == "open"]
        out.known_finding("%s %s" % (k, hit[0]["what"] if hit else "(deviation action taken)"))
    return h


def vacuity(results):
    """what the recorded executions contain (so that an empty check is visible in the evidence)"""
    c = {}

    def inc(k, n=1):
        c[k] = c.get(k, 0) + n
    for r in results:
        for e in r["log"]:
            k = e["e"]
            if k in ("dlcb", "jcb"):
                if e.get("ph", "b") == "b":
                    inc("%s_%s%s" % (k, e.get("lane", "") + "_" if "lane" in e else "", e["cb"]))
            elif k == "dlin":
                inc("dlin_%s%s" % (e["do"], "_undelivered" if "undelivered" in e else ""))
            elif k == "dlans":
                inc("dlans_%s" % e["how"])
            elif k == "dlreq":
                inc("dlreq" if e["gen"] == 1 else "dlreq_again")
            elif k in ("jadd", "jrem", "jget", "dlopen", "dlset", "dlmop", "dlclose", "dlout"):
                inc(k)
            elif k == "lane" and e["lane"] in JLANES:
                inc("lane_%s_%s" % (e["lane"], e["op"]))
            elif k == "frame" and e["lane"] in JLANES:
                inc("frame_%s_%s" % (e["lane"], e["kind"]))
    return c


def run_group(wd, scripts, cfg, tag):
    cases, results = e2e.run_scripts(wd, scripts, cfg, tag=tag, final=("quiesce", "stop"))
    return cases, results


def run_e(tier, out, wd, prop="C08"):
    os.makedirs(wd, exist_ok=True)
    core.build_harness("h_runtime", "e2e")
    q = tier == "quick"
    m = 1 if q else 10
    seed = core.seed()
    stats = {}
    total_rejected = 0
    # ---- join lanes
    jprofiles = [
        (dict(n=38 * m, maxlen=26, nremotes=2, caps=(64, 4096), vlanes=[], mlanes=[], keys=KEYS, faults=("join",), burst=True), {"dl_retries": 2}),
        (dict(n=20 * m, maxlen=30, nremotes=2, caps=(24, 4096), vlanes=[], mlanes=[], keys=KEYS, faults=("join", "drop"), burst=False), {}),
    ]
    jall = []
    for pi, (p, cfg) in enumerate(jprofiles):
        scripts, r = generate(wd, "envJ%d" % pi, seed + 80 + pi, True, **p)
        # (the directed scripts run with both retry settings: how often a refused opening is asked for again)
        scripts = scripts + [wrap(s, True) for s in anchors_join()]
        c = {"store": False}
        c.update(cfg)
        cases, results = run_group(wd, scripts, c, "runJ%d" % pi)
        out.add(states=r.generated, transitions=r.generated)
        retries = cfg.get("dl_retries", 0)
        px = Tagging(out)
        acc, rej, nev = e2e.validate_cases(px, prop, "Trace_JoinLane", cases, results, proj_join, join_consts(retries), wd,
                                           "join lanes", tag="tvJ%d" % pi, kf_handler=kf_handler(out))
        acc2, rej2, nev2 = e2e.validate_cases(px, prop, "Trace_MapReplica", cases, results, proj_map_join, map_consts(JLANES), wd,
                                              "replicas of the join lanes", tag="tvJM%d" % pi, kf_handler=kf_handler(out))
        acc3, rej3, nev3 = e2e.validate_cases(px, prop, "Trace_LinkProtocol", cases, results, proj_link, LINK_CONSTS, wd,
                                              "link protocol on the join lanes", tag="tvJL%d" % pi)
        core.log("[%s] e_join join %d: %d scripts; Trace_JoinLane %d events accepted=%d; Trace_MapReplica %d events accepted=%d; Trace_LinkProtocol %d events accepted=%d; rejected=%d" % (
            prop, pi, len(cases), nev, acc, nev2, acc2, nev3, acc3, px.raised))
        stats["join%d" % pi] = {"scripts": len(cases), "events_Trace_JoinLane": nev, "events_Trace_MapReplica": nev2, "events_Trace_LinkProtocol": nev3, "rejected": px.raised}
        total_rejected += px.raised
        jall += results
        if pi == 0 and cases:
            out.sample({"e_join_script": cases[0]["acts"][:10],
                        "e_join_log_excerpt": [e for e in results[0]["log"] if e["e"] in ("jadd", "jrem", "jcb", "dlreq", "dlin", "jget") or (e["e"] == "lane" and e["lane"] in JLANES)][:12]})
    # ---- hosted value / map downlinks
    hprofiles = [
        (dict(n=40 * m, maxlen=28, nremotes=2, caps=(64, 4096), vlanes=["val"], mlanes=["map"], keys=KEYS, faults=("hosted",), burst=True), {"dl_retries": 2, "dl_out_cap": 16}),
        (dict(n=20 * m, maxlen=28, nremotes=2, caps=(4096,), vlanes=["val"], mlanes=["map"], keys=KEYS, faults=("hosted", "restart", "kill"), burst=True), {"store": True}),
    ]
    hall = []
    for pi, (p, cfg) in enumerate(hprofiles):
        scripts, r = generate(wd, "envH%d" % pi, seed + 90 + pi, False, **p)
        scripts = scripts + [wrap(s, False) for s in anchors_hosted()]
        c = {"store": False}
        c.update(cfg)
        cases, results = run_group(wd, scripts, c, "runH%d" % pi)
        out.add(states=r.generated, transitions=r.generated)
        retries = cfg.get("dl_retries", 0)
        px = Tagging(out)
        acc, rej, nev = e2e.validate_cases(px, prop, "Trace_HostedDownlink", cases, results, proj_hosted, hosted_consts(retries), wd,
                                           "hosted downlinks", tag="tvH%d" % pi, kf_handler=kf_handler(out))
        acc2, rej2, nev2 = e2e.validate_cases(px, prop, "Trace_ValueView", cases, results, lambda log: e2e.proj_value(log, ["val"]), VALUE_CONSTS, wd,
                                              "value lane set by the downlink's handlers", tag="tvHV%d" % pi)
        acc3, rej3, nev3 = e2e.validate_cases(px, prop, "Trace_MapReplica", cases, results, proj_map_hosted, map_consts(["map"]), wd,
                                              "map lane updated by the downlink's handlers", tag="tvHM%d" % pi, kf_handler=kf_handler(out))
        acc4, rej4, nev4 = e2e.validate_cases(px, prop, "Trace_LinkProtocol", cases, results, proj_link, LINK_CONSTS, wd,
                                              "link protocol (hosted downlink scripts)", tag="tvHL%d" % pi)
        core.log("[%s] e_join hosted %d: %d scripts; Trace_HostedDownlink %d events accepted=%d; Trace_ValueView %d accepted=%d; Trace_MapReplica %d accepted=%d; Trace_LinkProtocol %d accepted=%d; rejected=%d" % (
            prop, pi, len(cases), nev, acc, nev2, acc2, nev3, acc3, nev4, acc4, px.raised))
        stats["hosted%d" % pi] = {"scripts": len(cases), "events_Trace_HostedDownlink": nev, "events_Trace_ValueView": nev2, "events_Trace_MapReplica": nev3,
                                  "events_Trace_LinkProtocol": nev4, "rejected": px.raised}
        total_rejected += px.raised
        hall += results
        if pi == 0 and cases:
            out.sample({"e_join_hosted_log_excerpt": [e for e in results[0]["log"] if e["e"] in ("dlopen", "dlreq", "dlans", "dlin", "dlcb", "dlset", "dlout", "dlclose")][:14]})
    vac = vacuity(jall + hall)
    stats["observed"] = vac
    stats["enabled_findings"] = sorted(open_ids())
    out.add(e_join=stats)
    n_scripts = sum(v["scripts"] for k, v in stats.items() if isinstance(v, dict) and "scripts" in v)
    n_events = sum(v2 for k, v in stats.items() if isinstance(v, dict) for k2, v2 in v.items() if k2.startswith("events_"))
    out.add(traces_validated_against_impl=n_scripts, trace_events_validated=n_events)
    out.assumptions += ["e_join: the harness plays the downlink runtime and the remote lanes of the agent's downlinks (byte channels with the downlink protocol); "
                        "a notification counts as delivered when the write to the downlink's input channel succeeded; callbacks log inside the handlers"]
    return vac


# ----------------------------------------------------------------------------- replay

MODULES = {
    "Trace_JoinLane": (proj_join, lambda cfg: join_consts(cfg.get("dl_retries", 0))),
    "Trace_HostedDownlink": (proj_hosted, lambda cfg: hosted_consts(cfg.get("dl_retries", 0))),
    "Trace_LinkProtocol": (proj_link, lambda cfg: LINK_CONSTS),
    "Trace_ValueView": (lambda log: e2e.proj_value(log, ["val"]), lambda cfg: VALUE_CONSTS),
}


def replay(path, out):
    whole = json.load(open(path))
    obj = whole["replay"]
    prop = whole.get("property", "C08")
    wd = core.workdir("EJOIN_replay")
    case = obj["case"]
    module = obj.get("module", "Trace_JoinLane")
    cases, results = e2e.run_scripts(wd, [case["acts"]], case.get("cfg", {}), tag="replay", final=(), vary=False)
    log = results[0]["log"]
    for e in log:
        print(json.dumps(e))
    if results[0].get("panic") or any(e["e"] in ("agent_panic", "hang") for e in log):
        print("the code under test panicked or hung")
        print("VIOLATION property=%s replay=%s" % (prop, path))
        return 1
    if module == "Trace_MapReplica":
        lanes = sorted(obj.get("constants", {}).get("MLanes", JLANES))
        proj = (lambda l: proj_map_join(l)) if set(lanes) <= set(JLANES) else proj_map_hosted
        consts = map_consts(lanes)
    else:
        proj, cf = MODULES[module]
        consts = cf(case.get("cfg", {}))
    ev = proj(log)
    res = e2e.validate(module, ev, os.path.join(wd, "tv"), consts)
    print(json.dumps({k: v for k, v in res.items() if k != "counterexample"}))
    if not res["accepted"]:
        print("rejected at", ev[res["matched"]] if 0 <= res["matched"] < len(ev) else None)
        print("VIOLATION property=%s replay=%s" % (prop, path))
        return 1
    for k in res.get("kf") or []:
        print("KNOWN-FINDING: property=%s %s" % (prop, k))
    return 0

"""Configuration E for the downlinks an agent hosts, seen from the agent loop (server/swimos_agent/src/agent_model/mod.rs:
open_new_downlink, LinkFuture::{Opening, Running, Reconnecting}, HostedDownlinkEvent::*) and for the join lanes
(lanes/join/value, lanes/join/map), whose maps are fed by one downlink per key / per remote map.

The harness agent (harness/h_runtime/src/bin/e2e.rs) has a join value lane `jv`, a join map lane `jm`, and opens a value
and a map downlink on instruction; the harness serves `LinkRequest::Downlink` and plays the remote lane of every opened
downlink.  Scripts are behaviours of specs/AgentEnv.tla with the features "join" / "hosted" (TLC simulation, seeded);
the one recorded log is projected (pure parsing) for

  * specs/Trace_HostedDownlink.tla  callbacks = what the delivered notifications imply, in order, with the fold as state;
                                    requests for (re)opening as the retry strategy defines; callbacks never overlap;
                                    what a downlink writes is what the handlers asked it to write
  * specs/Trace_JoinLane.tla        the join lanes' maps = the fold of what their downlinks delivered; closed links kept /
                                    removed / retried as the join lifecycle answered; removed downlinks have no influence
  * specs/Trace_MapReplica.tla      remotes linked to `jv` / `jm` (and to `map`, which the map downlink's handlers update)
  * specs/Trace_ValueView.tla       remotes linked to `val`, which the value downlink's handlers set
  * specs/Trace_LinkProtocol.tla    the WARP link state machine on every lane involved

Entry points: run_e(tier, out, wd, prop) (called from checks/c08.py), replay(path, out).
"""
import json, os, re
from vlib import core
from checks import e2e

JLANES = ["jv", "jm"]
KEYS = (1, 2, 3)
REMOTES = {1, 2, 3}
CTL = 3            # the remote that fills / reads back (never links)

LINK_CONSTS = {"Lanes": set(e2e.AGENT_LANES) | set(JLANES), "SyncLanes": set(e2e.SYNC_LANES) | set(JLANES), "Remotes": REMOTES}
VALUE_CONSTS = {"VLanes": {"val"}, "Remotes": REMOTES}


def open_ids(prop=None):
    return {f["id"] for f in findings() if f["status"] == "open"}


def findings():
    p = os.path.join(core.ROOT, "known_findings", "EJOIN.json")
    if not os.path.exists(p):
        return []
    return json.load(open(p)).get("findings", [])


def map_consts(lanes):
    return {"MLanes": set(lanes), "Remotes": REMOTES, "Keys": set(KEYS),
            "EnabledFindings": {f["id"] for f in core.known_findings() + findings() if f["status"] == "open" and f["id"] in ("F5", "F12", "EJOIN-F1")}}


def hosted_consts(retries):
    return {"Keys": set(KEYS), "Retries": retries, "EnabledFindings": {x for x in open_ids() if x.startswith("EJOIN-H")}}


def join_consts():
    return {"Keys": set(KEYS), "Links": {1, 2}, "EnabledFindings": {x for x in open_ids() if x.startswith("EJOIN-F")}}


# ----------------------------------------------------------------------------- scripts

def instr_text(ins):
    i = ins["i"]
    if i == "jadd":
        return "jadd jv %d /d%d %s" % (ins["key"], ins["id"], ins["resp"])
    if i == "jmadd":
        return "jmadd jm %d /d%d %s" % (ins["key"], ins["id"], ins["resp"])
    if i == "jrem":
        return "jrem jv %d" % ins["key"]
    if i == "jmrem":
        return "jmrem jm %d" % ins["key"]
    if i == "jget":
        return "jget %s" % ins["lane"]
    if i in ("dlv", "dlm"):
        return "%s /d%d %d" % (i, ins["id"], ins["flags"])
    if i == "dlset":
        return "dlset %d" % ins["v"]
    if i == "dlmu":
        return "dlmu %d %d" % (ins["key"], ins["v"])
    if i == "dlmr":
        return "dlmr %d" % ins["key"]
    if i == "dlmc":
        return "dlmc"
    if i == "dlclose":
        return "dlclose %s" % ins["which"]
    return e2e.instr_text(ins)


NEW = ("jadd", "jmadd", "jrem", "jmrem", "jget", "dlv", "dlm", "dlset", "dlmu", "dlmr", "dlmc", "dlclose")


def prog(r, text, ns=False):
    return {"k": "send", "r": r, "lane": "cmd", "op": "cmd", "body": '"%s"' % text, "nosettle": ns}


def prepare(script):
    """the abstract actions of the features "join" / "hosted" made concrete (e2e.concretise passes them through)"""
    out = []
    for a in script:
        a = dict(a)
        if a["k"] == "send" and a.get("m") == "prog" and any(x["i"] in NEW for x in a["prog"]):
            text = "; ".join(instr_text(x) for x in a["prog"]) + "; tag %s" % a.get("tag", 0)
            a = prog(a["r"], text, a.get("nosettle", False))
        elif a["k"] == "dl":
            b = {"k": "dl", "id": a["id"], "do": a["do"], "nosettle": a.get("nosettle", False)}
            if a["do"] == "event":
                if "m" in a:
                    b["m"] = a["m"]
                    if a["m"] in ("upd", "rem"):
                        b["key"] = a["key"]
                    if a["m"] == "upd":
                        b["v"] = a["v"]
                    if a["m"] in ("take", "drop"):
                        b["n"] = a["n"]
                else:
                    b["v"] = a["v"]
            a = b
        out.append(a)
    return out


def wrap(script, join):
    """a control remote attaches first (it never links) and reads the join lanes' maps back at the end; every script
    ends with everything read and the agent quiescent"""
    pre = [{"k": "attach", "r": CTL, "cap": 4096}]
    post = [{"k": "quiesce"}]
    if join:
        post += [prog(CTL, "jget jv; jget jm"), {"k": "quiesce"}]
    return pre + script + post


def generate(wd, tag, seed, join, **p):
    scripts, r = e2e.gen_scripts(wd, seed=seed, tag=tag, **p)
    return [wrap(prepare(s), join) for s in scripts], r


# ----------------------------------------------------------------------------- projections (pure parsing)

def mapseq(pairs, keys=KEYS):
    """[[k, v], ...] -> the values of keys 1..n (-1: absent); a key outside the key set makes the map unrepresentable"""
    d = dict((k, v) for k, v in pairs)
    if any(k not in keys for k in d):
        return [-777 for _ in keys]
    return [d.get(k, -1) for k in keys]


def nz(v):
    return -1 if v is None else v


AGENT_SIDE = ("cmdh", "jcb", "jadd", "jrem", "jget", "deferred", "sent", "supply", "cue", "cuei", "keys", "cuekey", "hhand", "get", "dlopen")


def plain_ids(seg):
    return sorted({e["id"] for e in seg if e["e"] == "dlopen"})


def segments(log):
    """the log cut at every start of an agent instance"""
    segs, cur = [], []
    for e in log:
        if e["e"] == "start" and cur:
            segs.append(cur)
            cur = []
        cur.append(e)
    segs.append(cur)
    return segs


def proj_hosted(log):
    """events of Trace_HostedDownlink.tla (the value / map downlinks opened by instructions)"""
    out = []
    for seg in segments(log):
        ids = set(plain_ids(seg))
        out.append({"e": "reset", "ids": sorted(ids)})
        for e in seg:
            k = e["e"]
            if k == "dlopen":
                out.append({"e": "open", "id": e["id"], "kind": e["kind"], "ewns": bool(e["flags"] & 1), "keep": bool(e["flags"] & 2)})
            elif k == "dlreq" and e["id"] in ids:
                out.append({"e": "dlreq", "id": e["id"], "gen": e["gen"]})
            elif k == "dlans" and e["id"] in ids:
                if e.get("taken", True):
                    out.append({"e": "dlans", "id": e["id"], "gen": e["gen"], "how": e["how"]})
            elif k == "dlin" and e["id"] in ids:
                if e.get("undelivered") == "blocked":
                    raise core.ToolError("a notification could not be written to a downlink's input channel (harness)")
                if "undelivered" in e:
                    continue
                o = {"e": "dlin", "id": e["id"], "do": e["do"]}
                if e["do"] == "event":
                    if "m" in e:
                        o["m"] = e["m"]
                        o["k"] = e.get("key", 0)
                        o["v"] = e.get("v", 0)
                        o["n"] = e.get("n", 0)
                    else:
                        o["v"] = e["v"]
                out.append(o)
            elif k == "dlcb":
                o = {"e": "cb", "id": e["id"], "cb": e["cb"], "ph": e["ph"]}
                for f in ("v", "k"):
                    if f in e:
                        o[f] = e[f]
                if "prev" in e:
                    o["prev"] = nz(e["prev"])
                if "map" in e:
                    o["map"] = mapseq(e["map"])
                out.append(o)
            elif k == "lane":
                if e["lane"] in ("val", "map"):
                    o = {"e": "lane", "lane": e["lane"], "m": e["op"]}
                    for f in ("k", "v"):
                        if f in e:
                            o[f] = e[f]
                    out.append(o)
                else:
                    out.append({"e": "other"})
            elif k in AGENT_SIDE:
                out.append({"e": "other"})
            elif k == "dlset" and e["id"] in ids:
                out.append({"e": "dlset", "id": e["id"], "v": e["v"], "ok": bool(e["ok"])})
            elif k == "dlmop" and e["id"] in ids:
                out.append({"e": "dlmop", "id": e["id"], "m": e["m"], "k": e["k"], "v": e["v"], "ok": bool(e["ok"])})
            elif k == "dlclose" and e["id"] in ids:
                out.append({"e": "dlclose", "id": e["id"], "linked": bool(e["linked"])})
            elif k == "dlout" and e["id"] in ids:
                if "err" in e:
                    out.append({"e": "dlout", "id": e["id"], "v": -999, "m": "bad", "k": 1})
                elif "body" in e:
                    v = e2e.parse_int(e["body"])
                    out.append({"e": "dlout", "id": e["id"], "v": v if v is not None else -999})
                else:
                    out.append({"e": "dlout", "id": e["id"], "m": e["m"], "k": e.get("k", 1), "v": e.get("v", 0)})
            elif k in ("stopping", "stop"):
                out.append({"e": "stopping"})
            elif k == "quiescent":
                out.append({"e": "quiescent"})
    return out

"""C10 - the codec pairs under test: message pools and frame layouts.

For every codec pair of the harness (harness/h_core/src/bin/framing.rs) this module gives
  * the pool of concrete messages the abstract cases of the specification are instantiated with
    (boundary pools: empty / one byte / tag look-alike / header look-alike / non UTF-8 bodies,
    Recon bodies of every top level shape, ids and names at their boundaries), and
  * the LAYOUT of the frame each message is encoded to, as read off the decoder state machines:
    the sequence of atoms [n, streamed, need] of specs/Framing.tla (commit points of the decoder),
    the position of the tag and of every length field (for the corruption cases), and the byte
    ranges in which a read boundary triggers one of the known findings.
Nothing here is used to decide the property: expectations come from TLC (Framing.tla /
Trace_Framing.tla); the layout only says which behaviours belong to the mechanism model M.
"""
import re

ID1 = "0102030405060708090a0b0c0d0e0f10"
ID2 = "ffffffffffffffffffffffffffffffff"
ID3 = "00000000000000000000000000000003"


def hx(b):
    return (b.encode() if isinstance(b, str) else bytes(b)).hex()


# ---- boundary pools -------------------------------------------------------------------------
RAW = [b"", b"\x03", b"ab\x00", bytes([0, 0, 0, 0, 0, 0, 0, 9, 3, 1, 2]), b"\xff\xfe",
       bytes(range(40))]
# canonical compact Recon (checked at start-up against the real printer: print(parse(s)) == s)
TYP = ["", "7", "-1234", '"a b"', "name", "@tag{a:1,b:{2,3}}", '"ñ €\U0001F600"', "%YWJj", "1.5", "true",
       '@a(1)@b{"x y",z}', "{1,2}"]
NAMES = [("n", "l"), ("/node/ü", "lane"), ("", "")]
HOSTS = [None, "h", "ws://host:9001"]

RAWH = [hx(b) for b in RAW]
TYPH = [hx(s) for s in TYP]


def is_typed_hex(h):
    return h in TYPH


# ---- messages -------------------------------------------------------------------------------

def map_msgs(B, ops_only, small):
    """map messages / operations over the body pool B (hex strings)"""
    out = []
    keys = B[1:3] if small else B[1:5]
    vals = [B[0], B[2]] if small else B[:6]
    for k in keys:
        for v in vals:
            out.append({"t": "update", "key": k, "value": v})
        out.append({"t": "remove", "key": k})
    out.append({"t": "clear"})
    if not ops_only:
        out += [{"t": "take", "n": 3}, {"t": "drop", "n": 2 ** 64 - 1}]
    return out


def lane_req(bodies):
    return [{"t": "command", "body": b} for b in bodies] + [{"t": "sync", "id": ID1}, {"t": "sync", "id": ID3},
                                                            {"t": "init_complete"}]


def lane_resp(bodies):
    return ([{"t": "event", "body": b} for b in bodies] +
            [{"t": "sync_event", "id": i, "body": b} for b, i in zip(bodies, [ID1, ID2, ID3] * len(bodies))] +
            [{"t": "initialized"}, {"t": "synced", "id": ID1}, {"t": "synced", "id": ID2}])


def store_init(bodies):
    return [{"t": "command", "body": b} for b in bodies] + [{"t": "init_complete"}]


def dl_not(bodies):
    return [{"t": "linked"}, {"t": "synced"}, {"t": "unlinked"}] + [{"t": "event", "body": b} for b in bodies]


def cmd(bodies):
    out = []
    for host, (node, lane) in zip(HOSTS, NAMES):
        out.append({"t": "register", "host": host, "node": node, "lane": lane, "reg": 7})
    for i, b in enumerate(bodies):
        node, lane = NAMES[i % len(NAMES)]
        out.append({"t": "addressed", "host": HOSTS[i % len(HOSTS)], "node": node, "lane": lane, "body": b,
                    "ow": i % 2 == 0})
    for i, b in enumerate(bodies):
        out.append({"t": "registered", "reg": (513, 0, 65535)[i % 3], "body": b, "ow": i % 2 == 1})
    return out


def req(bodies):
    out = []
    for i, t in enumerate(("link", "sync", "unlink")):
        node, lane = NAMES[i % len(NAMES)]
        out.append({"t": t, "origin": (ID1, ID2, ID3)[i], "node": node, "lane": lane})
    for i, b in enumerate(bodies):
        node, lane = NAMES[i % len(NAMES)]
        out.append({"t": "command", "origin": ID1, "node": node, "lane": lane, "body": b})
    return out


def resp(bodies, ubodies):
    out = []
    for i, t in enumerate(("linked", "synced")):
        node, lane = NAMES[i % len(NAMES)]
        out.append({"t": t, "origin": (ID1, ID2)[i], "node": node, "lane": lane})
    for i, b in enumerate([None] + ubodies):
        node, lane = NAMES[i % len(NAMES)]
        out.append({"t": "unlinked", "origin": ID3, "node": node, "lane": lane, "body": b})
    for i, b in enumerate(bodies):
        node, lane = NAMES[i % len(NAMES)]
        out.append({"t": "event", "origin": ID1, "node": node, "lane": lane, "body": b})
    return out


def pool(codec, small):
    R = RAWH[:4] if small else RAWH
    T = TYPH[:7] if small else TYPH
    table = {
        "with_len_bytes": lambda: [{"t": "bytes", "body": b} for b in R],
        "with_len_recon": lambda: [{"t": "bytes", "body": b} for b in T],
        "lane_req_raw_value": lambda: lane_req(R),
        "lane_req_value": lambda: lane_req(T),
        "lane_req_raw_map": lambda: lane_req(map_msgs(RAWH, False, small)),
        "lane_req_map": lambda: lane_req(map_msgs(TYPH, False, small)),
        "lane_resp_raw_value": lambda: lane_resp(R),
        "lane_resp_value": lambda: lane_resp(T),
        "lane_resp_raw_map": lambda: lane_resp(map_msgs(RAWH, True, small)),
        "lane_resp_map": lambda: lane_resp(map_msgs(TYPH, True, small)),
        "map_msg_raw": lambda: map_msgs(RAWH, False, small) + [{"t": "update", "key": RAWH[0], "value": RAWH[0]},
                                                               {"t": "remove", "key": RAWH[0]}],
        "map_msg": lambda: map_msgs(TYPH, False, small),
        "map_msg_raw_to_typed": lambda: map_msgs(TYPH, False, small),
        "map_op_raw": lambda: map_msgs(RAWH, True, small) + [{"t": "update", "key": RAWH[0], "value": RAWH[0]}],
        "map_op": lambda: map_msgs(TYPH, True, small),
        "map_op_typed_to_raw": lambda: map_msgs(TYPH, True, small),
        "store_init_raw_value": lambda: store_init(R),
        "store_init_value": lambda: store_init(T),
        "store_init_raw_map": lambda: store_init(map_msgs(RAWH, False, small)),
        "store_init_map": lambda: store_init(map_msgs(TYPH, False, small)),
        "store_initialized": lambda: [{"t": "initialized"}],
        "store_resp_value": lambda: [{"t": "event", "body": b} for b in T],
        "store_resp_map": lambda: [{"t": "event", "body": b} for b in map_msgs(TYPH, True, small)],
        "dl_not_value": lambda: dl_not(T),
        "dl_not_map": lambda: dl_not(map_msgs(TYPH, False, small)),
        "dl_op": lambda: [{"t": "op", "body": b} for b in T],
        "cmd_raw": lambda: cmd(R),
        "cmd": lambda: cmd(T),
        "req_raw": lambda: req(R),
        "req": lambda: req(T),
        "resp_raw": lambda: resp(R, RAWH[1:3]),
        "resp": lambda: resp(T, RAWH[1:3]),
    }
    return table[codec]()


CODECS = ["with_len_bytes", "with_len_recon",
          "lane_req_raw_value", "lane_req_value", "lane_req_raw_map", "lane_req_map",
          "lane_resp_raw_value", "lane_resp_value", "lane_resp_raw_map", "lane_resp_map",
          "map_msg_raw", "map_msg", "map_msg_raw_to_typed", "map_op_raw", "map_op", "map_op_typed_to_raw",
          "store_init_raw_value", "store_init_value", "store_init_raw_map", "store_init_map",
          "store_initialized", "store_resp_value", "store_resp_map",
          "dl_not_value", "dl_not_map", "dl_op",
          "cmd_raw", "cmd", "req_raw", "req", "resp_raw", "resp"]

# which inner decoder reads the body of a message, per codec
#   "wlb"  WithLengthBytesCodec (all or nothing)          "wlr"  WithLenRecognizerDecoder (streamed Recon)
#   "rmo"  RawMapOperationDecoder (all or nothing)         "tmo"  MapOperationDecoder<K,V> (streamed key, value)
#   "rmm"  MessageDecoder<RawMapOperationDecoder>          "tmm"  MessageDecoder<MapOperationDecoder<K,V>>
INNER = {
    "with_len_bytes": "wlb", "with_len_recon": "wlr",
    "lane_req_raw_value": "wlb", "lane_req_value": "wlr", "lane_req_raw_map": "rmm", "lane_req_map": "tmm",
    "lane_resp_raw_value": "wlb", "lane_resp_value": "wlr", "lane_resp_raw_map": "rmo", "lane_resp_map": "tmo",
    "map_msg_raw": "rmm", "map_msg": "tmm", "map_msg_raw_to_typed": "tmm",
    "map_op_raw": "rmo", "map_op": "tmo", "map_op_typed_to_raw": "rmo",
    "store_init_raw_value": "wlb", "store_init_value": "wlr", "store_init_raw_map": "rmm", "store_init_map": "tmm",
    "store_resp_value": "wlb", "store_resp_map": "rmo",
    "cmd_raw": "wlb", "cmd": "wlr",
}

TYPED_BODY = {"with_len_recon", "lane_req_value", "lane_req_map", "lane_resp_value", "lane_resp_map", "map_msg",
              "map_msg_raw_to_typed", "map_op", "store_init_value", "store_init_map", "dl_not_value", "dl_not_map",
              "cmd", "req"}


def blen(h):
    return len(h) // 2


class Layout:
    """atoms: [n, streamed, need]; fields: (role, offset, width, info); recon: byte ranges of Recon
    texts read by an incremental recognizer; kf: {finding id: [(lo, hi)]} half open ranges of read
    boundaries (offsets inside the frame) that trigger a known finding."""

    def __init__(self):
        self.atoms = []
        self.fields = []
        self.recon = []
        self.kf = {}
        self.n = 0

    def fixed(self, n, need=None):
        self.atoms.append([n, 0, n if need is None else need])
        self.n += n

    def stream(self, n, recon_hex=None):
        self.atoms.append([n, 1, 0])
        if recon_hex is not None:
            self.recon.append((self.n, recon_hex))
        self.n += n

    def field(self, role, off, width, info=None):
        self.fields.append((role, off, width, info))

    def trig(self, kf, lo, hi):
        if hi > lo:
            self.kf.setdefault(kf, []).append((lo, hi))


TAGS = {
    "lane_req": [0, 1, 4], "lane_resp": [3, 5, 1, 2], "store_init": [0, 4], "store_initialized": [5],
    "store_resp": [3], "dl_not": [1, 2, 3, 4], "map_op": [0, 1, 2], "map_msg": [0, 1, 2, 3, 4],
}


def inner_atoms(L, kind, body):
    """append the atoms of the body of a message read by inner decoder `kind`"""
    base = L.n
    if kind == "wlb":
        n = blen(body)
        L.field("len", base, 8, "body")
        L.fixed(8 + n)
    elif kind == "wlr":
        n = blen(body)
        L.field("len", base, 8, "body")
        L.fixed(8)
        L.stream(n, body)
    elif kind in ("rmo", "rmm", "tmo", "tmm"):
        typed = kind in ("tmo", "tmm")
        t = body["t"]
        L.field("len", base, 8, "record")
        L.field("tag", base + 8, 1, "map_msg" if kind in ("rmm", "tmm") else "map_op")
        if t in ("take", "drop"):
            L.fixed(17)
        elif t == "clear":
            L.fixed(9)
        elif t == "remove":
            k = blen(body["key"])
            if typed:
                L.fixed(9)
                L.stream(k, body["key"])
                if kind == "tmm":
                    L.trig("KF2", base + 9, base + 9 + k)
            else:
                L.fixed(9 + k)
        elif t == "update":
            k, v = blen(body["key"]), blen(body["value"])
            L.field("len", base + 9, 8, "key")
            if typed:
                L.fixed(17)
                L.stream(k, body["key"])
                L.stream(v, body["value"])
                if kind == "tmm":
                    L.trig("KF2", base + 17, base + 17 + k + v)
            else:
                L.fixed(17 + k + v)
        else:
            raise ValueError(t)
    else:
        raise ValueError(kind)


def layout(codec, m):
    L = Layout()
    t = m.get("t")
    inner = INNER.get(codec)
    if codec in ("with_len_bytes", "with_len_recon"):
        inner_atoms(L, inner, m["body"])
    elif codec.startswith("lane_req"):
        L.field("tag", 0, 1, "lane_req")
        if t == "command":
            L.fixed(1)
            inner_atoms(L, inner, m["body"])
        elif t == "sync":
            L.fixed(17)
        else:
            L.fixed(1)
    elif codec.startswith("lane_resp"):
        L.field("tag", 0, 1, "lane_resp")
        if t == "event":
            L.fixed(1)
            inner_atoms(L, inner, m["body"])
        elif t == "sync_event":
            L.fixed(17)
            inner_atoms(L, inner, m["body"])
        elif t == "synced":
            L.fixed(17)
        else:
            L.fixed(1)
    elif codec.startswith("map_"):
        inner_atoms(L, inner, m)
    elif codec.startswith("store_init_"):
        L.field("tag", 0, 1, "store_init")
        L.fixed(1)
        if t == "command":
            inner_atoms(L, inner, m["body"])
    elif codec == "store_initialized":
        L.field("tag", 0, 1, "store_initialized")
        L.fixed(1)
    elif codec.startswith("store_resp"):
        # StoreResponseDecoder: "if src.remaining() <= TAG_LEN { Ok(None) }": the tag is taken once two bytes are there
        L.field("tag", 0, 1, "store_resp")
        L.fixed(1, need=2)
        inner_atoms(L, inner, m["body"])
    elif codec.startswith("dl_not"):
        L.field("tag", 0, 1, "dl_not")
        if t == "event":
            if codec == "dl_not_value":
                n = blen(m["body"])
                L.field("len", 1, 8, "body")
                L.fixed(9)
                L.stream(n, m["body"])
            else:
                # the body is a map message in its binary encoding, fed to MapMessageDecoder through
                # consume_bounded: one streamed atom
                B = Layout()
                inner_atoms(B, "tmm", m["body"])
                L.field("len", 1, 8, "body")
                L.fixed(9)
                for (role, off, w, info) in B.fields:
                    L.field(role, 9 + off, w, info)
                for (off, h) in B.recon:
                    L.recon.append((9 + off, h))
                for k, rs in B.kf.items():
                    for (lo, hi) in rs:
                        L.trig(k, 9 + lo, 9 + hi)
                L.stream(B.n)
        else:
            L.fixed(1)
    elif codec == "dl_op":
        n = blen(m["body"])
        L.field("len", 0, 8, "body")
        L.fixed(8 + n)
    elif codec in ("cmd_raw", "cmd"):
        L.field("flags", 0, 1, "cmd")
        L.fixed(1)
        if t == "registered":
            L.fixed(2)
            inner_atoms(L, inner, m["body"])
        else:
            host, node, lane = m["host"], m["node"].encode(), m["lane"].encode()
            hl = 0 if host is None else len(host.encode())
            hdr = 16 + (8 if host is not None else 0)
            off = 1
            if host is not None:
                L.field("len", off, 8, "host")
                off += 8
            L.field("len", off, 8, "node")
            L.field("len", off + 8, 8, "lane")
            strings = hl + len(node) + len(lane)
            if t == "register":
                L.fixed(hdr + strings + 2)
                L.trig("KF3", 1, L.n)
            else:
                L.fixed(hdr + strings)
                inner_atoms(L, inner, m["body"])
    elif codec in ("req_raw", "req", "resp_raw", "resp"):
        node, lane = m["node"].encode(), m["lane"].encode()
        body = m.get("body")
        n = blen(body) if body else 0
        L.field("len", 16, 4, "node")
        L.field("len", 20, 4, "lane")
        L.field("tag3", 24, 1, "req" if codec.startswith("req") else "resp")
        L.field("len61", 24, 8, "body")
        hdr = 32 + len(node) + len(lane)
        if codec == "req":
            L.fixed(hdr)
            if t == "command":
                L.stream(n, body)
        else:
            L.fixed(hdr + n)
    else:
        raise ValueError(codec)
    # KF1: a read boundary strictly inside a top level primitive token of a Recon text that is read by
    # the incremental recognizer
    if codec in TYPED_BODY:
        for (off, h) in L.recon:
            for (lo, hi) in primitive_tokens(bytes.fromhex(h)):
                L.trig("KF1", off + lo + 1, off + hi)
    return L


_PRIM = re.compile(rb"^(?:@[^\s@({]+(?:\((?:[^()\"]|\"[^\"]*\")*\))?\s*)*([^\s\"@{}(),;:]+)$")


def primitive_tokens(text):
    """byte ranges (lo, hi) of a bare top level primitive (identifier, number, boolean, blob): either
    the whole text, or the value that follows a run of attributes."""
    if not text or text[:1] in (b'"', b"{"):
        return []
    m = _PRIM.match(text)
    if not m:
        return []
    return [(m.start(1), m.end(1))]


def defined_tags(info):
    return TAGS[info]

"""C02, configuration K (component level): the two coalescing queues between a map lane and its
subscribers, and the take / drop key order.

  RT  swimos_runtime  backpressure::map_queue::MapOperationQueue  (keys compared as ReconKey)
  AG  swimos_agent    MapStoreInner<K, V, WriteQueues<K>, M> = the Inner of MapLane:
                      content + EventQueue<K, ()> + sync queues + round-robin NextWrite
  COMP  AG whose emitted responses are pushed into one RT queue per consumer

specs/MapQueue.tla    M: one action per real operation, epochs modulo E
specs/MapReplica.tla  P: the property as pure operators (lane history per key, per-consumer
                      admissible suffix, outstanding clears, replica); used by M's ghost
                      consumers and by the trace specification alike
specs/Trace_MapQueue.tla  P as a trace specification over recorded push / pop streams

B3  TLC checks M |= P (PAccepts, Converged, RefIsContent) and the M-only sanity invariants
    (IndexInRange = the debug_assert, EpochMapExact, ClearAtHead, SyncIdxOk, EventsMatchContent)
    exhaustively for every reachable state in which no subscriber lags more than MaxLag lane
    writes behind (runs of unbounded length); TLC -simulate runs of the composition check the
    same invariants on long random behaviours without that bound.
B1  the complete state graphs of RT and AG are dumped (Ghost = FALSE: finite without any bound);
    a transition cover + random walks, each extended by the model's drain steps, and the
    simulated behaviours of COMP are replayed on the real queues (harness h_runtime/mapqueue).
    Abstract keys / values are concretised from pools: key texts that ReconKey really equates
    (calibrated against the real comparator on every run), typed keys i32 / String / Value,
    BTreeMap and HashMap backings.  Every call's complete result (operation kind, key text,
    value, emptiness; removed keys; snapshot keys; final map) is compared with M.
B2  every execution that differs from M, a sample of the conforming ones, and all executions
    whose exact order M does not predict (HashMap iteration order) are validated by TLC against
    Trace_MapQueue (P).  P rejects => VIOLATION; differs from M but P accepts => MODEL-DRIFT note.
TD  TLC enumerates every set of present keys x drop|take x n at small scope from MapReplica's
    TDRemoved (checked against the law TDLaw by TLC); the harness runs the real drop_or_take for
    HashMap and BTreeMap backings and several key types with keys concretised from ordered pools.
"""
import itertools, json, os, random, threading, time
from vlib import core
from vlib import replay as rp

MEMBER, COMPONENT = "h_runtime", "mapqueue"
M_INVS = ["TypeOK", "IndexInRange", "EpochMapExact", "ClearAtHead", "SyncIdxOk", "EventsMatchContent"]
P_INVS = ["PAccepts", "Converged", "RefIsContent"]

# ----------------------------------------------------------------------------- pools

# key texts: every family is one Recon value written in different ways (verified at run time
# against the real ReconKey equality and hash: see calibrate())
RT_FAMILIES = [
    ["1", " 1", "01"], ["a", '"a"', "a "], ["@a", "@a{}", "@a()"], ["{1,2}", "{1, 2}", "{1;2}"],
    ["@x(1)", "@x(1){}", "@x( 1 )"], ["0.5", "0.50", " 0.5"], ["2", "02", "2 "], ["-1", "-01", " -1"],
    ["true", " true", "true "], ["b", '"b"', "b "], ["{a:1}", "{a: 1}", '{"a":1}'], ["@a b", "@a{b}", "@a {b}"],
]
# value v has a text of length v (MapOperationQueue reuses a queued buffer iff its capacity suffices)
RT_VALS = {1: ["1", "a", "7"], 2: ["22", "bc", "-1"], 3: ["333", "@ab", "1.5"]}

# typed keys in the documented key order (order of the Recon model representation) and values
AG_POOLS = {
    "i32": dict(keys=[-2147483648, -7, 0, 3, 10, 200, 2147483647], vals={1: 7, 2: 42, 3: 333}),
    "string": dict(keys=["", "10", "9", "B", "a", "a b", "\u00e9"], vals={1: "x", 2: "yz", 3: "abc"}),
    "value": dict(keys=["-7", "0", "3", "10", "200"], vals={1: "7", 2: "42", 3: "333"}),
    "value_text": dict(keys=['"10"', '"9"', "B", "a", '"a b"'], vals={1: "x", 2: "yz", 3: "abc"}),
}
assert AG_POOLS["string"]["keys"] == sorted(AG_POOLS["string"]["keys"], key=lambda s: s.encode())


def ktype_of(pool):
    return "value" if pool.startswith("value") else pool


def run_harness_cases(cases, wd, tag):
    return rp.run_cases(MEMBER, COMPONENT, cases, wd, tag=tag, strip=False)


def calibrate(wd, out):
    """Ask the real code which texts are one key and how typed keys / values print."""
    texts = [(fi, t) for fi, fam in enumerate(RT_FAMILIES) for t in fam]
    pairs = list(itertools.combinations(range(len(texts)), 2))
    cases = [{"id": "probe", "cfg": {"mode": "probe"},
              "acts": [{"k": "cmp", "a": texts[i][1], "b": texts[j][1]} for i, j in pairs]}]
    for pool, d in AG_POOLS.items():
        cases.append({"id": "print:" + pool, "cfg": {"mode": "print", "ktype": ktype_of(pool)},
                      "acts": [{"k": "print", "key": k} for k in d["keys"]] +
                              [{"k": "print", "val": v} for v in d["vals"].values()]})
    res = run_harness_cases(cases, wd, "calibrate")
    if res[0].get("panic"):
        raise core.ToolError("probe panicked: %s" % res[0]["panic"])
    bad, premise = [], []
    for (i, j), o in zip(pairs, res[0]["obs"]):
        same = texts[i][0] == texts[j][0]
        if o.get("val_eq") is not None and o["val_eq"] != same:
            premise.append((texts[i][1], texts[j][1], o))      # the pool itself is wrong (or the parser: C09)
        elif o["eq"] != same or (same and not o["hash_eq"]):
            bad.append({"a": texts[i][1], "b": texts[j][1], "same_value": same, "ReconKey_eq": o["eq"], "hash_eq": o["hash_eq"]})
    if premise:
        raise core.ToolError("key text pool does not match the parsed values: %s" % premise[:5])
    if bad:
        # backpressure/key/mod.rs is anchored in C02: the relief queue's key type must identify exactly the
        # texts that are one Recon value (ground truth: both texts parsed by the Recon parser, Value::eq)
        out.violation("ReconKey (the key type of MapOperationQueue) %s: %s" % (
            "splits one key" if any(b["same_value"] for b in bad) else "merges distinct keys",
            "; ".join("%r vs %r: eq=%s hash_eq=%s, parsed values %s" % (
                b["a"], b["b"], b["ReconKey_eq"], b["hash_eq"], "equal" if b["same_value"] else "differ") for b in bad[:4])),
            {"component": "reconkey-probe", "pairs": bad[:40]})
    prints = {}
    for pool, r in zip(AG_POOLS, res[1:]):
        if r.get("panic"):
            raise core.ToolError("print panicked for %s: %s" % (pool, r["panic"]))
        d = AG_POOLS[pool]
        nk = len(d["keys"])
        prints[pool] = dict(
            key_json=[o["key_json"] for o in r["obs"][:nk]], key_text=[o["key"] for o in r["obs"][:nk]],
            val_json={v: o["val_json"] for v, o in zip(d["vals"], r["obs"][nk:])},
            val_text={v: o["val"] for v, o in zip(d["vals"], r["obs"][nk:])})
        for v, t in prints[pool]["val_text"].items():
            if len(t) != v:
                raise core.ToolError("value pool %s: value %s prints as %r (length must be %s)" % (pool, v, t, v))
    out.add(pool_pairs_probed=len(pairs))
    return prints


# ----------------------------------------------------------------------------- concretisation

class Binding:
    """abstract (key rank, alias, value index) <-> the concrete keys / values of one case"""

    def __init__(self, mode, nk, rng, prints, pool=None):
        self.mode, self.nk = mode, nk
        if mode == "rt":
            fams = rng.sample(range(len(RT_FAMILIES)), nk)
            self.texts = {c + 1: RT_FAMILIES[f] for c, f in enumerate(fams)}
            pick = rng.randrange(3)
            self.vals = {v: RT_VALS[v][pick] for v in RT_VALS}
            self.text2key = {t: (c, a + 1) for c, fam in self.texts.items() for a, t in enumerate(fam)}
            self.val2v = {t: v for v, t in self.vals.items()}
            self.desc = {"keys": self.texts, "vals": self.vals}
        else:
            self.pool = pool
            pr = prints[pool]
            idx = sorted(rng.sample(range(len(AG_POOLS[pool]["keys"])), nk))
            self.keys = {c + 1: AG_POOLS[pool]["keys"][i] for c, i in enumerate(idx)}
            self.vals = dict(AG_POOLS[pool]["vals"])
            self.json2key = {core.canon(pr["key_json"][i]): c + 1 for c, i in enumerate(idx)}
            self.text2key = {pr["key_text"][i]: (c + 1, 1) for c, i in enumerate(idx)}
            self.json2v = {core.canon(j): v for v, j in pr["val_json"].items()}
            self.val2v = {t: v for v, t in pr["val_text"].items()}
            self.desc = {"pool": pool, "keys": self.keys, "vals": self.vals}

    def concretise(self, a):
        k = a["k"]
        if k == "push":
            c = {"k": "push", "op": a["op"]}
            if a["op"] != "clr":
                c["key"] = self.texts[a["key"]["c"]][a["key"]["a"] - 1]
            if a["op"] == "upd":
                c["val"] = self.vals[a["v"]]
            return c
        if k == "update":
            return {"k": k, "key": self.keys[a["key"]], "val": self.vals[a["v"]]}
        if k == "remove":
            return {"k": k, "key": self.keys[a["key"]]}
        if k in ("drop", "take"):
            return {"k": k, "n": a["n"]}
        if k == "sync":
            return {"k": k, "id": a["id"]}
        if k == "rtpop":
            return {"k": k, "to": a["to"]}
        return {"k": k}     # pop, clear, agpop, drain

    # observed -> model vocabulary (None = not expressible: outside the key / value space)
    def abs_rt_out(self, o):
        if o is None or "op" not in o:
            return None
        op = o["op"]
        if op in ("none", "clr"):
            return {"op": op, "key": {"c": 0, "a": 0}, "v": 0}
        key = self.text2key.get(o.get("key"))
        if key is None:
            return None
        if op == "rem":
            return {"op": op, "key": {"c": key[0], "a": key[1]}, "v": 0}
        v = self.val2v.get(o.get("val"))
        if op != "upd" or v is None:
            return None
        return {"op": op, "key": {"c": key[0], "a": key[1]}, "v": v}

    def abs_key(self, j):
        return self.json2key.get(core.canon(j))

    def abs_ag_out(self, o):
        if o is None or "t" not in o:
            return None
        t = o["t"]
        if t == "none":
            return {"t": t, "op": "", "id": "", "key": 0, "v": 0}
        if t == "synced":
            return {"t": t, "op": "", "id": o.get("id", "?"), "key": 0, "v": 0}
        if t not in ("event", "sync"):
            return None
        op = o.get("op")
        if op == "clr":
            return {"t": t, "op": op, "id": o.get("id", ""), "key": 0, "v": 0}
        c = self.abs_key(o.get("key"))
        if c is None:
            return None
        if op == "rem":
            return {"t": t, "op": op, "id": o.get("id", ""), "key": c, "v": 0}
        v = self.json2v.get(core.canon(o.get("val")))
        if op != "upd" or v is None:
            return None
        return {"t": t, "op": op, "id": o.get("id", ""), "key": c, "v": v}


def expected_obs(a):
    """what M says the call returns, in the vocabulary of abstract_obs"""
    k = a["k"]
    e = {"empty": a["empty"]} if "empty" in a else {}
    if k in ("pop", "rtpop", "agpop"):
        e["out"] = a["out"]
    elif k in ("drop", "take"):
        e["removed"] = list(a["removed"])
    elif k == "sync":
        e["keys"] = list(a["keys"])
    return e


def abstract_obs(b, a, o):
    """what the real code returned, in the same vocabulary ('bad' marks what cannot be expressed)"""
    k = a["k"]
    if o is None:
        return {"bad": "no observation"}
    if "panic" in o:
        return {"bad": "panic in the code under test: %s" % o["panic"]}
    if "err" in o:
        return {"bad": "push failed: %s" % o["err"]}
    e = {}
    if k in ("push", "pop"):
        e["empty"] = o.get("empty")
    elif k == "rtpop":
        e["empty"] = o.get("qempty")
    elif k != "drain":
        e["empty"] = o.get("empty")
    if k in ("pop", "rtpop"):
        e["out"] = b.abs_rt_out(o.get("out"))
    elif k == "agpop":
        e["out"] = b.abs_ag_out(o.get("out"))
    elif k in ("drop", "take"):
        e["removed"] = [b.abs_key(x) for x in o.get("removed", [])]
    elif k == "sync":
        e["keys"] = [b.abs_key(x) for x in o.get("keys", [])]
    if e.get("out", 0) is None or None in e.get("removed", []) or None in e.get("keys", []):
        e["bad"] = "key / value outside the case's key space: %s" % json.dumps(o)[:300]
    return e


# ----------------------------------------------------------------------------- P traces

def to_trace(case, result):
    """Trace_MapQueue events of one recorded execution.  Uses only the inputs of the calls and what
    the real code returned (never M's expectations)."""
    b, mode = case["_b"], case["cfg"]["mode"]
    cons = case["cfg"].get("consumers", ["L"])
    ev = [{"k": "reset", "nk": b.nk, "cons": cons, "active": ["L"]}]
    if result.get("panic") is not None:
        ev.append({"k": "bad", "what": "panic: %s" % str(result["panic"])[:300]})
        return ev
    linked = ["L"]
    obs = result.get("obs", [])
    wq_empty = [True]

    def rt_obs(to, o):
        x = b.abs_rt_out(o)
        if x is None:
            ev.append({"k": "bad", "what": "undecodable %s" % json.dumps(o)[:200]})
        elif x["op"] == "none":
            if mode == "rt" or wq_empty[0]:
                ev.append({"k": "quiet", "of": [to]})
        else:
            ev.append({"k": "obs", "to": to, "op": x["op"], "c": x["key"]["c"], "v": x["v"]})

    def ag_obs(o):
        x = b.abs_ag_out(o)
        if x is None:
            ev.append({"k": "bad", "what": "undecodable %s" % json.dumps(o)[:200]})
            return
        if x["t"] == "none":
            if mode == "ag":
                ev.append({"k": "quiet", "of": list(linked)})
        elif x["t"] == "event" and mode == "ag":
            for c in linked:
                ev.append({"k": "obs", "to": c, "op": x["op"], "c": x["key"], "v": x["v"]})
        elif x["t"] == "sync" and mode == "ag":
            ev.append({"k": "obs", "to": x["id"], "op": x["op"], "c": x["key"], "v": x["v"]})

    for i, a in enumerate(case["acts"]):
        if i >= len(obs):
            ev.append({"k": "bad", "what": "no observation for call %d" % i})
            break
        o, k = obs[i], a["k"]
        if "panic" in o:
            ev.append({"k": "bad", "what": "panic at call %d: %s" % (i, str(o["panic"])[:300])})
            break
        if "err" in o:
            ev.append({"k": "bad", "what": o["err"][:200]})
            break
        if mode != "rt" and "empty" in o:
            wq_empty[0] = bool(o["empty"])
        if k == "push":
            if a["op"] == "upd":
                ev.append({"k": "lane", "op": "upd", "c": a["key"]["c"], "v": a["v"]})
            elif a["op"] == "rem":
                ev.append({"k": "lane", "op": "rem", "c": a["key"]["c"]})
            else:
                ev.append({"k": "lane", "op": "clr"})
        elif k == "pop":
            rt_obs("L", o.get("out"))
        elif k == "rtpop":
            rt_obs(a["to"], o.get("out"))
        elif k == "update":
            ev.append({"k": "lane", "op": "upd", "c": a["key"], "v": a["v"]})
        elif k == "remove":
            ev.append({"k": "lane", "op": "rem", "c": a["key"]})
        elif k == "clear":
            ev.append({"k": "lane", "op": "clr"})
        elif k in ("drop", "take"):
            ev.append({"k": "td", "kind": k, "n": a["n"]})
        elif k == "sync":
            if a["id"] not in linked:
                linked.append(a["id"])
                ev.append({"k": "link", "to": a["id"]})
        elif k == "agpop":
            ag_obs(o.get("out"))
        elif k == "drain":
            for d in o.get("drained", []):
                if "ag" in d:
                    if d["ag"].get("t") == "none":
                        wq_empty[0] = True
                    ag_obs(d["ag"])
                else:
                    rt_obs(d["to"], d.get("out"))
    fin = result.get("final")
    if fin is not None and case["acts"] and case["acts"][-1]["k"] == "drain" and mode != "rt":
        m = [0] * b.nk
        ok = True
        for kj, vj in fin.get("map", []):
            c, v = b.abs_key(kj), b.json2v.get(core.canon(vj))
            if c is None or v is None:
                ok = False
            else:
                m[c - 1] = v
        if ok:
            ev.append({"k": "quiet", "of": list(linked), "map": m})
        else:
            ev.append({"k": "bad", "what": "final map outside the key / value space: %s" % json.dumps(fin)[:300]})
    return ev


def p_batch(traces, wd, tag, max_reject=12):
    """Validate many recorded executions with one TLC run (reset events separate them).
    traces: [(key, events)].  Returns ({key: rejected event}, events validated, TLC runs, keys left unjudged
    because max_reject executions were already rejected)."""
    rejected, total, runs = {}, 0, 0
    rest = list(traces)
    while rest and len(rejected) < max_reject:
        events, starts = [], []
        for key, ev in rest:
            starts.append((len(events), key))
            events += ev
        r = core.trace_validate("Trace_MapQueue", events, os.path.join(wd, "%s_%d" % (tag, runs)), timeout=1200)
        runs += 1
        if r.get("status", "").startswith("invariant"):
            raise core.ToolError("trace spec invariant failure: %s" % r)
        if r["accepted"]:
            total += len(events)
            break
        m = r["matched"]              # events[m] is the first one P does not accept
        total += m
        idx = max(i for i, (s, _) in enumerate(starts) if s <= m)
        rejected[starts[idx][1]] = {"at": m - starts[idx][0], "event": events[m] if m < len(events) else None}
        rest = rest[idx + 1:]
    else:
        # left the loop without an all-accepting run: whatever is still in `rest` was never judged
        return rejected, total, runs, {key for key, _ in rest}
    return rejected, total, runs, set()


# ----------------------------------------------------------------------------- graph helpers

def _index(g):
    if not hasattr(g, "_kidx"):
        g._kidx = {s: {core.canon(a): t for (a, t) in lst} for s, lst in g.succ.items()}
    return g._kidx


def end_node(g, acts):
    idx = _index(g)
    cur = g.inits[0]
    for a in acts:
        cur = idx[cur][core.canon(a)]
    return cur


def drain_steps(g, node, mode, limit=80):
    """the model's own drain: pop until nothing is returned (agent first, then every consumer)"""
    acts = []

    def follow(pred):
        nonlocal node
        for _ in range(limit):
            pick = next(((a, t) for (a, t) in g.succ.get(node, ()) if pred(a)), None)
            if pick is None:
                return
            acts.append(pick[0])
            node = pick[1]
            out = pick[0]["out"]
            if out.get("t") == "none" or out.get("op") == "none":
                return
    if mode == "rt":
        follow(lambda a: a["k"] == "pop")
    else:
        follow(lambda a: a["k"] == "agpop")
        if mode == "comp":
            view = json.loads(node)
            for c in ["L"] + sorted(view["linked"]):
                follow(lambda a, c=c: a["k"] == "rtpop" and a["to"] == c)
    return acts, node


# ----------------------------------------------------------------------------- TLC jobs

def consts(mode, nk, remotes=(), a2=(), a3=(), nv=2, ghost=False, lag=0, watched=("L",), tdk=None):
    d = dict(NK=nk, Alias2=set(a2), Alias3=set(a3), NV=nv, E=nk + 2, Remotes=set(remotes), Mode=mode,
             Ghost=ghost, MaxLag=lag, Watched=set(watched))
    if tdk is not None:
        d["TDK"] = tdk
    return d


def plan(tier):
    if tier == "quick":
        return dict(
            graphs=[("rt", consts("rt", 2, a2=(1,), tdk=4)), ("ag", consts("ag", 2, remotes=("r1",), tdk=0))],
            b3=[consts("rt", 2, a2=(1,), ghost=True, lag=2, tdk=0),
                consts("ag", 2, ghost=True, lag=2, tdk=0)],
            sims=[(consts("comp", 2, remotes=("r1",), ghost=True, watched=("L", "r1")), 100, 40),
                  (consts("rt", 4, a2=(1, 2), a3=(1,), nv=3, ghost=True), 40, 50),
                  (consts("ag", 3, remotes=("r1", "r2"), nv=3, ghost=True, watched=("L", "r1", "r2")), 40, 50)],
            walks={"rt": (250, 40), "ag": (250, 40)}, extend=3, cover_limit={"rt": None, "ag": 2500},
            p_sample=12, hash_every=8)
    return dict(
        graphs=[("rt", consts("rt", 2, a2=(1, 2), a3=(1,), tdk=6)), ("rt", consts("rt", 3, a2=(1,), tdk=0)),
                ("ag", consts("ag", 2, remotes=("r1",), tdk=0)), ("comp", consts("comp", 1, tdk=0))],
        b3=[consts("rt", 2, a2=(1,), ghost=True, lag=3, tdk=0),
            consts("ag", 2, ghost=True, lag=3, tdk=0),
            consts("ag", 2, remotes=("r1",), ghost=True, lag=2, watched=("r1",), tdk=0),
            consts("ag", 2, remotes=("r1",), ghost=True, lag=1, watched=("L",), tdk=0),
            consts("comp", 1, ghost=True, lag=2, tdk=0),
            consts("comp", 2, ghost=True, lag=1, tdk=0)],
        sims=[(consts("comp", 3, remotes=("r1", "r2"), nv=3, ghost=True, watched=("L", "r1", "r2")), 150, 60),
              (consts("comp", 2, remotes=("r1",), ghost=True, watched=("L", "r1")), 200, 80),
              (consts("rt", 4, a2=(1, 2, 3), a3=(1, 2), nv=3, ghost=True), 150, 80),
              (consts("ag", 3, remotes=("r1", "r2"), nv=3, ghost=True, watched=("L", "r1", "r2")), 150, 80)],
        walks={"rt": (3000, 60), "ag": (3000, 60), "comp": (2000, 60)}, extend=6,
        cover_limit={"rt": None, "ag": None, "comp": None},
        p_sample=4, hash_every=5)


class Jobs:
    """run several TLC invocations concurrently without ever using more than 4 workers"""

    def __init__(self, budget=4):
        self.cv = threading.Condition()
        self.free = budget
        self.threads, self.results, self.errors = [], {}, []

    def submit(self, name, workers, fn):
        def body():
            with self.cv:
                while self.free < workers:
                    self.cv.wait()
                self.free -= workers
            try:
                self.results[name] = fn()
            except Exception as ex:            # re-raised in wait()
                self.errors.append(ex)
            finally:
                with self.cv:
                    self.free += workers
                    self.cv.notify_all()
        t = threading.Thread(target=body)
        t.start()
        self.threads.append(t)

    def wait(self):
        for t in self.threads:
            t.join()
        if self.errors:
            raise self.errors[0]
        return self.results


def tlc_graph(k, wd):
    c = core.cfg(constants=k, invariants=M_INVS + ["InitDump", "TDDump"], view="View", action_constraints=["EdgeDump"])
    r = core.run_tlc("MC_MapQueue", c, wd, workers=1, timeout=1500)
    if not r.ok:
        raise core.ToolError("M sanity invariant %s fails in TLC for %s:\n%s" % (r.violated, k, r.counterexample[:3000]))
    return r


def tlc_b3(k, wd, workers):
    c = core.cfg(constants=k, invariants=M_INVS + P_INVS, constraints=["LagBound"])
    return core.run_tlc("MC_MapQueue", c, wd, workers=workers, timeout=3000)


def tlc_sim(k, num, depth, wd):
    kk = dict(k)
    kk["SimDepth"] = depth
    c = core.cfg(init="SimInit", next_="SimNext", constants=kk, invariants=M_INVS + P_INVS + ["SimDump"])
    return core.run_tlc("Sim_MapQueue", c, wd, workers=1, timeout=1500, simulate="num=%d" % num,
                        extra=["-depth", str(depth + 1), "-seed", str(core.seed())], coverage=False)


def kname(k):
    return "%s nk=%d alias=%s/%s remotes=%s%s" % (
        k["Mode"], k["NK"], sorted(k["Alias2"]), sorted(k["Alias3"]), sorted(k["Remotes"]),
        (" lag<=%d watched=%s" % (k["MaxLag"], sorted(k["Watched"]))) if k["Ghost"] and k["MaxLag"] else "")


# ----------------------------------------------------------------------------- replay + verdicts

def make_case(cid, mode, nk, acts, rng, prints, pool=None, backing="btree", consumers=("L",)):
    b = Binding(mode, nk, rng, prints, pool)
    cfg = {"mode": mode, "consumers": list(consumers)}
    if mode != "rt":
        cfg.update(ktype=ktype_of(pool), backing=backing, pool=pool)
    return {"id": cid, "cfg": cfg, "acts": acts, "_b": b}


def wire(case):
    return {"id": case["id"], "cfg": case["cfg"], "acts": [case["_b"].concretise(a) for a in case["acts"]]}


def diverges(case, result, final_content=None):
    """first step at which the real code and M differ (None = conforms), with both sides"""
    if result.get("panic") is not None:
        return (0, None, {"panic": result["panic"]})
    obs = result.get("obs", [])
    b = case["_b"]
    for i, a in enumerate(case["acts"]):
        o = obs[i] if i < len(obs) else None
        if a["k"] == "drain":
            continue
        e, x = expected_obs(a), abstract_obs(b, a, o)
        if e != x:
            return (i, e, x)
    if final_content is not None and case["cfg"]["mode"] != "rt":
        m = [0] * b.nk
        for kj, vj in result.get("final", {}).get("map", []):
            c, v = b.abs_key(kj), b.json2v.get(core.canon(vj))
            if c is None or v is None:
                return (len(case["acts"]), {"map": final_content}, {"map": result["final"]["map"]})
            m[c - 1] = v
        if m != list(final_content):
            return (len(case["acts"]), {"map": list(final_content)}, {"map": m})
    return None


def public_case(case):
    return {"id": case["id"], "cfg": case["cfg"], "acts": case["acts"], "binding": case["_b"].desc,
            "concrete": wire(case)["acts"]}


def judge(out, what, cases, results, finals, wd, tag, p_sample, stats, always_p=()):
    """conformance with M, then P for everything that differs (+ a sample + `always_p`)"""
    to_p, div = [], {}
    for i, (c, r) in enumerate(zip(cases, results)):
        stats["replayed_calls"] += len(c["acts"])
        d = diverges(c, r, finals[i] if finals else None)
        if d is None:
            stats["conform"] += 1
            if i % p_sample == 0 or i in always_p:
                to_p.append((i, to_trace(c, r)))
        else:
            div[i] = d
            to_p.append((i, to_trace(c, r)))
    rejected, nev, runs, unjudged = p_batch(to_p, wd, tag)
    stats["unjudged"] += len(unjudged)
    stats["p_events"] += nev
    stats["p_runs"] += runs
    stats["p_traces"] += len(to_p)
    for i, d in div.items():
        if i in rejected or i in unjudged:
            continue
        if cases[i]["cfg"].get("backing") == "hash":
            stats["order_free"] += 1      # HashMap iteration order: M does not predict it, P has accepted it
            continue
        stats["drift"] += 1
        if stats["drift"] <= 3:
            out.notes.append("MODEL-DRIFT %s: case %s step %s expected %s observed %s (P accepts)" % (
                what, cases[i]["id"], d[0], json.dumps(d[1]), json.dumps(d[2])[:300]))
    for i, rej in rejected.items():
        stats["rejected"] += 1
        d = div.get(i)
        msg = "%s: case %s: P (Trace_MapQueue) rejects the recorded execution at its event %s %s; %s" % (
            what, cases[i]["id"], rej["at"], json.dumps(rej["event"]),
            ("first difference from M at call %s: expected %s, real code gave %s" % (d[0], json.dumps(d[1]), json.dumps(d[2])[:400]))
            if d else "(the execution conforms to M: M and P disagree)")
        report(out, msg, {"component": "mapqueue", "what": what, "case": public_case(cases[i]), "observed": results[i]})
    return stats


def report(out, msg, replay_obj):
    """VIOLATION, unless the failure is a listed open finding: an entry of known_findings/*.json for this
    property whose signature is {"component": "mapqueue" | "takedrop", "match": <text occurring in the message>}.
    (Keyed on the failure actually being observed; nothing is listed at the time of writing.)"""
    for f in core.open_findings(out.prop):
        sig = f.get("signature")
        if isinstance(sig, dict) and sig.get("component") == replay_obj.get("component") and sig.get("match") and sig["match"] in msg:
            out.known_finding(f["what"])
            return
    out.violation(msg, replay_obj)


def new_stats():
    return dict(replayed_calls=0, conform=0, drift=0, rejected=0, p_events=0, p_runs=0, p_traces=0, order_free=0, unjudged=0)


def run_k(tier, out, wd=None):
    wd = wd or core.workdir("KMAPQ")
    os.makedirs(wd, exist_ok=True)
    t_start = time.time()
    rng = random.Random(core.seed())
    core.build_harness(MEMBER, COMPONENT)
    prints = calibrate(wd, out)
    pl = plan(tier)
    jobs = Jobs(4)
    for gi, (mode, k) in enumerate(pl["graphs"]):
        jobs.submit(("g", gi), 1, lambda k=k, gi=gi: tlc_graph(k, os.path.join(wd, "g%d" % gi)))
    for si, (k, num, depth) in enumerate(pl["sims"]):
        jobs.submit(("s", si), 1, lambda k=k, num=num, depth=depth, si=si: tlc_sim(k, num, depth, os.path.join(wd, "s%d" % si)))
    for bi, k in enumerate(pl["b3"]):
        jobs.submit(("b", bi), 2, lambda k=k, bi=bi: tlc_b3(k, os.path.join(wd, "b%d" % bi), 2))
    res = jobs.wait()
    core.log("[K-C02] TLC jobs done after %.1fs" % (time.time() - t_start))

    tot = dict(states=0, transitions=0, traces_validated_against_impl=0)
    cov = {}

    def add_cov(r):
        for a, (d, t) in r.coverage.items():
            if a in ("EdgeDump", "LagBound", "Init"):
                continue
            o = cov.get(a, (0, 0))
            cov[a] = (o[0] + d, o[1] + t)

    # ---- B3
    b3_report = []
    for bi, k in enumerate(pl["b3"]):
        r = res[("b", bi)]
        add_cov(r)
        tot["states"] += r.distinct
        tot["transitions"] += r.generated
        b3_report.append({"config": kname(k), "distinct_states": r.distinct, "transitions": r.generated,
                          "depth": r.depth, "wall_s": round(r.wall, 1), "result": r.status})
        core.log("[K-C02] B3 %s: %d states, %d transitions, depth %d, %.1fs: %s" % (
            kname(k), r.distinct, r.generated, r.depth, r.wall, r.status))
        if not r.ok:
            # M (meant to mirror the code) breaks P or its own sanity invariants inside TLC.  That is a
            # statement about the model; the binding below decides about the code.  Make it loud.
            raise core.ToolError("TLC: MapQueue violates %s for %s - model and property disagree:\n%s" % (
                r.violated, kname(k), r.counterexample[:4000]))

    stats = new_stats()
    sample_done = set()
    # ---- B1 on the dumped graphs
    td_cases = []
    for gi, (mode, k) in enumerate(pl["graphs"]):
        r = res[("g", gi)]
        add_cov(r)
        g = core.Graph(r.tagged["EDGE"], init_views=r.tagged["INIT"])
        td_cases += r.tagged.get("TD", [])
        tot["states"] += r.distinct
        tot["transitions"] += g.n_edges
        paths = g.covering_paths(extend=pl["extend"], rng=rng, limit=pl["cover_limit"][mode])
        covered = sum(len(p_) for p_ in paths)
        nw, dw = pl["walks"][mode]
        paths += g.random_walks(nw, dw, rng)
        consumers = ["L"] + sorted(k["Remotes"])
        cases, finals, always_p = [], [], set()
        pools = ["i32", "string", "value", "value_text"]
        for i, p_ in enumerate(paths):
            node = end_node(g, p_)
            dr, node = drain_steps(g, node, mode)
            acts = list(p_) + dr + [{"k": "drain"}]
            if mode == "rt":
                cases.append(make_case("g%d.%d" % (gi, i), "rt", k["NK"], acts, rng, prints))
                finals.append(None)
            else:
                backing = "hash" if i % pl["hash_every"] == 0 else "btree"
                cases.append(make_case("g%d.%d" % (gi, i), mode, k["NK"], acts, rng, prints, pool=pools[i % len(pools)],
                                       backing=backing, consumers=consumers))
                finals.append(json.loads(node)["content"])
                if backing == "hash":
                    always_p.add(i)
        results = run_harness_cases([wire(c) for c in cases], wd, "g%d" % gi)
        before = dict(stats)
        judge(out, "MapQueue[%s]" % kname(k), cases, results, finals, wd, "pg%d" % gi, pl["p_sample"], stats, always_p)
        core.log("[K-C02] B1 %s: %d states %d edges; %d paths (%d calls, cover part %d): conform=%d order-free=%d drift=%d rejected=%d" % (
            kname(k), r.distinct, g.n_edges, len(cases), stats["replayed_calls"] - before["replayed_calls"], covered,
            stats["conform"] - before["conform"], stats["order_free"] - before["order_free"],
            stats["drift"] - before["drift"], stats["rejected"] - before["rejected"]))
        if mode not in sample_done:
            sample_done.add(mode)
            j = len(cases) // 2
            out.sample({"component": "MapQueue[%s]" % kname(k), "binding": cases[j]["_b"].desc,
                        "calls_with_expected_results": cases[j]["acts"][:10],
                        "concrete_calls": wire(cases[j])["acts"][:10],
                        "real_results": results[j].get("obs", [])[:10]})

    # ---- B1 / B3 on simulated behaviours
    for si, (k, num, depth) in enumerate(pl["sims"]):
        r = res[("s", si)]
        if not r.ok:
            raise core.ToolError("TLC -simulate: MapQueue violates %s for %s:\n%s" % (r.violated, kname(k), r.counterexample[:4000]))
        trails = r.tagged.get("REPLAY", [])
        tot["transitions"] += sum(len(t) for t in trails)
        mode = k["Mode"]
        consumers = ["L"] + sorted(k["Remotes"])
        pools = ["i32", "string", "value", "value_text"]
        cases = []
        for i, t in enumerate(trails):
            acts = [a for a in t] + [{"k": "drain"}]
            cases.append(make_case("s%d.%d" % (si, i), mode, k["NK"], acts, rng, prints, pool=pools[i % len(pools)],
                                   backing="btree", consumers=consumers))
        results = run_harness_cases([wire(c) for c in cases], wd, "s%d" % si)
        before = dict(stats)
        # the drain of a simulated behaviour has no M expectation: every one of them goes through P
        judge(out, "MapQueue-sim[%s]" % kname(k), cases, results, None, wd, "ps%d" % si, 1, stats)
        core.log("[K-C02] SIM %s: %d behaviours x %d steps (invariants incl. P held on all): conform=%d drift=%d rejected=%d" % (
            kname(k), len(trails), depth, stats["conform"] - before["conform"], stats["drift"] - before["drift"],
            stats["rejected"] - before["rejected"]))
        if cases and mode not in sample_done:
            sample_done.add(mode)
            out.sample({"component": "MapQueue-sim[%s]" % kname(k), "binding": cases[0]["_b"].desc,
                        "calls_with_expected_results": cases[0]["acts"][:10],
                        "concrete_calls": wire(cases[0])["acts"][:10], "real_results": results[0].get("obs", [])[:10]})

    # ---- take / drop
    td = run_td(out, td_cases, wd, rng, prints)

    tot["traces_validated_against_impl"] = stats["conform"] + stats["drift"] + stats["order_free"] + td["cases"]
    unvisited = sorted(a for a, (d, t) in cov.items() if t == 0)
    out.add(states=tot["states"], transitions=tot["transitions"],
            traces_validated_against_impl=tot["traces_validated_against_impl"],
            k_replayed_calls=stats["replayed_calls"], k_conform=stats["conform"], k_model_drift=stats["drift"],
            k_order_free_accepted_by_P=stats["order_free"], k_rejected=stats["rejected"],
            k_unjudged_after_rejections=stats["unjudged"],
            k_p_traces_validated=stats["p_traces"], k_p_trace_events_validated=stats["p_events"],
            k_takedrop_cases=td["cases"], k_takedrop_evaluations=td["evaluations"])
    out.add(k_b3=b3_report,
            k_action_coverage={a: {"distinct": d, "taken": t} for a, (d, t) in sorted(cov.items())},
            k_actions_never_taken=unvisited,
            k_checker_cmd="tlc MC_MapQueue (INVARIANTS %s; CONSTRAINT LagBound) + tlc -simulate Sim_MapQueue + h_runtime mapqueue + tlc Trace_MapQueue" % " ".join(M_INVS + P_INVS))
    out.assumptions += [
        "K: head_epoch cannot be preset on the real queues (no hook), so the wrapping branch of the index arithmetic is "
        "exercised in the model only (epochs modulo E = NK + 2); real runs start at epoch 0 and never reach usize::MAX",
        "K: a push / pop / handler step on one queue is atomic (the queues are owned by one task)",
        "K: which texts denote one key is taken from the real ReconKey equality and hash (calibrated each run); "
        "their correctness is C15's subject"]
    if unvisited:
        out.notes.append("K: MapQueue actions never taken in any TLC run: %s" % unvisited)
    core.log("[K-C02] done after %.1fs; P validated %d traces / %d events in %d TLC runs" % (
        time.time() - t_start, stats["p_traces"], stats["p_events"], stats["p_runs"]))
    stats.update(td=td, states=tot["states"], transitions=tot["transitions"], never_taken=unvisited)
    return stats


# ----------------------------------------------------------------------------- take / drop

def run_td(out, td_cases, wd, rng, prints):
    """TLC's enumeration (present set x kind x n, expected removal from TDRemoved, TDLaw checked by
    TLC) against the real drop_or_take, for both backings and every key pool."""
    if not td_cases:
        raise core.ToolError("TLC produced no take/drop cases")
    evaluations = 0
    bad = 0
    cases, meta = [], []
    for pool, d in AG_POOLS.items():
        pr = prints[pool]
        maxr = max((max(c["present"]) for c in td_cases if c["present"]), default=0)
        if maxr > len(d["keys"]):
            idxs = None
        for backing in ("btree", "hash"):
            acts, ms = [], []
            for c in td_cases:
                if c["present"] and max(c["present"]) > len(d["keys"]):
                    continue
                # ranks -> an order-preserving choice of pool keys, inserted in shuffled order
                r_ = len(d["keys"])
                nkeys = max(c["present"]) if c["present"] else 0
                idx = sorted(rng.sample(range(r_), nkeys)) if nkeys else []
                keys = [d["keys"][idx[x - 1]] for x in c["present"]]
                ins = list(keys)
                rng.shuffle(ins)
                acts.append({"k": "td", "kind": c["kind"], "n": c["n"], "keys": ins})
                ms.append((c, {core.canon(pr["key_json"][idx[x - 1]]): x for x in c["present"]}))
            cases.append({"id": "td:%s:%s" % (pool, backing), "cfg": {"mode": "td", "ktype": ktype_of(pool), "backing": backing}, "acts": acts})
            meta.append(ms)
    results = run_harness_cases(cases, wd, "td")
    sampled = False
    for case, ms, r in zip(cases, meta, results):
        if r.get("panic") is not None:
            report(out, "drop_or_take panicked (%s): %s" % (case["id"], r["panic"]),
                   {"component": "takedrop", "case": case, "rank_of_key": {}, "expected_removed_ranks": [], "observed": r})
            continue
        for a, (c, back), o in zip(case["acts"], ms, r["obs"]):
            evaluations += 1
            got = [back.get(core.canon(x)) for x in o["removed"]]
            if got == list(c["removed"]):
                continue
            # P for take / drop is about WHICH entries go; the order of removal is mechanism
            if None not in got and sorted(got) == sorted(c["removed"]) and len(got) == len(c["removed"]):
                out.notes.append("MODEL-DRIFT take/drop removal order %s: %s vs %s" % (case["id"], got, c["removed"]))
                continue
            bad += 1
            if bad <= 10:
                byrank = {rk: kj for kj, rk in back.items()}
                report(out, "%s(%d) on a map with keys %s (%s) removed %s; by the documented key order (%s) it removes %s" % (
                    c["kind"], c["n"], json.dumps(a["keys"]), case["id"], json.dumps(o["removed"]),
                    " < ".join(byrank[x] for x in c["present"]), "[" + ", ".join(byrank[x] for x in c["removed"]) + "]"),
                    {"component": "takedrop", "case": {"id": case["id"], "cfg": case["cfg"], "acts": [a]},
                     "rank_of_key": back, "expected_removed_ranks": c["removed"], "present_ranks": c["present"], "observed": o})
        if not sampled and case["acts"]:
            sampled = True
            j = len(case["acts"]) // 2
            out.sample({"component": "take/drop " + case["id"], "call": case["acts"][j],
                        "expected_removed_ranks": ms[j][0]["removed"], "real_removed": r["obs"][j]["removed"]})
    core.log("[K-C02] TD: %d TLC cases x %d (pool, backing) = %d evaluations of the real drop_or_take, %d wrong" % (
        len(td_cases), len(cases), evaluations, bad))
    return {"cases": len(td_cases), "evaluations": evaluations, "wrong": bad}


# ----------------------------------------------------------------------------- replay of one file

def replay(path, out=None):
    wd = core.workdir("KMAPQ_replay")
    doc = json.load(open(path))
    obj = doc["replay"]
    prop = doc.get("property", "C02")
    core.build_harness(MEMBER, COMPONENT)
    if obj.get("component") == "takedrop":
        case = obj["case"]
        back, want = obj["rank_of_key"], sorted(obj["expected_removed_ranks"])
        print("call:", json.dumps(case["acts"][0]), "expected removed ranks:", want, "rank of key:", back)
        many = dict(case, acts=case["acts"] * 20)       # HashMap iteration order differs per map instance
        r = run_harness_cases([many], wd, "replay")[0]
        if r.get("panic") is not None:
            print("panic:", r["panic"])
            print("VIOLATION property=%s replay=%s" % (prop, path))
            return 1
        wrong = [o["removed"] for o in r["obs"] if sorted(back.get(core.canon(x), -1) for x in o["removed"]) != want]
        print("real drop_or_take, 20 runs: %d wrong; e.g. %s" % (len(wrong), json.dumps((wrong or [r["obs"][0]["removed"]])[0])))
        if wrong:
            print("VIOLATION property=%s replay=%s" % (prop, path))
            return 1
        return 0
    if obj.get("component") == "reconkey-probe":
        case = {"id": "probe", "cfg": {"mode": "probe"}, "acts": [{"k": "cmp", "a": b["a"], "b": b["b"]} for b in obj["pairs"]]}
        r = run_harness_cases([case], wd, "replay")[0]
        wrong = 0
        for b, o in zip(obj["pairs"], r.get("obs", [])):
            ok = o["eq"] == o["val_eq"] and (not o["val_eq"] or o["hash_eq"])
            wrong += not ok
            print("%r vs %r: ReconKey eq=%s hash_eq=%s; parsed values equal=%s%s" % (b["a"], b["b"], o["eq"], o["hash_eq"], o["val_eq"], "" if ok else "   <== WRONG"))
        if wrong or r.get("panic"):
            print("VIOLATION property=%s replay=%s" % (prop, path))
            return 1
        return 0
    pc = obj["case"]
    prints = calibrate(wd, core.Outcome(prop, "model_checking", "replay"))
    wirecase = {"id": pc["id"], "cfg": pc["cfg"], "acts": pc["concrete"]}
    r = run_harness_cases([wirecase], wd, "replay")[0]
    # rebuild the binding from the recorded description
    b = Binding.__new__(Binding)
    b.mode, desc = pc["cfg"]["mode"], pc["binding"]
    if b.mode == "rt":
        b.texts = {int(c): t for c, t in desc["keys"].items()}
        b.vals = {int(v): t for v, t in desc["vals"].items()}
        b.nk = len(b.texts)
        b.text2key = {t: (c, a + 1) for c, fam in b.texts.items() for a, t in enumerate(fam)}
        b.val2v = {t: v for v, t in b.vals.items()}
    else:
        pool = desc["pool"]
        pr = prints[pool]
        b.pool = pool
        b.keys = {int(c): k for c, k in desc["keys"].items()}
        b.nk = len(b.keys)
        b.vals = {int(v): x for v, x in desc["vals"].items()}
        pos = {core.canon(k): i for i, k in enumerate(AG_POOLS[pool]["keys"])}
        idx = {c: pos[core.canon(k)] for c, k in b.keys.items()}
        b.json2key = {core.canon(pr["key_json"][i]): c for c, i in idx.items()}
        b.text2key = {pr["key_text"][i]: (c, 1) for c, i in idx.items()}
        b.json2v = {core.canon(j): v for v, j in pr["val_json"].items()}
        b.val2v = {t: v for v, t in pr["val_text"].items()}
    b.desc = desc
    case = {"id": pc["id"], "cfg": pc["cfg"], "acts": pc["acts"], "_b": b}
    d = diverges(case, r)
    print("first difference from M:", json.dumps(d))
    ev = to_trace(case, r)
    rej, n, _, _ = p_batch([(0, ev)], wd, "replay_p")
    if rej:
        print("P (Trace_MapQueue) rejects the execution at event %s: %s" % (rej[0]["at"], json.dumps(rej[0]["event"])))
        print("trace:", json.dumps(ev[max(0, rej[0]["at"] - 12): rej[0]["at"] + 1]))
        print("VIOLATION property=%s replay=%s" % (prop, path))
        return 1
    print("P accepts the execution (%d events)" % n)
    return 0

"""C15 - comparing and hashing Recon text agrees with comparing parsed values.

Exploration level; TLC generates the cases and evaluates the laws.

 1. Gen_ReconCompare (TLC) explores the state space of specs/ReconCompare.tla:
    abstract value -> near miss (one abstract edit) -> rendering (style) -> corruption, and dumps every value,
    edit edge, rendering (token sequence + what M expects: normal form, hash event stream) and corruption.
 2. The tokens are joined to text; the three real printers (print_recon, _compact, _pretty) are run by the
    harness on every parsed value and their output joins the renderings of that value.
 3. Pairs: (A) all ordered pairs of renderings of the same value (equal by construction), (B) every edit edge
    (near miss) in two style combinations and both orders, (C) all ordered pairs of values with the same skeleton
    (same primitive events, different nesting - what a comparator that skips StartBody/EndRecord could merge),
    (D) corrupted texts against themselves, their origin and each other, (E) every number (integers at the limits of the
    tokenizer's kinds, signed zero, floats) in each of its five spellings against every other one, in five contexts.
 4. harness h_core/reconcmp observes compare_recon_values, recon_hash, parse_recognize::<Value> + Value::eq.
 5. MC_ReconCompare (TLC) evaluates the laws (P) over the observed table, M's verdict on the same pair and the
    row-by-row comparison of M with the code (MODEL-DRIFT only).
 6. A broken law instance is excused only by an open entry of known_findings/C15.json whose class matches the
    pair AND if M (the transcription of the unchanged hasher) breaks the law on the same pair; else VIOLATION.
"""
import json, os, collections, random
from vlib import core

LEVEL = "exploration"
PROP = "C15"
TOK = {"NL": "\n", "SP": " "}


def join(toks):
    return "".join(TOK.get(t, t) for t in toks)


def corrupt(toks, kind):
    """corruptions that leave no valid value at the front of the text (the parser reads the first value only)"""
    t = list(toks)
    closers = [i for i, x in enumerate(t) if x in ("}", ")")]
    openers = [i for i, x in enumerate(t) if x in ("{", "(")]
    if kind == "drop_last_close":
        if not closers:
            return None
        del t[closers[-1]]
    elif kind == "extra_open":
        if not openers:
            return None
        t.insert(openers[0], t[openers[0]])
    elif kind == "unterminated_front":
        if any('"' in x for x in t):
            return None                     # a later quote would terminate the string
        t.insert(0, '"zz')
    elif kind == "close_front":
        t.insert(0, ")")
    elif kind == "bad_escape_front":
        t.insert(0, '"\\q"')
    elif kind == "colon_front":
        t.insert(0, ":")
    else:
        raise core.ToolError("unknown corruption %s" % kind)
    return t


class Docs:
    """texts (deduplicated) with what M says about them"""

    def __init__(self):
        self.text = []
        self.idx = {}
        self.key = []       # value key (tuple) or None for corrupted texts
        self.mvalid = []
        self.nf = []
        self.sk = []
        self.hev = []
        self.undet = []
        self.kind = []      # "style" | "printer" | "corrupt"
        self.ambiguous = []

    def add(self, text, key, mvalid, nf, sk, hev, undet, kind):
        i = self.idx.get(text)
        if i is not None:
            if self.key[i] != key and kind != "corrupt" and self.kind[i] != "corrupt":
                self.ambiguous.append((text, self.key[i], key))
            return i
        i = len(self.text)
        self.idx[text] = i
        self.text.append(text)
        self.key.append(key)
        self.mvalid.append(mvalid)
        self.nf.append(nf)
        self.sk.append(sk)
        self.hev.append(hev)
        self.undet.append(undet)
        self.kind.append(kind)
        return i


def generate(tier, wd):
    c = core.cfg(constants=dict(Wide=(tier != "quick")), invariants=["DumpVal", "DumpDoc", "DumpCor"], action_constraints=["EdgeDump"])
    r = core.run_tlc("Gen_ReconCompare", c, os.path.join(wd, "gen"), workers=1, timeout=3000, keep_tagged_raw=True, xmx="8g")
    if not r.ok:
        raise core.ToolError("Gen_ReconCompare: %s" % r.status)
    return r


def harness(texts, groups, pairs, wd, tag, do_print=False):
    case = {"id": tag, "texts": texts, "groups": groups, "pairs": pairs, "print": do_print}
    inp, outp = os.path.join(wd, tag + ".in.ndjson"), os.path.join(wd, tag + ".out.ndjson")
    core.write_ndjson(inp, [case])
    core.run_harness("h_core", ["reconcmp"], stdin_path=inp, stdout_path=outp)
    res = core.read_ndjson(outp)[0]
    if res.get("panic"):
        raise core.ToolError("harness panicked outside the code under test: %s" % res["panic"])
    return res


def build(tier, wd, rng):
    gen = generate(tier, wd)
    vals = {}          # key -> dict(nf, sk, gen)
    for raw in gen.tagged["VAL"]:
        o = json.loads(raw)
        k = tuple(o["key"])
        if k not in vals or o["gen"] == 0:
            vals[k] = {"nf": tuple(o["nf"]), "sk": tuple(o["sk"]), "gen": o["gen"],
                       "ctx": o.get("ctx", 0)}
    D = Docs()
    by_val = collections.defaultdict(list)      # key -> [doc index]
    dflt, nlmix = {}, {}
    by_ctx = collections.defaultdict(list)      # numeric context -> [doc index] (number spellings only)
    for raw in gen.tagged["DOC"]:
        o = json.loads(raw)
        k = tuple(o["key"])
        i = D.add(join(o["toks"]), k, 1, vals[k]["nf"], vals[k]["sk"], tuple(o["hev"]), bool(o["undet"]), "style")
        if i not in by_val[k]:
            by_val[k].append(i)
        if o["dflt"]:
            dflt[k] = i
        if o["nlmix"]:
            nlmix[k] = i
        if o.get("nmv") and vals[k]["ctx"] and vals[k]["gen"] == 0 and i not in by_ctx[vals[k]["ctx"]]:
            by_ctx[vals[k]["ctx"]].append(i)
    # the three real printers, run on the parsed default rendering of every base value; a printed text that does not
    # parse back to the same value (a printer defect, C09's business) is not a rendering of that value and is dropped
    keys = sorted(k for k in dflt if vals[k]["gen"] == 0)
    ptexts, groups = [], []
    r1 = harness([D.text[dflt[k]] for k in keys], [], [], wd, "print", do_print=True)
    for k, pr in zip(keys, r1["printed"]):
        if pr is None:
            continue
        g = [len(ptexts)]
        ptexts.append(D.text[dflt[k]])
        for t in pr:
            g.append(len(ptexts))
            ptexts.append(t)
        groups.append((k, g))
    r1b = harness(ptexts, [g for _, g in groups], [], wd, "printchk")
    n_printer, n_printer_bad = 0, 0
    for (k, g), gr in zip(groups, r1b["groups"]):
        for j in range(1, len(g)):
            if gr["veq"][0][j] != "1":
                n_printer_bad += 1
                continue
            before = len(D.text)
            # M: the printers write implicit bodies with `,`: the hash events of the default style
            i = D.add(ptexts[g[j]], k, 1, vals[k]["nf"], vals[k]["sk"], D.hev[dflt[k]], D.undet[dflt[k]], "printer")
            n_printer += len(D.text) - before
            if i not in by_val[k]:
                by_val[k].append(i)
    # corrupted texts
    cor_of = []
    for raw in gen.tagged["COR"]:
        o = json.loads(raw)
        t = corrupt(o["toks"], o["cor"])
        if t is None:
            continue
        text = join(t)
        if text in D.idx:
            continue
        i = D.add(text, None, 0, ("invalid", text), (), ("invalid", text), False, "corrupt")
        cor_of.append((i, D.idx[join(o["toks"])], o["cor"]))
    edges = []
    for raw in gen.tagged["EDGE"]:
        o = json.loads(raw)
        edges.append((tuple(o["s"]), tuple(o["t"])))
    # ---- pairs
    rows = collections.OrderedDict()
    origin = collections.Counter()

    def add(a, b, why):
        if (a, b) not in rows:
            rows[(a, b)] = why
            origin[why] += 1

    for k, ds in by_val.items():
        for a in ds:
            for b in ds:
                if a != b or vals[k]["gen"] == 0:
                    add(a, b, "A same value")
    for s, t in edges:
        if s in dflt and t in dflt:
            add(dflt[s], dflt[t], "B near miss")
            add(dflt[t], dflt[s], "B near miss")
            if s in nlmix:
                add(nlmix[s], dflt[t], "B near miss")
    cap = 10 if tier == "quick" else 20
    classes = collections.defaultdict(list)
    for k in sorted(dflt):
        classes[vals[k]["sk"]].append(k)
    for sk, ks in sorted(classes.items()):
        if len(ks) < 2:
            continue
        if len(ks) > cap:
            ks = rng.sample(ks, cap)
        for x in ks:
            for y in ks:
                if x != y:
                    add(dflt[x], dflt[y], "C same skeleton")
    # (E) every number against every number, in all spellings, in the same context
    for c, ds in sorted(by_ctx.items()):
        for a in ds:
            for b in ds:
                add(a, b, "E numbers")
    prev = None
    for i, d, kind in cor_of:
        add(i, i, "D corrupted")
        add(i, d, "D corrupted")
        add(d, i, "D corrupted")
        if prev is not None:
            add(prev, i, "D corrupted")
        prev = i
    return gen, vals, D, list(rows.keys()), rows, origin, dict(n_values=len(vals), n_base=sum(1 for v in vals.values() if v["gen"] == 0),
                                                               n_edges=len(edges), n_printer_texts=n_printer, n_printer_texts_not_roundtripping=n_printer_bad,
                                                               n_corrupted=len(cor_of))


def simulate(D, pairs, obs_cmp, valid, wd, tag, rng, n_unequal, n_equal):
    """First TLC pass: the transcription of incremental_compare / ValueValidator (ReconCompare!CmpStep) is run on the
    real parse events of the pairs where the comparator's size bookkeeping decides:
      - every pair of different normal forms that the real comparator calls equal, and every pair of equal normal
        forms that it calls different (the pairs on which a law is broken);
      - a seeded sample of the pairs with the same skeleton and different normal forms that it tells apart;
      - a seeded sample of the pairs with equal normal forms that it calls equal.
    Returns {row index: M's verdict}."""
    must, cand_ne, cand_eq = [], [], []
    for r, (a, b) in enumerate(pairs):
        if a == b or D.mvalid[a] != 1 or D.mvalid[b] != 1 or valid[a] != 1 or valid[b] != 1:
            continue
        same = D.nf[a] == D.nf[b]
        c = obs_cmp[r]
        if (c == 1) != same:
            must.append(r)
        elif not same and D.sk[a] == D.sk[b]:
            cand_ne.append(r)
        elif same:
            cand_eq.append(r)
    if len(must) > 20000:
        must = rng.sample(must, 20000)
    chosen = must + (rng.sample(cand_ne, n_unequal) if len(cand_ne) > n_unequal else cand_ne) \
                  + (rng.sample(cand_eq, n_equal) if len(cand_eq) > n_equal else cand_eq)
    if not chosen:
        return {}, dict(simulated=0)
    tix = sorted({pairs[r][0] for r in chosen} | {pairs[r][1] for r in chosen})
    pos = {t: i for i, t in enumerate(tix)}
    case = {"id": tag, "texts": [D.text[t] for t in tix], "groups": [], "pairs": [], "print": False, "events": list(range(len(tix)))}
    inp, outp = os.path.join(wd, tag + ".ev.in.ndjson"), os.path.join(wd, tag + ".ev.out.ndjson")
    core.write_ndjson(inp, [case])
    core.run_harness("h_core", ["reconcmp"], stdin_path=inp, stdout_path=outp)
    evs = core.read_ndjson(outp)[0]["events"]
    sim = []
    for r in chosen:
        ea, eb = evs[pos[pairs[r][0]]], evs[pos[pairs[r][1]]]
        if ea is None or eb is None:
            continue
        sim.append([r + 1, ea, eb])
    tp = os.path.join(wd, tag + ".sim.ndjson")
    core.write_ndjson(tp, [{"sim": sim}])
    c = core.cfg(init="SimInit", next_="SimNext", invariants=["SimReport"])
    # (no -coverage: TLC's coverage instrumentation of the instantiated module exhausts the heap)
    t = core.run_tlc("MC_ReconCompare", c, os.path.join(wd, tag + ".sim"), workers=4, env={"TABLE": tp}, timeout=1800, xmx="6g", coverage=False)
    if not t.ok:
        raise core.ToolError("MC_ReconCompare (simulation pass): %s %s" % (t.status, t.violated))
    out = {}
    for x in t.tagged.get("SIM", []):
        out[x["row"] - 1] = x["cmp"]
    if len(out) != len(sim):
        raise core.ToolError("simulation pass answered %d of %d pairs" % (len(out), len(sim)))
    return out, dict(simulated=len(sim), simulated_law_breaking=len(must), simulated_same_skeleton_sample=min(len(cand_ne), n_unequal),
                     simulated_equal_sample=min(len(cand_eq), n_equal), sim_states=t.distinct, sim_wall_s=round(t.wall, 1))


def observe_and_table(D, pairs, wd, tag="obs", rng=None, n_unequal=1500, n_equal=500):
    res = harness(D.text, [], [[a, b] for a, b in pairs], wd, tag)
    hcls, nfc, hevc = {"panic": 0}, {}, {}
    hash_ = [hcls.setdefault(h, len(hcls)) for h in res["hash"]]
    valid = [1 if x else 0 for x in res["valid"]]
    mnf = [nfc.setdefault(x, len(nfc) + 1) for x in D.nf]
    mhev = [hevc.setdefault(x, len(hevc) + 1) for x in D.hev]
    cmpc = {"0": 0, "1": 1, "!": 9}
    veqc = {"0": 0, "1": 1, "-": 2}
    obs_cmp = [cmpc[c] for c in res["pairs"]["cmp"]]
    msim, simstats = simulate(D, pairs, obs_cmp, valid, wd, tag, rng or random.Random(core.seed()), n_unequal, n_equal)
    rows = [[a + 1, b + 1, c, veqc[v], msim.get(r, 2)] for r, ((a, b), c, v) in enumerate(zip(pairs, obs_cmp, res["pairs"]["veq"]))]
    table = {"valid": valid, "hash": hash_, "mvalid": D.mvalid, "mnf": mnf, "mhev": mhev, "rows": rows, "chunk": 2000, "simstats": simstats}
    return res, table


def evaluate(table, wd, tag="mc", workers=4):
    tp = os.path.join(wd, tag + ".table.ndjson")
    core.write_ndjson(tp, [table])
    c = core.cfg(invariants=["Report"])
    r = core.run_tlc("MC_ReconCompare", c, os.path.join(wd, tag), workers=workers, env={"TABLE": tp}, timeout=3000, xmx="8g")
    if not r.ok:
        raise core.ToolError("MC_ReconCompare: %s %s\n%s" % (r.status, r.violated, r.counterexample[:2000]))
    for tag_ in ("FAIL", "DRIFT", "MONLY"):
        for x in r.tagged.get(tag_, []):
            if not isinstance(x, dict):
                raise core.ToolError("unparsable %s line from TLC: %r" % (tag_, x))
    return r


# ----------------------------------------------------------------------------- known findings

ZEROS = {"f0", "fneg0"}
NOZERO = {"f0": "F0", "fneg0": "F0"}


def pair_classes(D, a, b):
    """defect classes (the `class` of a known_findings signature) a pair of texts falls into, read off what the
    mechanism model M says about the two renderings"""
    s = set()
    if D.mvalid[a] != 1 or D.mvalid[b] != 1:
        return s
    if D.nf[a] == D.nf[b]:
        ha, hb = D.hev[a], D.hev[b]
        if ha != hb:
            za, zb = tuple(NOZERO.get(e, e) for e in ha), tuple(NOZERO.get(e, e) for e in hb)
            if za != zb:
                s.add("implicit-attr-body-scan")        # the StartBody/EndRecord normalisation differs
            if [e for e in ha if e in ZEROS] != [e for e in hb if e in ZEROS]:
                s.add("float-zero-sign-hash")           # a float zero of different sign at the same place
    else:
        # C15-F12's shape: the same events in the same order - the same primitives, attributes, slots AND the same
        # EndRecord positions - and the same number of records; only WHERE records open differs.  (A slot key, slot value,
        # item or attribute body that is wrapped in braces on one side only has an extra StartBody/EndRecord pair.)
        ca, cb = [e for e in D.nf[a] if e not in ("SB", "IT")], [e for e in D.nf[b] if e not in ("SB", "IT")]
        if ca == cb and D.nf[a].count("SB") == D.nf[b].count("SB"):
            s.add("nested-record-start")
    return s


def model_of(D, i):
    if D.mvalid[i] != 1:
        return None
    return {"valid": 1, "normal_form": list(D.nf[i]), "skeleton": list(D.sk[i]), "hash_events": list(D.hev[i]),
            "undetected_implicit_body": D.undet[i]}


def open_classes():
    m = {}
    for f in core.open_findings(PROP):
        sig = f.get("signature", {})
        if isinstance(sig, dict) and "class" in sig:
            m[sig["class"]] = (f, set(sig.get("laws", [])))
    return m


def triage(D, table, fails, out, why_of=None):
    oc = open_classes()
    hits = collections.defaultdict(collections.Counter)
    examples = {}
    viol = []
    for f in fails:
        a, b = table["rows"][f["row"] - 1][0] - 1, table["rows"][f["row"] - 1][1] - 1
        cls = pair_classes(D, a, b)
        predicted = f["m"] is False
        matched = sorted(c for c in cls if c in oc and f["law"] in oc[c][1])
        if predicted and matched:
            for c in matched:
                hits[c][f["law"]] += 1
                examples.setdefault((c, f["law"]), (a, b))
        else:
            viol.append((f, a, b, cls, predicted))
    for c in sorted(hits):
        fnd = oc[c][0]
        parts = []
        for law, n in sorted(hits[c].items()):
            a, b = examples[(c, law)]
            parts.append("%s x%d e.g. (%s | %s)" % (law, n, json.dumps(D.text[a]), json.dumps(D.text[b])))
        out.known_finding("%s %s -- %s" % (fnd["id"], fnd["what"], "; ".join(parts)))
    groups = collections.OrderedDict()
    for item in viol:
        f, a, b, cls, predicted = item
        shape = (f["law"], D.kind[a], D.kind[b], tuple(sorted(cls)))
        groups.setdefault(shape, []).append(item)
    for shape, items in list(groups.items())[:40]:
        items.sort(key=lambda it: len(D.text[it[1]]) + len(D.text[it[2]]))
        f, a, b, cls, predicted = items[0]
        row = table["rows"][f["row"] - 1]
        obs = {"valid_a": table["valid"][a], "valid_b": table["valid"][b], "compare_recon_values": row[2], "parsed_values_equal": row[3],
               "hash_equal": table["hash"][a] == table["hash"][b]}
        why = ("not covered by any open known finding" if not cls else
               "touches the known-finding classes %s but %s" % (sorted(cls), "the unchanged mechanism (M) does not break the law on this pair"
                                                                  if not predicted else "none of them lists this law"))
        out.violation("law %s broken by the real swimos_recon on (%s | %s): observed %s; %s; %d pairs of this shape" % (
            f["law"], json.dumps(D.text[a]), json.dumps(D.text[b]), json.dumps(obs), why, len(items)),
            {"component": "reconcmp", "law": f["law"], "a": D.text[a], "b": D.text[b], "observed": obs,
             "model": {"a": model_of(D, a), "b": model_of(D, b)}})
    return hits, viol


def run(tier, out):
    rng = random.Random(core.seed())
    wd = core.workdir("C15")
    core.build_harness("h_core", "reconcmp")
    gen, vals, D, pairs, why, origin, counts = build(tier, wd, rng)
    res, table = observe_and_table(D, pairs, wd, rng=rng, n_unequal=1500 if tier == "quick" else 6000, n_equal=500 if tier == "quick" else 2000)
    r = evaluate(table, wd)
    fails, drift, monly = r.tagged.get("FAIL", []), r.tagged.get("DRIFT", []), r.tagged.get("MONLY", [])
    hits, viol = triage(D, table, fails, out)
    for d in drift[:3]:
        row = table["rows"][d["row"] - 1]
        a, b = row[0] - 1, row[1] - 1
        out.notes.append("MODEL-DRIFT ReconCompare (%s | %s): M says valid=%s/%s cmp=%s veq=%s hash-equal=%s, the code says valid=%s/%s cmp=%s veq=%s hash-equal=%s" % (
            json.dumps(D.text[a]), json.dumps(D.text[b]), D.mvalid[a], D.mvalid[b], d["cmp"], d["veq"], d["heq"],
            table["valid"][a], table["valid"][b], row[2], row[3], table["hash"][a] == table["hash"][b]))
    for t, k1, k2 in D.ambiguous[:3]:
        out.notes.append("DATA-MODEL: two different abstract values render to the same text %s" % json.dumps(t))
    cov = {a: {"distinct": d, "taken": t} for a, (d, t) in r.coverage.items()}
    never = [a for a, (d, t) in r.coverage.items() if t == 0 and a.startswith("Eval")]
    gcov = {a: {"distinct": d, "taken": t} for a, (d, t) in gen.coverage.items()}
    never += [a for a, (d, t) in gen.coverage.items() if t == 0 and a in ("Edit", "Layout", "Corrupt")]
    laws_eval = sum(t for a, (d, t) in r.coverage.items() if a.startswith("Eval") and a != "EvalConform")
    # non-trivial: the two texts differ and the premise of the law holds (every Eval* state has a true premise)
    nontriv = collections.Counter()
    for (a, b), row in zip(pairs, table["rows"]):
        if a == b:
            continue
        bv = table["valid"][a] == 1 and table["valid"][b] == 1
        if bv and row[3] == 1:
            nontriv["EqualValuesCompareEqual"] += 1
        if bv and row[3] == 0:
            nontriv["DistinctValuesCompareUnequal"] += 1
        if row[2] == 1:
            nontriv["CompareEqualImpliesHashEqual"] += 1
        if not bv:
            nontriv["InvalidIsStringEquality"] += 1
    by_law = collections.Counter(f["law"] for f in fails)
    out.add(evaluations=laws_eval, distinct_nontrivial=sum(nontriv.values()),
            rule="TLC explores ReconCompare.tla (Wide=%s): abstract values, near misses (one abstract edit), renderings (styles), corruptions; "
                 "texts = joined tokens + output of the 3 real printers; pairs = (A) all ordered pairs of renderings of one value, (B) edit edges, "
                 "(C) values with the same skeleton, (D) corrupted texts, (E) all numbers x all spellings in 5 contexts; one evaluation = one law instance (law, ordered pair of texts) whose premise "
                 "holds, evaluated by TLC over the observed table; non-trivial = additionally the two texts are different strings" % (tier != "quick"),
            nontrivial_by_law=dict(nontriv), texts=len(D.text), pairs=len(pairs), pairs_by_origin=dict(origin),
            texts_by_kind=dict(collections.Counter(D.kind)), texts_valid=sum(table["valid"]), **counts,
            states=r.distinct + gen.distinct, transitions=r.generated + gen.generated, gen_states=gen.distinct, law_states=r.distinct,
            action_coverage=cov, gen_action_coverage=gcov, actions_never_taken=never,
            law_instances_broken_by_code=len(fails), broken_by_law=dict(by_law),
            broken_and_covered_by_known_findings=len(fails) - len(viol), unexcused=len(viol),
            model_drift_rows=len(drift), rows_compared_with_M=len(pairs), broken_only_in_M=len(monly),
            ambiguous_renderings=len(D.ambiguous), comparator_transcription=table.get("simstats", {}), tlc_wall_s=round(r.wall + gen.wall, 1),
            checker_cmd="tlc Gen_ReconCompare (values, edits, renderings, corruptions) ; h_core reconcmp ; tlc MC_ReconCompare INVARIANT Report (laws P, model M, Conform)")
    for i in rng.sample(range(len(pairs)), 4):
        a, b = pairs[i]
        row = table["rows"][i]
        out.sample({"a": D.text[a], "b": D.text[b], "pair_origin": why[(a, b)], "valid": [table["valid"][a], table["valid"][b]],
                    "compare_recon_values": row[2], "parsed_values_equal": row[3], "hash_equal": table["hash"][a] == table["hash"][b]})
    for f in fails[:: max(1, len(fails) // 2)][:2]:
        row = table["rows"][f["row"] - 1]
        out.sample({"law": f["law"], "broken_on": [D.text[row[0] - 1], D.text[row[1] - 1]], "also_broken_in_M": f["m"] is False})
    out.assumptions += ["hash equality is observed through std DefaultHasher (SipHash-1-3, fixed keys)",
                        "validity = parse_recognize::<Value>(text, false) succeeds; equality of parsed values = Value::eq",
                        "a broken law instance is excused only if an open known finding lists its law and class AND the mechanism model M "
                        "(hash events incl. the lexical is_implicit_record scan, float zero sign) breaks the same law on the same pair"]
    core.log("[C15] %d values (%d base), %d texts, %d pairs; %d law instances evaluated by TLC (gen %d states %.1fs, laws %d states %.1fs); "
             "broken %d (excused %d, unexcused %d); drift rows %d; ambiguous renderings %d" % (
                 counts["n_values"], counts["n_base"], len(D.text), len(pairs), laws_eval, gen.distinct, gen.wall, r.distinct, r.wall,
                 len(fails), len(fails) - len(viol), len(viol), len(drift), len(D.ambiguous)))


def replay(path, out):
    wd = core.workdir("C15_replay")
    obj = json.load(open(path))["replay"]
    core.build_harness("h_core", "reconcmp")
    D = Docs()
    for side in ("a", "b"):
        m = (obj.get("model") or {}).get(side)
        if m:
            D.add(obj[side], ("replay", side), 1, tuple(m["normal_form"]), tuple(m.get("skeleton", [])), tuple(m["hash_events"]),
                  m["undetected_implicit_body"], "style")
        else:
            D.add(obj[side], None, 0, ("invalid", obj[side]), (), ("invalid", obj[side]), False, "corrupt")
    if len(D.text) == 1:
        pairs = [(0, 0)]
    else:
        pairs = [(0, 1), (1, 0), (0, 0), (1, 1)]
    res, table = observe_and_table(D, pairs, wd)
    for (a, b), row in zip(pairs, table["rows"]):
        print("pair (%s | %s): valid=%s/%s compare_recon_values=%s parsed_values_equal=%s hash_equal=%s" % (
            json.dumps(D.text[a]), json.dumps(D.text[b]), table["valid"][a], table["valid"][b], row[2], row[3], table["hash"][a] == table["hash"][b]))
    r = evaluate(table, wd, workers=1)
    fails = r.tagged.get("FAIL", [])
    for f in fails:
        row = table["rows"][f["row"] - 1]
        print("law %s broken on (%s | %s)%s" % (f["law"], json.dumps(D.text[row[0] - 1]), json.dumps(D.text[row[1] - 1]),
                                               "  [also broken by the unchanged mechanism M]" if f["m"] is False else ""))
    hits, viol = triage(D, table, fails, out)
    for k in out.known:
        print("KNOWN-FINDING: property=%s %s" % (PROP, k))
    if viol:
        print("VIOLATION property=%s replay=%s" % (PROP, path))
        return 1
    print("no unexcused law violation on this pair")
    return 0

"""./check KCMD - the component-level (configuration K) part of C14 on its own: agent-sent commands
through CommandOutput.  See checks/k_cmdoutput.py (the C14 check calls run_k from there).

Verdict lines carry the property id C14; the evidence of a stand-alone run goes to
evidence/KCMD.json so that it does not overwrite the evidence of the full C14 check."""
import json, os, shutil
from vlib import core
from checks import k_cmdoutput

PROP = "C14"


def run(tier, out):
    wd = core.workdir("KCMD")
    out.prop = PROP                      # VIOLATION / KNOWN-FINDING lines and replays/ directory
    k_cmdoutput.run_k(tier, out, wd, prop=PROP)
    orig_finish = out.finish

    def finish():
        real = core.EVIDENCE
        tmp = os.path.join(wd, "evidence")
        core.EVIDENCE = tmp
        try:
            rc = orig_finish()
        finally:
            core.EVIDENCE = real
        os.makedirs(real, exist_ok=True)
        shutil.copy(os.path.join(tmp, "%s.json" % PROP), os.path.join(real, "KCMD.json"))
        return rc
    out.finish = finish


def replay(path, out):
    wd = core.workdir("KCMD_replay")
    obj = json.load(open(path))["replay"]
    if "case" not in obj:
        print(json.dumps(obj, indent=1)[:4000])
        return 0
    return k_cmdoutput.replay_k(obj, wd, prop=PROP, path=path)
